#!/usr/bin/env python3
"""T8: record layouts -> coq/Gen/GenLayout.v + .build/gen/gen_layout.h

Field offsets / sizes / array shapes of IMB_MGR, IMB_JOB (top level) and of every MB_MGR_*_OOO
struct of lib/include/ipsec_ooo_mgr.h (flattened to scalar leaves through nested structs and
arrays), with a classification of every leaf as scalar / data pointer / function pointer / blob.

Route: the *names, nesting and types* come from the clang JSON AST of a two-line translation unit
(#include "intel-ipsec-mb.h", #include "include/ipsec_ooo_mgr.h") preprocessed with the -D/-I/-m
flags that .build/lib/compile_commands.json records for lib/x86_64/alloc.c (the file that sizes
the manager block).  The *numbers* (offsetof / sizeof / strides) are printed by a generated C
program compiled with the compiler that builds the library and the same flags.  Self test (second,
independent route): the same program compiled with clang must print the same numbers, leaves must
tile each struct without overlap, and sizeof must be a multiple of the alignment.

Unknown type spellings, bit-fields, flexible arrays etc. raise T8Error: nothing is guessed.

Usage: t8_layout.py           (IMB_REPO / IMB_VERIF_BUILD override /repo and /verif/.build)
"""
import json, os, re, shlex, subprocess, sys

VERIF = os.path.dirname(os.path.dirname(os.path.abspath(__file__)))
REPO = os.environ.get("IMB_REPO", "/repo")
BUILD = os.environ.get("IMB_VERIF_BUILD", os.path.join(VERIF, ".build"))
COMPDB = os.path.join(BUILD, "lib", "compile_commands.json")
GEN = os.path.join(BUILD, "gen")
OUT_V = os.path.join(os.environ.get("IMB_COQ_DIR") or os.path.join(VERIF, "coq"), "Gen", "GenLayout.v")
OUT_H = os.path.join(GEN, "gen_layout.h")

SCALARS = {"uint8_t", "uint16_t", "uint32_t", "uint64_t", "int8_t", "int16_t", "int32_t", "int64_t", "int",
           "unsigned int", "unsigned", "char", "unsigned char", "short", "unsigned short", "long", "unsigned long",
           "size_t", "unsigned long long", "long long"}
ENUM_OK = re.compile(r"^(enum )?IMB_[A-Z0-9_]+$")
TOP = ["IMB_MGR"]   # IMB_JOB has anonymous union members; its layout is not needed here (jobs[] is one blob)


class T8Error(Exception):
    pass


def flags_for(relfile):
    """-D/-I/-m/-std flags of the real compile command of lib/<relfile>"""
    db = json.load(open(COMPDB))
    want = os.path.join(REPO, "lib", relfile)
    for e in db:
        if os.path.realpath(e["file"]) == os.path.realpath(want):
            args = shlex.split(e["command"]) if "command" in e else e["arguments"]
            out = []
            it = iter(args[1:])
            for a in it:
                if a in ("-o", "-c"):
                    if a == "-o":
                        next(it)
                    continue
                if a.startswith(("-D", "-I", "-m", "-std")):
                    out.append(a)
                    if a in ("-D", "-I"):
                        out.append(next(it))
            return out, args[0]
    raise T8Error("no compile command for %s in %s" % (want, COMPDB))


def clang_ast(src_path, flags, cwd=None):
    cmd = ["clang", "-Xclang", "-ast-dump=json", "-fsyntax-only", "-Wno-everything"] + flags + [src_path]
    p = subprocess.run(cmd, stdout=subprocess.PIPE, stderr=subprocess.PIPE, text=True, timeout=300, cwd=cwd)
    if p.returncode != 0:
        raise T8Error("clang failed on %s:\n%s" % (src_path, p.stderr[-3000:]))
    return json.loads(p.stdout)


class Records:
    def __init__(self, ast):
        self.by_id = {}
        self.typedef = {}   # typedef name -> record id | ("alias", qualType)
        self.named = {}     # struct tag -> record id (complete definition)
        self._walk(ast)

    def _walk(self, n):
        k = n.get("kind")
        if k == "RecordDecl" and n.get("completeDefinition"):
            self.by_id[n["id"]] = n
            if n.get("name"):
                self.named[(n.get("tagUsed", "struct"), n["name"])] = n["id"]
        if k == "TypedefDecl":
            rid = None
            for c in n.get("inner", []):
                rid = rid or self._find_record(c)
            self.typedef[n["name"]] = rid if rid else ("alias", n["type"].get("desugaredQualType") or n["type"]["qualType"])
        for c in n.get("inner", []):
            if isinstance(c, dict):
                self._walk(c)

    def _find_record(self, t):
        if t.get("kind") == "RecordType" and "decl" in t:
            return t["decl"]["id"]
        if "ownedTagDecl" in t and t["ownedTagDecl"].get("kind") == "RecordDecl":
            return t["ownedTagDecl"]["id"]
        if t.get("kind") not in ("ElaboratedType", "TypedefType", "AttributedType", "QualType"):
            return None   # a record only reachable through a pointer / function type is not what the typedef names
        for c in t.get("inner", []):
            r = self._find_record(c)
            if r:
                return r
        return None

    def record_of(self, base):
        """record node for a type spelling, or None"""
        b = base.strip()
        b = re.sub(r"^(const|volatile)\s+", "", b)
        m = re.match(r"^(struct|union)\s+(\w+)$", b)
        if m:
            rid = self.named.get((m.group(1), m.group(2)))
            if rid is None:
                raise T8Error("incomplete record type %r" % base)
            return self.by_id[rid]
        if b in self.typedef and not isinstance(self.typedef[b], tuple):
            rid = self.typedef[b]
            if rid not in self.by_id:
                # typedef of a forward-declared struct: look up by the tag name
                for (tag, nm), i in self.named.items():
                    if nm == b:
                        return self.by_id[i]
                raise T8Error("typedef %s names an incomplete record" % b)
            return self.by_id[rid]
        return None


def dims_in_order(q):
    return [int(x) for x in re.findall(r"\[(\d+)\]", q[q.find("["):])] if "[" in q else []


def base_of(q):
    return q[:q.find("[")].strip() if "[" in q else q.strip()


def classify(rec, field, base):
    """kind of a non-record leaf"""
    t = field["type"]
    des = t.get("desugaredQualType", t["qualType"])
    des_base = base_of(des)
    b = re.sub(r"\b(const|volatile)\b", "", base).strip()
    if "(*)" in des_base or "(*)" in base:
        return "fnptr"
    if b.endswith("*") or des_base.endswith("*"):
        return "ptr"
    if b in rec.typedef and isinstance(rec.typedef[b], tuple):
        a = rec.typedef[b][1]
        if "(*)" in a:
            return "fnptr"
        if a.strip().endswith("*"):
            return "ptr"
        ab = re.sub(r"\b(const|volatile)\b", "", a).strip()
        if ab in SCALARS or ENUM_OK.match(ab) or ab.startswith("enum "):
            return "scalar"
        raise T8Error("typedef %s = %s not classified" % (b, a))
    if b in SCALARS or ENUM_OK.match(b) or b.startswith("enum "):
        return "scalar"
    raise T8Error("field %s: type %r (%r) not classified" % (field.get("name"), base, des))


def flatten(rec, node, prefix, levels, out, depth=0, opaque=()):
    """leaves of record `node`; levels = list of (c-expression prefix of the array, dim)"""
    if node.get("tagUsed") == "union":
        raise T8Error("flatten called on a union")
    for f in node.get("inner", []):
        if f.get("kind") in ("FullComment", "AlignedAttr", "MaxFieldAlignmentAttr", "PackedAttr"):
            if f.get("kind") in ("PackedAttr", "MaxFieldAlignmentAttr"):
                raise T8Error("packed record")
            continue
        if f.get("kind") == "RecordDecl":
            continue  # nested anonymous definition; reached through its field
        if f.get("kind") != "FieldDecl":
            raise T8Error("unexpected %s inside a record" % f.get("kind"))
        if not f.get("name"):
            raise T8Error("anonymous member")
        q = f["type"]["qualType"]
        base, dims = base_of(q), dims_in_order(q)
        path = prefix + f["name"]
        sub = None
        if "(unnamed" in base or "(anonymous" in base:
            # anonymous union/struct member type (IMB_JOB.u etc.): kept as one opaque blob
            out.append(dict(path=path, dims=dims, kind="blob", ctype=re.sub(r"\(.*\)", "(anonymous)", base)))
            continue
        if "*" not in base:
            sub = rec.record_of(base)
        if sub is not None and (sub.get("tagUsed") == "union" or f["name"] in opaque or base.replace("struct ", "") in opaque):
            out.append(dict(path=path, dims=dims, kind="blob", ctype=base))
            continue
        if sub is not None:
            # nested struct (possibly an array of structs)
            idx = "".join("[]" for _ in dims)
            sub_out = []
            flatten(rec, sub, "", [], sub_out, depth + 1, opaque)
            for s in sub_out:
                out.append(dict(path=path + idx + "." + s["path"], dims=dims + s["dims"], kind=s["kind"], ctype=s["ctype"]))
            continue
        out.append(dict(path=path, dims=dims, kind=classify(rec, f, base), ctype=base))


def c_path0(path):
    return path.replace("[]", "[0]")


def gen_probe(structs):
    L = ['#include <stdio.h>', '#include <stddef.h>', '#include "intel-ipsec-mb.h"', '#include "include/ipsec_ooo_mgr.h"',
         'int main(void){']
    for s, leaves in structs.items():
        L.append('printf("S %s %%zu %%zu\\n", sizeof(%s), (size_t)__alignof__(%s));' % (s, s, s))
        for lf in leaves:
            p = lf["path"]
            # strides: one per array level, in path order, then trailing dims of the leaf itself
            parts = []
            # walk the path, collecting the c-expression up to each "[]"
            expr = ""
            toks = re.split(r"(\[\])", p)
            for t in toks:
                if t == "[]":
                    parts.append("sizeof(((%s*)0)->%s[0])" % (s, expr))
                    expr += "[0]"
                else:
                    expr += t
            ntrail = len(lf["dims"]) - len(parts)
            e2 = expr
            for _ in range(ntrail):
                parts.append("sizeof(((%s*)0)->%s[0])" % (s, e2))
                e2 += "[0]"
            L.append('printf("L %s %s %%zu %%zu%s\\n", offsetof(%s, %s), sizeof(((%s*)0)->%s)%s);'
                     % (s, p, "".join(" %zu" for _ in parts), s, expr, s, e2, "".join(", " + x for x in parts)))
    L.append('return 0;}')
    return "\n".join(L) + "\n"


def run_probe(cc, flags, src, exe):
    cmd = [cc] + [f for f in flags if not f.startswith("-std")] + ["-w", "-o", exe, src]
    p = subprocess.run(cmd, stdout=subprocess.PIPE, stderr=subprocess.PIPE, text=True, timeout=300)
    if p.returncode != 0:
        raise T8Error("%s failed on the layout probe:\n%s" % (cc, p.stderr[-3000:]))
    return subprocess.run([exe], stdout=subprocess.PIPE, text=True, timeout=60, check=True).stdout


def layout():
    """-> dict name -> dict(size, align, leaves=[dict(path, off, esz, dims, strides, kind, ctype)])"""
    os.makedirs(GEN, exist_ok=True)
    flags, cc = flags_for("x86_64/alloc.c")
    tu = os.path.join(GEN, "t8_tu.c")
    open(tu, "w").write('#include "intel-ipsec-mb.h"\n#include "include/ipsec_ooo_mgr.h"\n')
    ast = clang_ast(tu, flags)
    rec = Records(ast)
    names = list(TOP)
    for nm, rid in rec.typedef.items():
        if re.match(r"^MB_MGR_\w+_OOO$", nm) and not isinstance(rid, tuple):
            names.append(nm)
    if len(names) < 10:
        raise T8Error("only %d records found" % len(names))
    structs = {}
    for nm in names:
        node = rec.record_of(nm) or rec.record_of("struct " + nm)
        if node is None:
            raise T8Error("record %s not found" % nm)
        leaves = []
        flatten(rec, node, "", [], leaves, opaque=("IMB_JOB",) if nm == "IMB_MGR" else ())
        structs[nm] = leaves
    src = os.path.join(GEN, "t8_probe.c")
    open(src, "w").write(gen_probe(structs))
    out1 = run_probe(cc, flags, src, os.path.join(GEN, "t8_probe_cc"))
    out2 = run_probe("clang", flags, src, os.path.join(GEN, "t8_probe_clang"))
    if out1 != out2:
        raise T8Error("layout self-test failed: %s and clang disagree on the record layout" % cc)
    res = {}
    for line in out1.splitlines():
        t = line.split()
        if t[0] == "S":
            res[t[1]] = dict(size=int(t[2]), align=int(t[3]), leaves=[])
        else:
            s, p = t[1], t[2]
            lf = next(l for l in structs[s] if l["path"] == p)
            nums = [int(x) for x in t[3:]]
            d = dict(lf)
            d["off"], d["esz"], d["strides"] = nums[0], nums[1], nums[2:]
            if len(d["strides"]) != len(d["dims"]):
                raise T8Error("dims/strides mismatch for %s.%s" % (s, p))
            res[s]["leaves"].append(d)
    for s, r in res.items():
        selftest(s, r)
    return res


def leaf_ranges(lf):
    """all byte ranges (start, end) occupied by a leaf"""
    offs = [lf["off"]]
    for d, st in zip(lf["dims"], lf["strides"]):
        offs = [o + i * st for o in offs for i in range(d)]
    return [(o, o + lf["esz"]) for o in offs]


def selftest(s, r):
    if r["size"] % r["align"]:
        raise T8Error("%s: size not a multiple of alignment" % s)
    occ = bytearray(r["size"])
    for lf in r["leaves"]:
        for a, b in leaf_ranges(lf):
            if b > r["size"]:
                raise T8Error("%s.%s exceeds the struct" % (s, lf["path"]))
            for i in range(a, b):
                if occ[i]:
                    raise T8Error("%s.%s overlaps another leaf at byte %d" % (s, lf["path"], i))
                occ[i] = 1
    r["padding"] = r["size"] - sum(occ)


KIND_ID = {"scalar": 0, "ptr": 1, "fnptr": 2, "blob": 3}


def coq_str(s):
    return '"%s"' % s


def emit_v(res):
    L = ["(* GENERATED by translators/t8_layout.py — do not edit.  Offsets/sizes printed by a C program built with the",
         "   library's compiler and flags; names and types from the clang AST of intel-ipsec-mb.h / ipsec_ooo_mgr.h. *)",
         "From Coq Require Import NArith List String.", "Import ListNotations.", "Local Open Scope N_scope.", "Local Open Scope string_scope.", "",
         "Inductive lkind := KScalar | KPtr | KFnPtr | KBlob.",
         "(* a leaf: path (\"ldata[].extra_block[]\"), offset with all indices 0, element size, array levels as",
         "   (count, stride) outermost first, kind, C type spelling *)",
         "Record leaf := mkleaf { l_path : string; l_off : N; l_esz : N; l_dims : list (N * N); l_kind : lkind; l_ctype : string }.",
         "Record rlayout := mklayout { r_name : string; r_size : N; r_align : N; r_leaves : list leaf }.", ""]
    kn = {"scalar": "KScalar", "ptr": "KPtr", "fnptr": "KFnPtr", "blob": "KBlob"}
    names = []
    for s, r in res.items():
        names.append("layout_" + s)
        L.append("Definition layout_%s : rlayout := mklayout %s %d %d [" % (s, coq_str(s), r["size"], r["align"]))
        rows = []
        for lf in r["leaves"]:
            dims = "; ".join("(%d, %d)" % (d, st) for d, st in zip(lf["dims"], lf["strides"]))
            rows.append("  mkleaf %s %d %d [%s] %s %s" % (coq_str(lf["path"]), lf["off"], lf["esz"], dims, kn[lf["kind"]], coq_str(lf["ctype"])))
        L.append(";\n".join(rows))
        L.append("].")
    L.append("")
    L.append("Definition all_layouts : list rlayout := [%s]." % "; ".join(names))
    L.append("Definition ooo_layouts : list rlayout := [%s]." % "; ".join(n for n in names if n.startswith("layout_MB_MGR_")))
    return "\n".join(L) + "\n"


def emit_h(res):
    L = ["/* GENERATED by translators/t8_layout.py — do not edit */", "#ifndef GEN_LAYOUT_H", "#define GEN_LAYOUT_H", "#include <stdint.h>",
         "enum { GL_SCALAR = 0, GL_PTR = 1, GL_FNPTR = 2, GL_BLOB = 3 };",
         "struct gl_leaf { const char *path; uint32_t off, esz; uint8_t kind, ndims; uint32_t dim[4], stride[4]; };",
         "struct gl_struct { const char *name; uint32_t size, align, nleaves; const struct gl_leaf *leaves; };"]
    for s, r in res.items():
        L.append("static const struct gl_leaf gl_leaves_%s[] = {" % s)
        for lf in r["leaves"]:
            if len(lf["dims"]) > 4:
                raise T8Error("more than 4 array levels")
            dims = lf["dims"] + [0] * (4 - len(lf["dims"]))
            strides = lf["strides"] + [0] * (4 - len(lf["strides"]))
            L.append('  { "%s", %d, %d, %d, %d, {%s}, {%s} },' % (lf["path"], lf["off"], lf["esz"], KIND_ID[lf["kind"]], len(lf["dims"]),
                                                               ",".join(map(str, dims)), ",".join(map(str, strides))))
        L.append("};")
    L.append("static const struct gl_struct gl_structs[] = {")
    for s, r in res.items():
        L.append('  { "%s", %d, %d, %d, gl_leaves_%s },' % (s, r["size"], r["align"], len(r["leaves"]), s))
    L.append("};")
    L.append("#define GL_NSTRUCTS %d" % len(res))
    L.append("#endif")
    return "\n".join(L) + "\n"


def write_if_changed(path, txt):
    os.makedirs(os.path.dirname(path), exist_ok=True)
    if not os.path.exists(path) or open(path).read() != txt:
        open(path, "w").write(txt)
        return True
    return False


def main():
    res = layout()
    write_if_changed(OUT_V, emit_v(res))
    write_if_changed(OUT_H, emit_h(res))
    json.dump(res, open(os.path.join(GEN, "gen_layout.json"), "w"), indent=1)
    return res


if __name__ == "__main__":
    try:
        r = main()
    except T8Error as e:
        print("T8 ERROR: %s" % e, file=sys.stderr)
        sys.exit(2)
    print("GenLayout.v: %d records, %d leaves, ptr leaves in OOO structs: %d" % (
        len(r), sum(len(x["leaves"]) for x in r.values()),
        sum(1 for s, x in r.items() if s.startswith("MB_MGR_") for l in x["leaves"] if l["kind"] == "ptr")))
