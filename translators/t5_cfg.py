#!/usr/bin/env python3
"""T5 -- frame-machine CFG translator for property C18.

  python3 t5_cfg.py --build /verif/.build/lib --out /verif/coq/Gen [--props /verif/coq/Props]

For every NASM-built object (*.asm.o) of the library build:
  * disassemble with `objdump -D -r -z -M intel --no-show-raw-insn -j <executable sections>`
    (-D because NASM types some local code labels as OBJECT), read symbols with `readelf -sW/-SW`,
  * build, for every function (global code symbol or call target), the exact static CFG by
    reachability from its entry (there are no indirect branches in the hand written objects; one
    found => abort; code shared by several entries is duplicated into each of them),
  * map every instruction to an abstract *frame instruction* (coq/X86/Frame.v) through the explicit
    mnemonic tables below (an unknown mnemonic or operand shape => abort, never guess),
  * run the abstract interpretation (same transfer function as coq/X86/FrameCheck.v, re-implemented
    here; this copy is NOT trusted: Coq re-validates the annotation it proposes),
  * infer per-function summaries in call-graph order (functions callable from C are validated
    against the System V summary, internal kernels against what they really preserve),
  * write, only when the content changed:
      Gen/GenCfg_<obj>.v              CFGs + certificates + `all_functions_<obj>`
      Gen/GenCfgAll.v                 `all_defs` = concatenation over all objects
      Gen/GenCfgIndex.json            objects, functions, instruction counts, C-reachability, summaries,
                                      A1 statistics, predicted failures (function / block / path / register)
      Props/Properties_C18_<obj>.v    `Theorem c18_<obj> : forallb fdef_ok all_functions_<obj> = true.`
      Props/Properties_C18_All.v      whole-library glue (c18_all_checked, c18_link, c18_calling_convention)
    and remove generated files of objects that no longer exist.

Exit status: 0 = translated (possibly with *predicted* failures, Coq is the arbiter), 2 = aborted.

Trusted parts of this file: objdump/readelf decoding, `decode()` (mnemonic -> frame effect), the
classification of pointer stores (assumption A1), straight-line block collapsing and the list of
C-reachable functions.  See coq/X86/C18_NOTES.md.
"""
import sys, os, re, json, subprocess, argparse, hashlib, time
from collections import OrderedDict, defaultdict
from concurrent.futures import ProcessPoolExecutor

# --------------------------------------------------------------------------------------
# registers
# --------------------------------------------------------------------------------------
GPR64 = ['rax', 'rcx', 'rdx', 'rbx', 'rsp', 'rbp', 'rsi', 'rdi',
         'r8', 'r9', 'r10', 'r11', 'r12', 'r13', 'r14', 'r15']
RSP = 4
CALLEE_SAVED = [3, 5, 12, 13, 14, 15]          # rbx rbp r12..r15
SYSV_MASK = sum(1 << r for r in CALLEE_SAVED)
GPR = {}   # name -> (index, width)
for i, n in enumerate(GPR64):
    GPR[n] = (i, 64)
for i, n in enumerate(['eax', 'ecx', 'edx', 'ebx', 'esp', 'ebp', 'esi', 'edi']):
    GPR[n] = (i, 32)
for i, n in enumerate(['ax', 'cx', 'dx', 'bx', 'sp', 'bp', 'si', 'di']):
    GPR[n] = (i, 16)
for i, n in enumerate(['al', 'cl', 'dl', 'bl', 'spl', 'bpl', 'sil', 'dil']):
    GPR[n] = (i, 8)
for i, n in enumerate(['ah', 'ch', 'dh', 'bh']):
    GPR[n] = (i, 8)
for i in range(8, 16):
    GPR['r%dd' % i] = (i, 32)
    GPR['r%dw' % i] = (i, 16)
    GPR['r%db' % i] = (i, 8)
SIMD_RE = re.compile(r'^(xmm|ymm|zmm)([0-9]|[12][0-9]|3[01])$')
KREG_RE = re.compile(r'^k[0-7]$')
MMX_RE = re.compile(r'^mm[0-7]$')

SIZES = {'BYTE': 1, 'WORD': 2, 'DWORD': 4, 'QWORD': 8, 'XMMWORD': 16, 'YMMWORD': 32, 'ZMMWORD': 64,
         'TBYTE': 10, 'FWORD': 6, 'OWORD': 16}


class T5Error(Exception):
    pass


# --------------------------------------------------------------------------------------
# operand parsing
# --------------------------------------------------------------------------------------
class Op:
    __slots__ = ('kind', 'reg', 'width', 'base', 'index', 'scale', 'disp', 'size', 'imm', 'target', 'text', 'rip', 'addr32', 'base2')
    # kind: 'gpr' | 'simd' | 'kreg' | 'mmx' | 'mem' | 'imm' | 'target'

    def __init__(self, kind, text):
        self.kind = kind
        self.text = text
        self.reg = self.width = self.base = self.index = self.imm = self.target = None
        self.scale = 1
        self.disp = 0
        self.size = None
        self.rip = False
        self.addr32 = False
        self.base2 = None

    def __repr__(self):
        return 'Op(%s:%s)' % (self.kind, self.text)


def split_ops(s):
    out, depth, cur = [], 0, ''
    for ch in s:
        if ch in '[{(':
            depth += 1
        elif ch in ']})':
            depth -= 1
        if ch == ',' and depth == 0:
            out.append(cur.strip())
            cur = ''
        else:
            cur += ch
    if cur.strip():
        out.append(cur.strip())
    return out


DECOR_RE = re.compile(r'\{(k[0-7]|z|1to(2|4|8|16|32)|rn-sae|rd-sae|ru-sae|rz-sae|sae)\}')
MEM_RE = re.compile(r'^(?:(BYTE|WORD|DWORD|QWORD|XMMWORD|YMMWORD|ZMMWORD|TBYTE|FWORD|OWORD) PTR )?(?:(es|ds|cs|ss|fs|gs):)?\[(.*)\]$')
BCST_SIZE_RE = re.compile(r'^(BYTE|WORD|DWORD|QWORD) BCST ')


def parse_operand(t):
    raw = t
    t = DECOR_RE.sub('', t).strip()
    if t in GPR:
        o = Op('gpr', raw)
        o.reg, o.width = GPR[t]
        return o
    if SIMD_RE.match(t):
        return Op('simd', raw)
    if KREG_RE.match(t):
        return Op('kreg', raw)
    if MMX_RE.match(t):
        return Op('mmx', raw)
    t2 = BCST_SIZE_RE.sub(lambda m: m.group(1) + ' PTR ', t)
    m = MEM_RE.match(t2)
    if m:
        o = Op('mem', raw)
        o.size = SIZES[m.group(1)] if m.group(1) else None
        if m.group(2) in ('fs', 'gs'):
            raise T5Error('segment-relative memory operand: ' + raw)
        body = m.group(3).replace(' ', '')
        # tokenise on +/-
        toks = re.findall(r'[+-]?[^+-]+', body)
        for tk in toks:
            sign = 1
            if tk[0] == '+':
                tk = tk[1:]
            elif tk[0] == '-':
                sign = -1
                tk = tk[1:]
            if '*' in tk:
                r, sc = tk.split('*')
                if r not in GPR or GPR[r][1] != 64:
                    if SIMD_RE.match(r):     # vector index (gather/scatter)
                        o.index = -1
                        continue
                    raise T5Error('bad index in ' + raw)
                if sign < 0:
                    raise T5Error('negative index in ' + raw)
                o.index = GPR[r][0]
                o.scale = int(sc, 0)
            elif tk in GPR and GPR[tk][1] == 32 and sign > 0 and GPR[tk][0] != RSP:
                # addr32 form ([r8d+0xf]): a 32-bit address computation, never rsp-relative; treat as
                # an untracked index so that the access is classified as "through an unresolved pointer"
                if o.index is None:
                    o.index = GPR[tk][0]
                else:
                    o.base2 = GPR[tk][0]
                o.addr32 = True
            elif tk in GPR:
                if GPR[tk][1] != 64 or sign < 0:
                    raise T5Error('non 64-bit address register in ' + raw)
                if o.base is None:
                    o.base = GPR[tk][0]
                elif o.index is None:
                    o.index = GPR[tk][0]
                    o.scale = 1
                else:
                    raise T5Error('too many registers in ' + raw)
            elif tk == 'rip':
                o.rip = True
            elif SIMD_RE.match(tk):
                o.index = -1
            else:
                try:
                    o.disp += sign * int(tk, 0)
                except ValueError:
                    raise T5Error('cannot parse address term %r in %r' % (tk, raw))
        return o
    m = re.match(r'^([0-9a-f]+) <(.*)>$', t)
    if m:
        o = Op('target', raw)
        o.target = int(m.group(1), 16)
        return o
    try:
        v = int(t, 0)
        if v >= 1 << 63:
            v -= 1 << 64
        o = Op('imm', raw)
        o.imm = v
        return o
    except ValueError:
        pass
    raise T5Error('cannot parse operand %r' % raw)


# --------------------------------------------------------------------------------------
# mnemonic tables (explicit: anything not listed aborts the translation)
# --------------------------------------------------------------------------------------
def W(s):
    return set(s.split())


# conditional jumps
JCC = W('ja jae jb jbe jc je jg jge jl jle jna jnae jnb jnbe jnc jne jng jnge jnl jnle jno jnp jns jnz jo jp jpe jpo js jz')

# instructions that write no GPR and no memory through their explicit operands (flags / nothing)
READ_ONLY = W('''cmp test bt ptest vptest comiss comisd ucomiss ucomisd vcomiss vcomisd vucomiss vucomisd
 ktestb ktestw ktestd ktestq kortestb kortestw kortestd kortestq
 nop endbr64 sfence lfence mfence pause vzeroupper vzeroall emms
 prefetcht0 prefetcht1 prefetcht2 prefetchnta prefetchw clflush clflushopt''')

# general purpose instructions whose ONLY register/memory write is explicit operand 0 (plus flags)
GP_W0 = W('''mov movzx movsx movsxd movabs movbe lea add sub adc sbb and or xor not neg inc dec
 shl shr sar sal rol ror rcl rcr shld shrd imul bsf bsr popcnt lzcnt tzcnt bswap
 bts btr btc andn bextr bzhi blsi blsr blsmsk pext pdep rorx sarx shlx shrx crc32 adcx adox
 cmova cmovae cmovb cmovbe cmovc cmove cmovg cmovge cmovl cmovle cmovna cmovnae cmovnb cmovnbe cmovnc
 cmovne cmovng cmovnge cmovnl cmovnle cmovno cmovnp cmovns cmovnz cmovo cmovp cmovpe cmovpo cmovs cmovz
 seta setae setb setbe setc sete setg setge setl setle setna setnae setnb setnbe setnc setne setng setnge
 setnl setnle setno setnp setns setnz seto setp setpe setpo sets setz''')

# SIMD / mask instructions whose ONLY GPR/memory write is explicit operand 0
# (operand 0 may be a vector/mask register -> no frame effect, a GPR -> clobber, or memory -> store)
SIMD_W0 = W('''
 movd movq movdqa movdqu movaps movapd movups movupd movss movsd movlps movhps movlpd movhpd movlhps movhlps
 movntdq movntdqa movntps movntpd movnti lddqu movddup movshdup movsldup movmskps movmskpd pmovmskb
 vmovd vmovq vmovdqa vmovdqu vmovdqa32 vmovdqa64 vmovdqu8 vmovdqu16 vmovdqu32 vmovdqu64 vmovaps vmovapd vmovups vmovupd
 vmovss vmovsd vmovlps vmovhps vmovlpd vmovhpd vmovlhps vmovhlps vmovntdq vmovntdqa vmovntps vmovntpd vlddqu
 vmovddup vmovshdup vmovsldup vmovmskps vmovmskpd vpmovmskb
 pextrb pextrw pextrd pextrq extractps vpextrb vpextrw vpextrd vpextrq vextractps
 pinsrb pinsrw pinsrd pinsrq insertps vpinsrb vpinsrw vpinsrd vpinsrq vinsertps
 kmovb kmovw kmovd kmovq kandb kandw kandd kandq kandnb kandnw kandnd kandnq korb korw kord korq
 kxorb kxorw kxord kxorq kxnorb kxnorw kxnord kxnorq knotb knotw knotd knotq
 kshiftlb kshiftlw kshiftld kshiftlq kshiftrb kshiftrw kshiftrd kshiftrq kaddb kaddw kaddd kaddq
 kunpckbw kunpckwd kunpckdq
 pxor por pand pandn xorps xorpd orps orpd andps andpd andnps andnpd
 vpxor vpor vpand vpandn vpxord vpxorq vpord vporq vpandd vpandq vpandnd vpandnq vxorps vxorpd vorps vorpd vandps vandpd vandnps vandnpd
 vpternlogd vpternlogq
 paddb paddw paddd paddq psubb psubw psubd psubq paddusb paddusw psubusb psubusw paddsb paddsw psubsb psubsw
 vpaddb vpaddw vpaddd vpaddq vpsubb vpsubw vpsubd vpsubq vpaddusb vpaddusw vpsubusb vpsubusw vpaddsb vpaddsw vpsubsb vpsubsw
 pmuludq pmuldq pmulld pmullw pmulhw pmulhuw pmaddwd pmaddubsw vpmuludq vpmuldq vpmulld vpmullw vpmulhw vpmulhuw vpmaddwd vpmaddubsw vpmullq
 vpmadd52luq vpmadd52huq
 psllw pslld psllq psrlw psrld psrlq psraw psrad pslldq psrldq
 vpsllw vpslld vpsllq vpsrlw vpsrld vpsrlq vpsraw vpsrad vpsraq vpslldq vpsrldq vpsllvd vpsllvq vpsrlvd vpsrlvq vpsravd vpsllvw vpsrlvw
 vprold vprolq vprord vprorq vprolvd vprolvq vprorvd vprorvq vpshldd vpshldq vpshrdd vpshrdq vpshldw vpshrdw vpshldvd vpshldvq vpshrdvd vpshrdvq
 pshufb pshufd pshufhw pshuflw shufps shufpd palignr punpcklbw punpcklwd punpckldq punpcklqdq punpckhbw punpckhwd punpckhdq punpckhqdq
 unpcklps unpcklpd unpckhps unpckhpd packsswb packssdw packuswb packusdw
 vpshufb vpshufd vpshufhw vpshuflw vshufps vshufpd vpalignr valignd valignq vpunpcklbw vpunpcklwd vpunpckldq vpunpcklqdq
 vpunpckhbw vpunpckhwd vpunpckhdq vpunpckhqdq vunpcklps vunpcklpd vunpckhps vunpckhpd vpacksswb vpackssdw vpackuswb vpackusdw
 vshufi32x4 vshufi64x2 vshuff32x4 vshuff64x2
 vperm2i128 vperm2f128 vpermq vpermd vpermw vpermb vpermps vpermpd vpermilps vpermilpd
 vpermi2b vpermi2w vpermi2d vpermi2q vpermi2ps vpermi2pd vpermt2b vpermt2w vpermt2d vpermt2q vpermt2ps vpermt2pd
 vinserti128 vinsertf128 vinserti32x4 vinserti64x2 vinserti32x8 vinserti64x4 vinsertf32x4 vinsertf64x2 vinsertf32x8 vinsertf64x4
 vextracti128 vextractf128 vextracti32x4 vextracti64x2 vextracti32x8 vextracti64x4 vextractf32x4 vextractf64x2 vextractf32x8 vextractf64x4
 vbroadcastss vbroadcastsd vbroadcastf128 vbroadcasti128 vbroadcastf32x4 vbroadcastf64x2 vbroadcasti32x4 vbroadcasti64x2
 vbroadcastf32x8 vbroadcastf64x4 vbroadcasti32x8 vbroadcasti64x4 vbroadcasti32x2 vbroadcastf32x2
 vpbroadcastb vpbroadcastw vpbroadcastd vpbroadcastq vpbroadcastmb2q vpbroadcastmw2d
 pblendw pblendvb blendps blendpd blendvps blendvpd vpblendw vpblendvb vpblendd vblendps vblendpd vblendvps vblendvpd
 vpblendmb vpblendmw vpblendmd vpblendmq vblendmps vblendmpd
 pcmpeqb pcmpeqw pcmpeqd pcmpeqq pcmpgtb pcmpgtw pcmpgtd pcmpgtq vpcmpeqb vpcmpeqw vpcmpeqd vpcmpeqq vpcmpgtb vpcmpgtw vpcmpgtd vpcmpgtq
 vpcmpb vpcmpw vpcmpd vpcmpq vpcmpub vpcmpuw vpcmpud vpcmpuq
 vpcmpltb vpcmpltw vpcmpltd vpcmpltq vpcmpleb vpcmplew vpcmpled vpcmpleq vpcmpneqb vpcmpneqw vpcmpneqd vpcmpneqq
 vpcmpnltb vpcmpnltw vpcmpnltd vpcmpnltq vpcmpnleb vpcmpnlew vpcmpnled vpcmpnleq
 vpcmpltub vpcmpltuw vpcmpltud vpcmpltuq vpcmpleub vpcmpleuw vpcmpleud vpcmpleuq vpcmpnequb vpcmpnequw vpcmpnequd vpcmpnequq
 vpcmpnltub vpcmpnltuw vpcmpnltud vpcmpnltuq vpcmpnleub vpcmpnleuw vpcmpnleud vpcmpnleuq
 vptestmb vptestmw vptestmd vptestmq vptestnmb vptestnmw vptestnmd vptestnmq
 vpmovb2m vpmovw2m vpmovd2m vpmovq2m vpmovm2b vpmovm2w vpmovm2d vpmovm2q
 pminub pminuw pminud pminsb pminsw pminsd pmaxub pmaxuw pmaxud pmaxsb pmaxsw pmaxsd phminposuw
 vpminub vpminuw vpminud vpminuq vpminsb vpminsw vpminsd vpminsq vpmaxub vpmaxuw vpmaxud vpmaxuq vpmaxsb vpmaxsw vpmaxsd vpmaxsq vphminposuw
 pabsb pabsw pabsd psignb psignw psignd pavgb pavgw psadbw vpabsb vpabsw vpabsd vpabsq vpsignb vpsignw vpsignd vpavgb vpavgw vpsadbw
 phaddw phaddd phsubw phsubd vphaddw vphaddd vphsubw vphsubd
 pmovzxbw pmovzxbd pmovzxbq pmovzxwd pmovzxwq pmovzxdq pmovsxbw pmovsxbd pmovsxbq pmovsxwd pmovsxwq pmovsxdq
 vpmovzxbw vpmovzxbd vpmovzxbq vpmovzxwd vpmovzxwq vpmovzxdq vpmovsxbw vpmovsxbd vpmovsxbq vpmovsxwd vpmovsxwq vpmovsxdq
 vpmovqb vpmovqw vpmovqd vpmovdb vpmovdw vpmovwb vpmovusqb vpmovusqw vpmovusqd vpmovusdb vpmovusdw vpmovuswb
 aesenc aesenclast aesdec aesdeclast aesimc aeskeygenassist vaesenc vaesenclast vaesdec vaesdeclast vaesimc vaeskeygenassist
 pclmulqdq pclmullqlqdq pclmulhqlqdq pclmullqhqdq pclmulhqhqdq vpclmulqdq vpclmullqlqdq vpclmulhqlqdq vpclmullqhqdq vpclmulhqhqdq
 sha1rnds4 sha1nexte sha1msg1 sha1msg2 sha256rnds2 sha256msg1 sha256msg2
 vsha512rnds2 vsha512msg1 vsha512msg2 vsm3msg1 vsm3msg2 vsm3rnds2 vsm4key4 vsm4rnds4
 gf2p8affineqb gf2p8affineinvqb gf2p8mulb vgf2p8affineqb vgf2p8affineinvqb vgf2p8mulb
 vpshufbitqmb vpopcntb vpopcntw vpopcntd vpopcntq vplzcntd vplzcntq vpconflictd vpconflictq vpmultishiftqb
 vpcompressb vpcompressw vpcompressd vpcompressq vpexpandb vpexpandw vpexpandd vpexpandq vcompressps vcompresspd vexpandps vexpandpd
 vpmaskmovd vpmaskmovq vmaskmovps vmaskmovpd
 addps addpd addss addsd subps subpd mulps mulpd divps divpd sqrtps sqrtpd minps maxps vaddps vaddpd vsubps vsubpd vmulps vmulpd
 cvtsi2sd cvtsi2ss vcvtsi2sd vcvtsi2ss cvtdq2ps cvtps2dq cvttps2dq vcvtdq2ps vcvtps2dq vcvttps2dq
 cvtsd2si cvtss2si cvttsd2si cvttss2si vcvtsd2si vcvtss2si vcvttsd2si vcvttss2si
 vpdpbusd vpdpbusds vpdpwssd vpdpwssds vprotb vpdpbusd
''')

# two explicit destinations
XCHG_LIKE = W('xchg xadd')
# arithmetic that can turn a pointer into another pointer into the same area (A1 statistics only)
FLOW_OPS = W('add sub adc sbb and or xor inc dec neg not')
# implicit GPR writers: mnemonic -> (list of implicitly written GPR indices, explicit operand 0 also written?)
IMPLICIT = {
    'mul': ([0, 2], False), 'div': ([0, 2], False), 'idiv': ([0, 2], False), 'imul1': ([0, 2], False),
    'mulx': ([], True),      # handled specially (two explicit destinations)
    'cpuid': ([0, 1, 2, 3], False), 'xgetbv': ([0, 2], False), 'rdtsc': ([0, 2], False), 'rdtscp': ([0, 1, 2], False),
    'cmpxchg': ([0], True), 'cbw': ([0], False), 'cwde': ([0], False), 'cdqe': ([0], False),
    'cwd': ([2], False), 'cdq': ([2], False), 'cqo': ([2], False), 'lahf': ([0], False), 'sahf': ([], False),
    'pcmpestri': ([1], False), 'pcmpistri': ([1], False), 'vpcmpestri': ([1], False), 'vpcmpistri': ([1], False),
    'pcmpestrm': ([], False), 'pcmpistrm': ([], False),
    'rdrand': ([], True), 'rdseed': ([], True), 'xlat': ([0], False), 'xlatb': ([0], False),
}
MXCSR_WRITERS = W('ldmxcsr vldmxcsr fxrstor fxrstor64 xrstor xrstor64 xrstors xrstors64 fninit finit fldcw')
MXCSR_READERS_MEM = W('stmxcsr vstmxcsr fxsave fxsave64 xsave xsave64 xsaveopt xsaveopt64 xsavec xsavec64 fnstcw fstcw')
PREFIXES = W('rep repz repe repnz repne lock notrack bnd data16 {vex} {vex3} {evex} {disp8} {disp32} {load} {store}')
STRING_OPS = W('movs stos lods scas cmps')   # objdump -M intel spells the string instructions this way
FORBIDDEN = W('syscall sysenter int int3 into iret iretq hlt ud2 ud1 ud0 enter loop loope loopne loopz loopnz jrcxz jecxz jcxz '
              'wrfsbase wrgsbase swapgs xbegin xend xabort retf lret ljmp lcall')

ALL_KNOWN = (JCC | READ_ONLY | GP_W0 | SIMD_W0 | XCHG_LIKE | set(IMPLICIT) | MXCSR_WRITERS | MXCSR_READERS_MEM |
             STRING_OPS | W('push pop pushf pushfq popf popfq cld std call jmp ret leave'))

# --------------------------------------------------------------------------------------
# frame instructions (mirror coq/X86/Frame.v)
# --------------------------------------------------------------------------------------
#   ('clob', mask)                       IClob mask
#   ('mov', d, s)                        IMov d s
#   ('lea', d, b, k)                     ILea d b k
#   ('andsp',)                           IAndSp
#   ('push', src)  src: reg | 'any' | 'flags'
#   ('pop', dst)   dst: reg | 'any' | 'flags'
#   ('store', b, k, n, src)              IStore b k n (Some src | None)      (b resolved to a stack address)
#   ('load', d, b, k)                    ILoad d b k
#   ('setdf', b)                         ISetDF b
#   ('wrmx',)                            IWriteMx
#   ('call', name)                       ICall name
# pseudo (never emitted to Coq):
#   ('storex', b, idx, k, n, tainting)   store through an unresolved pointer (A1) -> nop
#   ('loadx', d, b, k, width)            load through pointer; resolved later to load or clob
#   ('nop',)
# terminators: ('jmp', addr) ('jcc', addr_taken, addr_fall) ('ret',) ('fall', addr)


REX_RE = re.compile(r'^rex(\.[WRXB]+)?$')    # objdump prints a redundant REX byte as a pseudo prefix


class Insn:
    __slots__ = ('addr', 'mnem', 'prefixes', 'ops', 'text', 'reloc', 'next', '_opstr')

    def __init__(self, addr, text):
        self.addr = addr
        self.text = text
        self.reloc = None
        self.next = None
        toks = text.split(None, 1)
        self.prefixes = []
        while toks and (toks[0] in PREFIXES or REX_RE.match(toks[0])):
            self.prefixes.append(toks[0])
            rest = toks[1] if len(toks) > 1 else ''
            toks = rest.split(None, 1)
        if not toks:
            raise T5Error('prefix without instruction: %r' % text)
        self.mnem = toks[0]
        self.ops = None
        self._opstr = toks[1] if len(toks) > 1 else ''

    def parse_ops(self):
        if self.ops is None:
            s = self._opstr.split('#')[0].strip()
            self.ops = [parse_operand(t) for t in split_ops(s)] if s else []
        return self.ops


def mask_of(regs):
    m = 0
    for r in regs:
        m |= 1 << r
    return m


def decode(ins):
    """Insn -> (list of frame pseudo-instructions, terminator or None).  Raises T5Error on anything unknown."""
    mn = ins.mnem
    pfx = ins.prefixes
    if mn in FORBIDDEN:
        raise T5Error('forbidden instruction %r' % ins.text)
    if mn not in ALL_KNOWN:
        raise T5Error('unknown mnemonic %r in %r' % (mn, ins.text))
    ops = ins.parse_ops()
    # ---- control flow
    if mn == 'ret':
        if ops:
            raise T5Error('ret imm not supported: ' + ins.text)
        return [], ('ret',)
    if mn == 'jmp' or mn in JCC or mn == 'call':
        if len(ops) != 1 or ops[0].kind != 'target':
            raise T5Error('indirect or malformed branch %r' % ins.text)
        if mn == 'jmp':
            return [], ('jmp', ops[0].target)
        if mn == 'call':
            return [('call', ops[0].target)], None
        return [], ('jcc', ops[0].target)
    # ---- flags / mxcsr
    if mn == 'cld':
        return [('setdf', False)], None
    if mn == 'std':
        return [('setdf', True)], None
    if mn in MXCSR_WRITERS:
        return [('wrmx',)], None
    if mn in MXCSR_READERS_MEM:
        if len(ops) != 1 or ops[0].kind != 'mem':
            raise T5Error('bad operand: ' + ins.text)
        sz = {'stmxcsr': 4, 'vstmxcsr': 4, 'fnstcw': 2, 'fstcw': 2}.get(mn, 4096)
        return [mem_store(ops[0], sz, None, ins)], None
    # ---- stack
    if mn in ('pushf', 'pushfq'):
        return [('push', 'flags')], None
    if mn in ('popf', 'popfq'):
        return [('pop', 'flags')], None
    if mn == 'push':
        o = ops[0]
        if o.kind == 'gpr' and o.width == 64:
            if o.reg == RSP:
                raise T5Error('push rsp not supported')
            return [('push', o.reg)], None
        if o.kind == 'imm':
            return [('push', 'any')], None
        if o.kind == 'mem' and (o.size in (8, None)):
            return [('push', 'any')], None
        raise T5Error('unsupported push: ' + ins.text)
    if mn == 'pop':
        o = ops[0]
        if o.kind == 'gpr' and o.width == 64:
            if o.reg == RSP:
                raise T5Error('pop rsp not supported')
            return [('pop', o.reg)], None
        raise T5Error('unsupported pop: ' + ins.text)
    if mn == 'leave':
        return [('mov', RSP, 5), ('pop', 5)], None
    # ---- string operations
    if mn in STRING_OPS:
        rep = any(p.startswith('rep') for p in pfx)
        regs = {'movs': [6, 7], 'stos': [7], 'lods': [0, 6], 'scas': [7], 'cmps': [6, 7]}[mn]
        if rep:
            regs = regs + [1]
        out = [('clob', mask_of(regs))]
        if mn in ('movs', 'stos'):
            out.insert(0, ('storex', 7, None, 0, None))
        return out, None
    if any(p.startswith('rep') for p in pfx):
        raise T5Error('rep prefix on non-string instruction: ' + ins.text)
    # ---- read-only
    if mn in READ_ONLY:
        for o in ops:
            if o.kind == 'target':
                raise T5Error('unexpected branch operand: ' + ins.text)
        return [], None
    # ---- xchg / xadd
    if mn in XCHG_LIKE:
        out = []
        regs = []
        for o in ops:
            if o.kind == 'gpr':
                regs.append(o.reg)
            elif o.kind == 'mem':
                out.append(mem_store(o, o.size or 8, None, ins))
            else:
                raise T5Error('bad operand: ' + ins.text)
        if RSP in regs:
            raise T5Error('xchg with rsp: ' + ins.text)
        # xchg ax,ax with data16 prefixes is a nop; xchg r,r of the same register too
        if len(regs) == 2 and regs[0] == regs[1] and mn == 'xchg' and ops[0].text == ops[1].text:
            return [], None
        out.append(('clob', mask_of(regs), mask_of(regs)))
        return out, None
    # ---- implicit writers
    if mn == 'mulx':
        regs = []
        for o in ops[:2]:
            if o.kind != 'gpr':
                raise T5Error('bad mulx: ' + ins.text)
            regs.append(o.reg)
        if RSP in regs:
            raise T5Error('rsp written: ' + ins.text)
        return [('clob', mask_of(regs))], None
    key = mn
    if mn == 'imul' and len(ops) == 1:
        key = 'imul1'
    if key in IMPLICIT:
        regs, w0 = IMPLICIT[key]
        regs = list(regs)
        out = []
        if w0:
            o = ops[0]
            if o.kind == 'gpr':
                regs.append(o.reg)
            elif o.kind == 'mem':
                out.append(mem_store(o, o.size or 8, None, ins))
            else:
                raise T5Error('bad operand: ' + ins.text)
        if RSP in regs:
            raise T5Error('rsp written: ' + ins.text)
        out.append(('clob', mask_of(regs)))
        return out, None
    # ---- explicit destination = operand 0
    if mn in GP_W0 or mn in SIMD_W0:
        if not ops:
            raise T5Error('missing operands: ' + ins.text)
        for o in ops:
            if o.kind == 'target':
                raise T5Error('unexpected branch operand: ' + ins.text)
        d = ops[0]
        if d.kind in ('simd', 'kreg', 'mmx'):
            if mn in GP_W0:
                raise T5Error('vector destination on GP instruction: ' + ins.text)
            return [], None
        if d.kind == 'imm':
            raise T5Error('immediate destination: ' + ins.text)
        if d.kind == 'mem':
            if mn == 'lea':
                raise T5Error('lea with memory destination: ' + ins.text)
            sz = d.size
            if sz is None:
                # size given by the source operand
                src = ops[1] if len(ops) > 1 else None
                if src is not None and src.kind == 'gpr':
                    sz = src.width // 8
                elif src is not None and src.kind == 'simd':
                    sz = {'x': 16, 'y': 32, 'z': 64}[src.text.strip()[0]]
                else:
                    raise T5Error('store of unknown size: ' + ins.text)
            srcreg = None
            if mn == 'mov' and len(ops) == 2 and ops[1].kind == 'gpr' and ops[1].width == 64 and sz == 8:
                srcreg = ops[1].reg
            return [mem_store(d, sz, srcreg, ins)], None
        # GPR destination
        if d.kind != 'gpr':
            raise T5Error('bad destination: ' + ins.text)
        r = d.reg
        if r == RSP:
            return decode_rsp_write(ins, mn, ops), None
        if mn == 'mov' and d.width == 64 and len(ops) == 2:
            s = ops[1]
            if s.kind == 'gpr' and s.width == 64:
                return [('mov', r, s.reg)], None
            if s.kind == 'mem' and (s.size in (8, None)) and s.index is None and not s.rip and s.base is not None:
                return [('loadx', r, s.base, s.disp)], None
            return [('clob', 1 << r)], None
        if mn == 'lea' and d.width == 64:
            s = ops[1]
            if s.kind != 'mem':
                raise T5Error('bad lea: ' + ins.text)
            if s.base is not None and s.index is None and not s.rip:
                return [('lea', r, s.base, s.disp)], None
            return [('clob', 1 << r, mask_of([x for x in (s.base, s.index) if x is not None and x >= 0 and not s.addr32]))], None
        if mn in ('add', 'sub') and d.width == 64 and len(ops) == 2 and ops[1].kind == 'imm':
            k = ops[1].imm if mn == 'add' else -ops[1].imm
            return [('lea', r, r, k)], None
        if d.width == 64 and (mn in FLOW_OPS or mn.startswith('cmov')):
            # third component (not part of the frame instruction): registers whose "may point into the own
            # frame" attribute flows into the destination; only used for the A1 statistics
            return [('clob', 1 << r, mask_of([o.reg for o in ops if o.kind == 'gpr' and o.width == 64]))], None
        return [('clob', 1 << r)], None
    raise T5Error('internal: unhandled mnemonic %r' % mn)


def decode_rsp_write(ins, mn, ops):
    d = ops[0]
    if d.width != 64:
        raise T5Error('partial write of rsp: ' + ins.text)
    if mn in ('add', 'sub') and len(ops) == 2 and ops[1].kind == 'imm':
        k = ops[1].imm if mn == 'add' else -ops[1].imm
        return [('lea', RSP, RSP, k)]
    if mn == 'and' and len(ops) == 2 and ops[1].kind == 'imm':
        v = ops[1].imm & 0xFFFFFFFFFFFFFFFF
        # must be a mask of the form ~(2^n - 1): clears low bits only => new rsp <= old rsp
        low = (~v) & 0xFFFFFFFFFFFFFFFF
        if low & (low + 1) != 0 or low > 0xFFFF:
            raise T5Error('and rsp with a mask that is not -2^n: ' + ins.text)
        return [('andsp',)]
    if mn == 'mov' and len(ops) == 2:
        s = ops[1]
        if s.kind == 'gpr' and s.width == 64:
            return [('mov', RSP, s.reg)]
        if s.kind == 'mem' and s.size in (8, None) and s.index is None and not s.rip and s.base is not None:
            return [('loadx', RSP, s.base, s.disp)]
    if mn == 'lea' and len(ops) == 2 and ops[1].kind == 'mem':
        s = ops[1]
        if s.base is not None and s.index is None and not s.rip:
            return [('lea', RSP, s.base, s.disp)]
    raise T5Error('unsupported write to rsp: ' + ins.text)


def mem_store(o, size, srcreg, ins):
    """A store to memory operand o of `size` bytes (upper bound for masked stores)."""
    if o.rip:
        return ('nop',)                       # store to a global: not stack memory
    if o.base is None and o.index is None:
        return ('nop',)                       # absolute address
    if o.index is not None or o.base is None:
        return ('storex', o.base, o.index, o.disp, size)
    return ('storeb', o.base, o.disp, size, srcreg)


# --------------------------------------------------------------------------------------
# object parsing
# --------------------------------------------------------------------------------------
LINE_RE = re.compile(r'^\s*([0-9a-f]+):\t(.*\S)\s*$')
SYM_RE = re.compile(r'^([0-9a-f]+) <(.*)>:$')
RELOC_RE = re.compile(r'^\s+([0-9a-f]+): (R_X86_64_\w+)\s+(\S+)$')
SEC_RE = re.compile(r'^Disassembly of section (\S+):$')


class Obj:
    def __init__(self, path, name):
        self.path = path
        self.name = name          # e.g. sse_t1/aes128_cbc_enc_x4_sse  (dir/basename without .asm.o)
        self.ident = re.sub(r'[^A-Za-z0-9_]', '_', name)
        self.insns = {}           # (sec, addr) -> Insn
        self.syms = []            # dicts: name, sec, addr, type, bind
        self.code_secs = set()


def sh(cmd):
    p = subprocess.run(cmd, stdout=subprocess.PIPE, stderr=subprocess.PIPE, text=True, errors='replace')
    if p.returncode != 0:
        raise T5Error('command failed: %s\n%s' % (' '.join(cmd), p.stderr[-2000:]))
    return p.stdout


def read_symbols(path):
    """readelf -sW / -SW -> (sections {idx: (name, flags)}, symbols)"""
    secs = {}
    out = sh(['readelf', '-SW', path])
    for line in out.splitlines():
        m = re.match(r'^\s*\[\s*(\d+)\]\s+(\S+)\s+(\S+)\s+[0-9a-f]+\s+[0-9a-f]+\s+[0-9a-f]+\s+[0-9a-f]+\s+(\S*)\s', line)
        if m:
            flags = m.group(4) if not m.group(4).isdigit() else ''
            secs[int(m.group(1))] = (m.group(2), flags)
    syms = []
    out = sh(['readelf', '-sW', path])
    for line in out.splitlines():
        m = re.match(r'^\s*\d+:\s+([0-9a-f]+)\s+(\d+)\s+(\w+)\s+(\w+)\s+(\w+)\s+(\S+)\s*(.*)$', line)
        if not m:
            continue
        val, size, typ, bind, vis, ndx, name = m.groups()
        syms.append({'name': name.strip(), 'addr': int(val, 16), 'type': typ, 'bind': bind, 'ndx': ndx, 'vis': vis})
    return secs, syms


def parse_object(path, name):
    ob = Obj(path, name)
    secs, syms = read_symbols(path)
    exec_secs = {nm for (nm, fl) in secs.values() if 'X' in fl}
    ob.code_secs = exec_secs
    for s in syms:
        if s['ndx'].isdigit() and int(s['ndx']) in secs:
            s['sec'] = secs[int(s['ndx'])][0]
        else:
            s['sec'] = None
    ob.syms = syms
    data_addrs = set()
    # -D (restricted to the executable sections) rather than -d: NASM types some local code labels
    # as OBJECT and `objdump -d` would dump the bytes after such a label as data.
    cmd = ['objdump', '-D', '-r', '-z', '-M', 'intel', '--no-show-raw-insn']
    for sn in sorted(exec_secs):
        cmd += ['-j', sn]
    out = sh(cmd + [path]) if exec_secs else ''
    sec = None
    last = None
    in_data = False
    order = []
    for line in out.splitlines():
        if not line:
            continue
        m = LINE_RE.match(line)
        if m and sec is not None:
            addr = int(m.group(1), 16)
            if (sec, addr) in data_addrs:
                in_data = True
            if in_data:
                last = None
                continue
            try:
                ins = Insn(addr, m.group(2))
            except T5Error:
                ins = Insn(addr, '(bad)')
            ob.insns[(sec, addr)] = ins
            order.append((sec, addr))
            last = ins
            continue
        m = RELOC_RE.match(line)
        if m:
            if last is not None:
                last.reloc = (m.group(2), m.group(3))
            continue
        m = SYM_RE.match(line)
        if m:
            in_data = (sec, int(m.group(1), 16)) in data_addrs
            continue
        m = SEC_RE.match(line)
        if m:
            sec = m.group(1)
            last = None
            continue
    for i in range(len(order) - 1):
        if order[i][0] == order[i + 1][0]:
            ob.insns[order[i]].next = order[i + 1][1]
    return ob


def reloc_symbol(rel):
    """'sym-0x4' -> (sym, addend)"""
    s = rel[1]
    m = re.match(r'^(.*?)([+-]0x[0-9a-f]+)?$', s)
    sym = m.group(1)
    add = int(m.group(2), 16) if m.group(2) else 0
    return sym, add


# --------------------------------------------------------------------------------------
# CFG construction
# --------------------------------------------------------------------------------------
class Block:
    __slots__ = ('addr', 'id', 'pseudo', 'term', 'insn_addrs', 'n_insns', 'final')

    def __init__(self, addr):
        self.addr = addr
        self.id = None
        self.pseudo = []      # list of (pseudo-instruction, insn address)
        self.term = None
        self.n_insns = 0
        self.final = None     # resolved + collapsed frame instructions


class Func:
    def __init__(self, obj, sec, addr, name, is_global):
        self.obj = obj
        self.sec = sec
        self.addr = addr
        self.name = name            # unique name (global symbol, or sym@obj for locals)
        self.is_global = is_global
        self.blocks = OrderedDict()  # addr -> Block
        self.calls = set()           # callee unique names
        self.n_insns = 0
        self.summary = None          # (pres_mask, mx)
        self.required = None         # summary it must satisfy (C-reachable => SYSV)
        self.c_reachable = False
        self.ann = None
        self.fail = None
        self.a1 = {}                 # statistics on A1 reliance
        self.flow_targets = set()    # addresses reached by a jump or by falling through (not by call)
        self.entry_is_flow_target = False


def is_code_sym(s, ob):
    return s['sec'] in ob.code_secs and s['type'] in ('FUNC', 'NOTYPE') and s['name'] and not s['name'].startswith('.L_dummy')


def build_functions(ob):
    """Returns list of Func for this object. Function entries: global code symbols + call targets."""
    insns = ob.insns
    # symbol lookup by address (prefer global names)
    by_addr = defaultdict(list)
    for s in ob.syms:
        if is_code_sym(s, ob) and (s['sec'], s['addr']) in insns:
            by_addr[(s['sec'], s['addr'])].append(s)
    globals_by_name = {s['name']: s for s in ob.syms if s['bind'] in ('GLOBAL', 'WEAK') and s['sec'] is not None}
    for s in ob.syms:
        if s['bind'] in ('GLOBAL', 'WEAK') and s['sec'] in ob.code_secs and s['type'] not in ('FUNC', 'NOTYPE'):
            raise T5Error('%s: global symbol %s of type %s in executable section %s: cannot tell code from data'
                          % (ob.name, s['name'], s['type'], s['sec']))
    entries = OrderedDict()   # (sec, addr) -> (name, is_global)
    for key, lst in sorted(by_addr.items()):
        gl = [s for s in lst if s['bind'] in ('GLOBAL', 'WEAK')]
        if gl:
            # several global aliases at one address: one function per alias (identical bodies)
            for s in gl:
                entries.setdefault((key, s['name']), (s['name'], True))
    # resolve calls (need decode for every *reachable* instruction only; do a global pass over call insns)
    local_name = {}

    def name_of_local(sec, addr):
        k = (sec, addr)
        if k not in local_name:
            cands = [s['name'] for s in by_addr.get(k, [])]
            base = cands[0] if cands else 'loc_%x' % addr
            local_name[k] = '%s@%s' % (base, ob.name)
        return local_name[k]

    def call_target(sec, ins):
        """-> ('int', sec, addr, name) or ('ext', name)"""
        tgt = ins.parse_ops()[0].target
        if ins.reloc is not None:
            sym, add = reloc_symbol(ins.reloc)
            if ins.reloc[0] not in ('R_X86_64_PC32', 'R_X86_64_PLT32'):
                raise T5Error('unexpected relocation on call: %r' % (ins.reloc,))
            if sym in ob.code_secs:
                return ('int', sym, add + 4, None)
            if sym in globals_by_name and globals_by_name[sym]['sec'] in ob.code_secs:
                g = globals_by_name[sym]
                if add != -4:
                    raise T5Error('call into the middle of %s' % sym)
                return ('int', g['sec'], g['addr'], sym)
            if add != -4:
                raise T5Error('call with addend to external symbol %s' % sym)
            return ('ext', sym)
        return ('int', sec, tgt, None)

    funcs = []
    done = set()
    work = [(k[0][0], k[0][1], v[0], v[1]) for k, v in entries.items()]
    while work:
        sec, addr, name, is_gl = work.pop(0)
        if (sec, addr, name) in done:
            continue
        done.add((sec, addr, name))
        f = Func(ob, sec, addr, name, is_gl)
        # reachable instructions
        seen = set()
        stack = [addr]
        leaders = {addr}
        decoded = {}
        while stack:
            a = stack.pop()
            if a in seen:
                continue
            if (sec, a) not in insns:
                raise T5Error('%s: %s: control reaches %s:%x which is not an instruction boundary' % (ob.name, name, sec, a))
            seen.add(a)
            ins = insns[(sec, a)]
            try:
                ps, term = decode(ins)
            except T5Error as e:
                raise T5Error('%s: %s: at %x: %s' % (ob.name, name, a, e))
            if term is not None and ins.reloc is not None and term[0] in ('jmp', 'jcc'):
                raise T5Error('%s: %s: at %x: jump through a relocation (cross-object tail jump) not supported: %s' % (ob.name, name, a, ins.text))
            ps2 = []
            for p in ps:
                if p[0] == 'call':
                    ct = call_target(sec, ins)
                    if ct[0] == 'ext':
                        cname = ct[1]
                    else:
                        if ct[1] != sec:
                            raise T5Error('call into another section')
                        cname = ct[3]
                        is_g = True
                        if cname is None:
                            gl = [s['name'] for s in by_addr.get((ct[1], ct[2]), []) if s['bind'] in ('GLOBAL', 'WEAK')]
                            if gl:
                                cname = gl[0]
                            else:
                                cname = name_of_local(ct[1], ct[2])
                                is_g = False
                        work.append((ct[1], ct[2], cname, is_g))
                    f.calls.add(cname)
                    ps2.append(('call', cname))
                else:
                    ps2.append(p)
            succ = []
            if term is None:
                if ins.next is None:
                    raise T5Error('%s: %s: falls off the end of section at %x' % (ob.name, name, a))
                succ = [ins.next]
                termx = None
            elif term[0] == 'ret':
                termx = term
            elif term[0] == 'jmp':
                succ = [term[1]]
                leaders.add(term[1])
                termx = term
            else:
                if ins.next is None:
                    raise T5Error('%s: %s: jcc at end of section' % (ob.name, name))
                succ = [term[1], ins.next]
                leaders.add(term[1])
                leaders.add(ins.next)
                termx = ('jcc', term[1], ins.next)
            decoded[a] = (ps2, termx, ins.next)
            f.flow_targets.update(succ)
            stack.extend(succ)
        # blocks
        for a in sorted(seen):
            pass
        cur = None
        for a in sorted(seen):
            ps2, termx, nxt = decoded[a]
            if cur is None or a in leaders:
                if cur is not None and cur.term is None:
                    cur.term = ('jmp', a)      # fall through into a leader
                cur = Block(a)
                f.blocks[a] = cur
            elif prev_next != a:
                # previous instruction did not fall into this one (cannot happen: non-leader has exactly one pred)
                raise T5Error('%s: %s: internal: non-leader %x without fallthrough predecessor' % (ob.name, name, a))
            cur.n_insns += 1
            for p in ps2:
                cur.pseudo.append((p, a))
            if termx is not None:
                cur.term = termx
                cur = None
            prev_next = nxt
            if cur is not None and nxt not in seen:
                raise T5Error('internal: fallthrough to unseen %x' % nxt)
        # a non-leader always follows its unique predecessor in address order, so the above is exact;
        # verify every block has a terminator
        for b in f.blocks.values():
            if b.term is None:
                raise T5Error('%s: %s: block %x without terminator' % (ob.name, name, b.addr))
        # order blocks: entry first gets id 1? keep address order, ids 1..n
        for i, b in enumerate(f.blocks.values()):
            b.id = i + 1
        f.n_insns = len(seen)
        funcs.append(f)
    # entries that are also reached by a jump / fall-through from some function of this object
    # (the K4 tracer must not treat the stack top as a return address there)
    flow = defaultdict(set)
    for f in funcs:
        flow[f.sec] |= f.flow_targets
    for f in funcs:
        f.entry_is_flow_target = f.addr in flow[f.sec]
        f.flow_targets = None
    return funcs



# --------------------------------------------------------------------------------------
# abstract domain (mirror of coq/X86/FrameCheck.v -- this copy only *proposes* certificates)
# --------------------------------------------------------------------------------------
TOP = ('T',)
# abstract values:  TOP | ('E', r) entry value of register r | ('S', l, k) = F_l + k  (F_0 = entry rsp,
#                   F_l (l >= 1) = value of rsp after the l-th `and rsp,-2^n`) | ('FL', d) flags word with DF = d


class AState:
    __slots__ = ('r', 'sl', 'lv', 'df', 'mx', 'tn')

    def __init__(self):
        self.tn = 0           # (statistics only) registers that may hold an untracked pointer derived from rsp
        self.r = [TOP] * 16
        self.sl = {}          # (level, offset) -> value      8-byte stack slots
        self.lv = []          # lv[i] = (parent, off):  F_{i+1} <= F_parent + off
        self.df = False       # False / True / None(unknown)
        self.mx = True        # MXCSR still holds its entry value

    def copy(self):
        a = AState()
        a.r = list(self.r)
        a.sl = dict(self.sl)
        a.lv = list(self.lv)
        a.df, a.mx, a.tn = self.df, self.mx, self.tn
        return a

    def key(self):
        return (tuple(self.r), tuple(sorted(self.sl.items())), tuple(self.lv), self.df, self.mx)

    def taint(self, r):
        return r == RSP or bool(self.tn >> r & 1) or self.r[r][0] == 'S'

    def set_tn(self, r, t):
        self.tn = (self.tn | (1 << r)) if t else (self.tn & ~(1 << r))


def init_state():
    a = AState()
    a.r = [('E', i) for i in range(16)]
    a.r[RSP] = ('S', 0, 0)
    return a


def shift(v, k):
    if v[0] == 'S':
        return ('S', v[1], v[2] + k)
    return TOP


def rel(lv, a, b):
    """Some D with F_a <= F_b + D when b is an ancestor-or-self of level a, else None"""
    d = 0
    fuel = len(lv) + 1
    while fuel > 0:
        if a == b:
            return d
        if a == 0 or a > len(lv):
            return None
        p, off = lv[a - 1]
        d += off
        a = p
        fuel -= 1
    return None


class Reject(Exception):
    pass


def disjoint(lv, a, k, n, b, j2):
    """is the 8-byte slot (b, j2) provably disjoint from the n-byte range at (a, k)?"""
    d = rel(lv, a, b)
    if d is not None and d + k + n <= j2:
        return True
    d = rel(lv, b, a)
    if d is not None and d + j2 + 8 <= k:
        return True
    return False


def store_at(a, addr, n, val):
    """n-byte store at abstract stack address addr = ('S', l, k); val: abstract value when n == 8 else None"""
    _, l, k = addr
    d = rel(a.lv, l, 0)
    if d is None or d + k + n > 0:
        raise Reject('store not provably below the entry rsp (%s, %d bytes)' % (fmt_val(addr), n))
    a.sl = {key: v for key, v in a.sl.items() if disjoint(a.lv, l, k, n, key[0], key[1])}
    if n == 8 and val is not None and val != TOP:
        a.sl[(l, k)] = val


def load_at(a, addr):
    return a.sl.get((addr[1], addr[2]), TOP)


def val_ok(n, v):
    return not (v[0] == 'S' and v[1] > n)


def tr(a, ins, summaries):
    """in-place abstract transfer of one *resolved* frame instruction; raises Reject"""
    op = ins[0]
    if op == 'clob':
        m = ins[1]
        src = ins[2] if len(ins) > 2 else 0
        t = any(a.taint(x) for x in range(16) if src >> x & 1)
        for r in range(16):
            if m >> r & 1:
                a.r[r] = TOP
                a.set_tn(r, t)
    elif op == 'mov':
        a.set_tn(ins[1], bool(a.tn >> ins[2] & 1))
        a.r[ins[1]] = a.r[ins[2]]
    elif op == 'lea':
        v = shift(a.r[ins[2]], ins[3])
        a.set_tn(ins[1], v == TOP and a.taint(ins[2]))
        a.r[ins[1]] = v
    elif op == 'andsp':
        v = a.r[RSP]
        n = len(a.lv)
        if v[0] != 'S' or v[1] > n:
            raise Reject('and rsp with untracked rsp')
        a.r = [x if val_ok(n, x) else TOP for x in a.r]
        a.sl = {key: x for key, x in a.sl.items() if key[0] <= n and val_ok(n, x)}
        a.lv.append((v[1], v[2]))
        a.r[RSP] = ('S', n + 1, 0)
    elif op == 'push':
        v = a.r[RSP]
        if v[0] != 'S':
            raise Reject('push with untracked rsp')
        nv = shift(v, -8)
        src = ins[1]
        if src == 'any':
            val = TOP
        elif src == 'flags':
            val = ('FL', a.df) if a.df is not None else TOP
        else:
            val = a.r[src]
        a.r[RSP] = nv
        store_at(a, nv, 8, val)
    elif op == 'pop':
        v = a.r[RSP]
        if v[0] != 'S':
            raise Reject('pop with untracked rsp')
        val = load_at(a, v)
        dst = ins[1]
        if dst == 'flags':
            a.df = val[1] if val[0] == 'FL' else None
        elif dst != 'any':
            a.r[dst] = val
            a.set_tn(dst, False)
        if dst != RSP:
            a.r[RSP] = shift(v, 8)
    elif op == 'store':
        _, b, k, n, src = ins
        addr = shift(a.r[b], k)
        if addr == TOP:
            raise Reject('store through %s which is not a tracked stack address' % GPR64[b])
        store_at(a, addr, n, a.r[src] if (src is not None and n == 8) else None)
    elif op == 'load':
        _, d, b, k = ins
        addr = shift(a.r[b], k)
        a.r[d] = load_at(a, addr) if addr != TOP else TOP
        a.set_tn(d, False)
    elif op == 'setdf':
        a.df = ins[1]
    elif op == 'wrmx':
        a.mx = False
    elif op == 'call':
        sm = summaries.get(ins[1])
        if sm is None:
            raise Reject('call to %s: no summary' % ins[1])
        pres, mxk = sm
        v = a.r[RSP]
        if v[0] != 'S':
            raise Reject('call with untracked rsp')
        _, l, j = v
        d = rel(a.lv, l, 0)
        if d is None or d + j > 0:
            raise Reject('call with rsp not provably at or below the entry rsp')
        keep = {}
        for key, x in a.sl.items():
            d = rel(a.lv, l, key[0])
            if d is not None and d + j <= key[1]:
                keep[key] = x
        a.sl = keep
        if a.df is not False:
            raise Reject('call with DF not known to be clear')
        for r in range(16):
            if r != RSP and not (pres >> r & 1):
                a.r[r] = TOP
                a.set_tn(r, False)
        if not mxk:
            a.mx = False
    else:
        raise T5Error('internal: tr of %r' % (ins,))


def tr_pseudo(a, p, summaries):
    """transfer for unresolved pseudo instructions (used while iterating to the fixpoint)"""
    op = p[0]
    if op in ('nop', 'storex', 'taint'):
        return
    if op == 'storeb':
        _, b, k, n, src = p
        addr = shift(a.r[b], k)
        if addr != TOP:
            store_at(a, addr, n, a.r[src] if (src is not None and n == 8) else None)
        return
    if op == 'loadx':
        _, d, b, k = p
        addr = shift(a.r[b], k)
        if d == RSP and addr == TOP:
            raise Reject('rsp loaded through an untracked pointer')
        a.r[d] = load_at(a, addr) if addr != TOP else TOP
        a.set_tn(d, False)
        return
    tr(a, p, summaries)


def resolve(a, p):
    """pseudo -> resolved frame instruction (or None for a no-op), given the abstract state before it"""
    op = p[0]
    if op in ('nop', 'storex', 'taint'):
        return None
    if op == 'storeb':
        _, b, k, n, src = p
        if shift(a.r[b], k) != TOP:
            return ('store', b, k, n, src if n == 8 else None)
        return None
    if op == 'loadx':
        _, d, b, k = p
        if shift(a.r[b], k) != TOP:
            return ('load', d, b, k)
        return ('clob', 1 << d)
    return p


def le_val(v, w):
    return w == TOP or v == w


def le_state(a, b):
    if len(b.lv) > len(a.lv) or a.lv[:len(b.lv)] != b.lv:
        return False
    for r in range(16):
        if not le_val(a.r[r], b.r[r]):
            return False
        if b.r[r] == TOP and a.taint(r) and not (b.tn >> r & 1) and r != RSP:
            return False          # (statistics component; not part of the Coq order)
    for k, w in b.sl.items():
        if not le_val(a.sl.get(k, TOP), w):
            return False
    if b.df is not None and a.df != b.df:
        return False
    if b.mx and not a.mx:
        return False
    return True


def join(a, b):
    """an upper bound of a and b (a new state)"""
    c = AState()
    n = 0
    while n < len(a.lv) and n < len(b.lv) and a.lv[n] == b.lv[n]:
        n += 1
    c.lv = a.lv[:n]
    c.r = [x if (x == y and val_ok(n, x)) else TOP for x, y in zip(a.r, b.r)]
    for r in range(16):
        if r != RSP and c.r[r] == TOP and (a.taint(r) or b.taint(r)):
            c.tn |= 1 << r
    c.sl = {k: v for k, v in a.sl.items() if b.sl.get(k) == v and k[0] <= n and val_ok(n, v)}
    c.df = a.df if a.df == b.df else None
    c.mx = a.mx and b.mx
    return c


def succs(term):
    if term[0] == 'ret':
        return []
    if term[0] == 'jmp':
        return [term[1]]
    return [term[1], term[2]]


def analyse(f, summaries):
    """Fixpoint + resolution + collapsing + self check.  Sets f.ann, f.summary, f.fail, block.final."""
    blocks = f.blocks
    ann = {f.addr: init_state()}
    work = [f.addr]
    inwork = {f.addr}
    rejects = {}
    iters = 0
    while work:
        a0 = work.pop()
        inwork.discard(a0)
        iters += 1
        if iters > 200 * len(blocks) + 1000:
            raise T5Error('%s: fixpoint does not converge' % f.name)
        b = blocks[a0]
        a = ann[a0].copy()
        try:
            for p, ia in b.pseudo:
                cur_ia = ia
                tr_pseudo(a, p, summaries)
            rejects.pop(a0, None)
        except Reject as e:
            rejects[a0] = (cur_ia, str(e))
            continue
        for s in succs(b.term):
            if s not in ann:
                ann[s] = a.copy()
            else:
                if le_state(a, ann[s]):
                    continue
                ann[s] = join(ann[s], a)
            if s not in inwork:
                work.append(s)
                inwork.add(s)
    f.ann = ann
    f.a1 = {}
    # resolve + collapse, collect exit information
    f.fail = None
    pres = (1 << 16) - 1
    mxk = True
    bad_rets = []
    for a0, b in blocks.items():
        if a0 not in ann:
            b.final = None          # unreachable under the abstract semantics (after a rejected block)
            continue
        a = ann[a0].copy()
        out = []
        try:
            for p, ia in b.pseudo:
                cur_ia = ia
                q = resolve(a, p)
                if q is None and p[0] in ('storex', 'storeb'):
                    a1_count(f, a, p, ia)
                tr_pseudo(a, p, summaries)
                if q is not None:
                    out.append(q)
        except Reject as e:
            rejects[a0] = (cur_ia, str(e))
            b.final = None
            continue
        b.final = collapse(out)
        if b.term[0] == 'ret':
            why = []
            if a.r[RSP] != ('S', 0, 0):
                why.append('rsp=%s' % fmt_val(a.r[RSP]))
            if a.df is not False:
                why.append('DF=%s' % a.df)
            if why:
                bad_rets.append((a0, why))
            # the inferred summary is the intersection over *all* returns (also the offending ones, so that a
            # failing function still gets a meaningful summary for the dynamic cross-check)
            m = 0
            for r in range(16):
                if a.r[r] == ('E', r):
                    m |= 1 << r
            pres &= m
            mxk = mxk and a.mx
    if rejects:
        a0 = sorted(rejects)[0]
        f.fail = {'kind': 'reject', 'block': a0, 'insn': rejects[a0][0], 'why': rejects[a0][1]}
    elif bad_rets:
        a0, why = bad_rets[0]
        f.fail = {'kind': 'ret', 'block': a0, 'why': ', '.join(why)}
    f.summary = (pres & ~(1 << RSP), mxk)
    return f


def a1_count(f, a, p, ia):
    """statistics on the stores that are *not* represented in the frame machine (assumption A1)"""
    st = f.a1
    if p[0] == 'storex':
        b, idx = p[1], p[2]
        if b == RSP or idx == RSP:
            kind = 'rsp_indexed'
        elif (b is not None and a.taint(b)) or (idx is not None and idx >= 0 and a.taint(idx)):
            kind = 'frame_ptr'
        else:
            kind = 'arg_ptr'
    else:
        kind = 'frame_ptr' if a.taint(p[1]) else 'arg_ptr'
    st[kind] = st.get(kind, 0) + 1
    if kind != 'arg_ptr':
        st.setdefault('sites', [])
        if len(st['sites']) < 6:
            st['sites'].append('%x' % ia)


def collapse(instrs):
    """merge runs of clobbers (trusted, semantics preserving: Clob m1; Clob m2 == Clob (m1|m2))"""
    out = []
    for q in instrs:
        if q[0] == 'clob':
            if q[1] == 0:
                continue
            if out and out[-1][0] == 'clob':
                out[-1] = ('clob', out[-1][1] | q[1])
                continue
            q = ('clob', q[1])
        out.append(q)
    return out


def fmt_val(v):
    if v[0] == 'T':
        return 'Top'
    if v[0] == 'E':
        return 'Entry(%s)' % GPR64[v[1]]
    if v[0] == 'S':
        return ('S0%+d' % v[2]) if v[1] == 0 else ('F%d%+d' % (v[1], v[2]))
    return 'Flags(DF=%s)' % v[1]


def find_objects(build):
    """All NASM-built objects and all C objects of the library build."""
    asm, cobj = [], []
    root = None
    for dp, dn, fn in os.walk(build):
        for f in fn:
            if f.endswith('.asm.o'):
                asm.append(os.path.join(dp, f))
            elif f.endswith('.c.o'):
                cobj.append(os.path.join(dp, f))
    asm.sort()
    cobj.sort()
    # cross-check with compile_commands.json when present
    cc = os.path.join(build, 'compile_commands.json')
    if os.path.exists(cc):
        try:
            ents = json.load(open(cc))
            n_asm = sum(1 for e in ents if e.get('file', '').endswith('.asm'))
            if n_asm and n_asm != len(asm):
                raise T5Error('compile_commands.json lists %d .asm files but %d .asm.o objects exist' % (n_asm, len(asm)))
        except (ValueError, KeyError):
            pass
    return asm, cobj


def obj_name(path):
    d = os.path.basename(os.path.dirname(path))
    b = os.path.basename(path)
    for suf in ('.asm.o', '.c.o'):
        if b.endswith(suf):
            b = b[:-len(suf)]
    return d + '/' + b


def _stage1(path):
    try:
        ob = parse_object(path, obj_name(path))
        funcs = build_functions(ob)
        ob.insns = None     # free
        return (ob, funcs, None)
    except T5Error as e:
        return (None, None, '%s: %s' % (path, e))


def c_reachable_symbols(build, cobjs, so_path):
    """Symbols that C code can call: undefined symbols of every C object + dynamic exports of the .so."""
    syms = set()
    for c in cobjs:
        out = sh(['nm', '-u', c])
        for line in out.splitlines():
            t = line.split()
            if t:
                syms.add(t[-1])
    exported = set()
    if so_path and os.path.exists(so_path):
        out = sh(['readelf', '--dyn-syms', '-W', so_path])
        for line in out.splitlines():
            m = re.match(r'^\s*\d+:\s+[0-9a-f]+\s+\d+\s+(\w+)\s+(\w+)\s+(\w+)\s+(\S+)\s+(\S+)', line)
            if m and m.group(4) != 'UND' and m.group(1) in ('FUNC', 'NOTYPE'):
                exported.add(m.group(5).split('@')[0])
    return syms, exported


def topo_order(funcs_by_name):
    """callees first; raises on recursion"""
    order, state = [], {}
    for root in sorted(funcs_by_name):
        if root in state:
            continue
        stack = [(root, iter(sorted(funcs_by_name[root].calls)))]
        state[root] = 1
        while stack:
            n, it = stack[-1]
            adv = False
            for c in it:
                if c not in funcs_by_name:
                    continue
                if state.get(c) == 1:
                    raise T5Error('recursion in the call graph: %s -> %s' % (n, c))
                if c not in state:
                    state[c] = 1
                    stack.append((c, iter(sorted(funcs_by_name[c].calls))))
                    adv = True
                    break
            if not adv:
                state[n] = 2
                order.append(n)
                stack.pop()
    return order


def run_all(build, jobs=16):
    asm, cobj = find_objects(build)
    if not asm:
        raise T5Error('no *.asm.o objects under %s' % build)
    with ProcessPoolExecutor(jobs) as ex:
        res = list(ex.map(_stage1, asm, chunksize=4))
    errs = [r[2] for r in res if r[2]]
    if errs:
        raise T5Error('translation aborted:\n  ' + '\n  '.join(errs[:50]))
    objs = [r[0] for r in res]
    funcs = {}
    for ob, fl, _ in res:
        ob.funcs = fl
        for f in fl:
            if f.name in funcs:
                raise T5Error('duplicate function name %s (%s and %s)' % (f.name, funcs[f.name].obj.name, ob.name))
            funcs[f.name] = f
    so = os.path.join(build, 'lib', 'libIPSec_MB.so')
    csyms, exported = c_reachable_symbols(build, cobj, so)
    externs = set()
    for f in funcs.values():
        for c in f.calls:
            if c not in funcs:
                externs.add(c)
    called_from_asm = set()
    for f in funcs.values():
        called_from_asm |= f.calls
    for f in funcs.values():
        # callable from C: referenced by a C object, exported by the shared object, or -- conservatively --
        # a global function that no hand-written function calls (it can only be meant for C callers)
        f.c_reachable = f.is_global and (f.name in csyms or f.name in exported or f.name not in called_from_asm)
    order = topo_order(funcs)
    summaries = {e: (SYSV_MASK, True) for e in externs}
    for n in order:
        f = funcs[n]
        analyse(f, summaries)
        if f.c_reachable:
            # a function callable from C is validated against (at least) the System V summary
            f.required = (f.summary[0] | SYSV_MASK, True)
        else:
            f.required = f.summary
        summaries[n] = f.required
        f.check = py_check(f, summaries)
    return objs, funcs, externs, summaries, order


# --------------------------------------------------------------------------------------
# certificate self-check (mirror of check_fn; Coq is the arbiter, this only predicts and explains)
# --------------------------------------------------------------------------------------
def py_check(f, summaries):
    """returns None when the certificate validates, else a dict describing the first failure"""
    if f.fail:
        return f.fail
    ann = f.ann
    if not le_state(init_state(), ann[f.addr]):
        return {'kind': 'init', 'why': 'init not below ann(entry)'}
    req = f.required
    for a0, b in f.blocks.items():
        if a0 not in ann or b.final is None:
            return {'kind': 'reject', 'block': a0, 'why': 'block not covered by the annotation'}
        a = ann[a0].copy()
        try:
            for q in b.final:
                tr(a, q, summaries)
        except Reject as e:
            return {'kind': 'reject', 'block': a0, 'why': str(e)}
        for sa in succs(b.term):
            if sa not in ann or not le_state(a, ann[sa]):
                return {'kind': 'edge', 'block': a0, 'to': sa, 'why': 'annotation not inductive'}
        if b.term[0] == 'ret':
            bad = exit_violations(a, req)
            if bad:
                return {'kind': 'ret', 'block': a0, 'why': ', '.join(bad), 'regs': bad}
    return None


def exit_violations(a, req):
    pres, mxk = req
    bad = []
    if a.r[RSP] != ('S', 0, 0):
        bad.append('rsp=%s' % fmt_val(a.r[RSP]))
    if a.df is not False:
        bad.append('DF=%s' % ('unknown' if a.df is None else int(a.df)))
    for r in range(16):
        if r != RSP and (pres >> r & 1) and a.r[r] != ('E', r):
            bad.append('%s=%s' % (GPR64[r], fmt_val(a.r[r])))
    if mxk and not a.mx:
        bad.append('MXCSR written')
    return bad


def path_to(f, target):
    """a CFG path (list of block addresses) from the entry to block `target`"""
    prev = {f.addr: None}
    q = [f.addr]
    while q:
        x = q.pop(0)
        if x == target:
            break
        for sa in succs(f.blocks[x].term):
            if sa not in prev and sa in f.blocks:
                prev[sa] = x
                q.append(sa)
    if target not in prev:
        return []
    out = []
    x = target
    while x is not None:
        out.append(x)
        x = prev[x]
    return out[::-1]


# --------------------------------------------------------------------------------------
# Coq emission
# --------------------------------------------------------------------------------------
def coq_str(sv):
    return '"%s"' % sv.replace('"', '""')


def coq_z(n):
    return str(n) if n >= 0 else '(%d)' % n


def coq_val(v):
    if v[0] == 'T':
        return 'ATop'
    if v[0] == 'E':
        return '(AEntry %d)' % v[1]
    if v[0] == 'S':
        return '(AStk %d %s)' % (v[1], coq_z(v[2]))
    return '(AFlags %s)' % ('true' if v[1] else 'false')


def coq_state(a):
    regs = ['(%d, %s)' % (r, coq_val(a.r[r])) for r in range(16) if a.r[r] != TOP]
    sl = ['SL %d %s %s' % (k[0], coq_z(k[1]), coq_val(v)) for k, v in sorted(a.sl.items()) if v != TOP]
    lv = ['LV %d %s' % (p_, coq_z(o)) for p_, o in a.lv]
    df = 'None' if a.df is None else ('(Some %s)' % ('true' if a.df else 'false'))
    return 'mkA [%s] [%s] [%s] %s %s' % ('; '.join(regs), '; '.join(sl), '; '.join(lv), df, 'true' if a.mx else 'false')


def coq_src(x):
    if x == 'any':
        return 'SAny'
    if x == 'flags':
        return 'SFlags'
    return '(SReg %d)' % x


def coq_instr(q):
    op = q[0]
    if op == 'clob':
        return 'IClob %d' % q[1]
    if op == 'mov':
        return 'IMov %d %d' % (q[1], q[2])
    if op == 'lea':
        return 'ILea %d %d %s' % (q[1], q[2], coq_z(q[3]))
    if op == 'andsp':
        return 'IAndSp'
    if op == 'push':
        return 'IPush %s' % coq_src(q[1])
    if op == 'pop':
        return 'IPop %s' % coq_src(q[1])
    if op == 'store':
        return 'IStore %d %s %d %s' % (q[1], coq_z(q[2]), q[3], 'None' if q[4] is None else '(Some %d)' % q[4])
    if op == 'load':
        return 'ILoad %d %d %s' % (q[1], q[2], coq_z(q[3]))
    if op == 'setdf':
        return 'ISetDF %s' % ('true' if q[1] else 'false')
    if op == 'wrmx':
        return 'IWriteMx'
    if op == 'call':
        return 'ICall %s' % coq_str(q[1])
    raise T5Error('internal: cannot emit %r' % (q,))


def best_effort_final(f, b, summaries):
    """frame instructions of a block that the abstract interpreter could not cover (failing function):
    resolve with an all-Top state so that the emitted CFG is still a faithful translation"""
    a = AState()
    a.df = None
    out = []
    for p_, ia in b.pseudo:
        q = resolve(a, p_)
        if q is not None:
            out.append(q)
    return collapse(out)


def emit_object(ob, summaries, funcs_by_name):
    ident = ob.ident
    L = []
    L.append('(* Generated by translators/t5_cfg.py from %s.asm.o -- do not edit. *)' % ob.name)
    L.append('From Coq Require Import ZArith List String.')
    L.append('From IMB Require Import X86.Frame X86.FrameCheck.')
    L.append('Import ListNotations.')
    L.append('Local Open Scope string_scope.')
    L.append('Local Open Scope Z_scope.')
    L.append('Local Definition B (l : positive) (is : list instr) (t : term) : positive * block := (l, (is, t)).')
    L.append('Local Definition AN (l : positive) (a : astate) : positive * astate := (l, a).')
    L.append('Local Definition SL (l : nat) (k : Z) (v : aval) : skey * aval := ((l, k), v).')
    L.append('Local Definition LV (p : nat) (o : Z) : nat * Z := (p, o).')
    callees = sorted({c for f in ob.funcs for c in f.calls})
    ent = ['(%s, mkSum %d %s)' % (coq_str(c), summaries[c][0], 'true' if summaries[c][1] else 'false') for c in callees]
    L.append('Definition tbl_%s : table := [%s].' % (ident, ';\n  '.join(ent)))
    states = {}
    st_lines = []

    def st_name(a):
        k = a.key()
        if k not in states:
            states[k] = 'st_%s_%d' % (ident, len(states))
            st_lines.append('Definition %s : astate := %s.' % (states[k], coq_state(a)))
        return states[k]

    body = []
    defs = []
    for idx, f in enumerate(ob.funcs):
        blks = []
        anns = []
        for a0, b in f.blocks.items():
            fin = b.final if b.final is not None else best_effort_final(f, b, summaries)
            t = b.term
            if t[0] == 'ret':
                ts = 'TRet'
            elif t[0] == 'jmp':
                ts = '(TJmp %d)' % f.blocks[t[1]].id
            else:
                ts = '(TJcc %d %d)' % (f.blocks[t[1]].id, f.blocks[t[2]].id)
            blks.append('B %d [%s] %s' % (b.id, '; '.join(coq_instr(q) for q in fin), ts))
            if f.ann is not None and a0 in f.ann:
                anns.append('AN %d %s' % (b.id, st_name(f.ann[a0])))
        body.append('(* %s   entry %s:%x   %d instructions, %d blocks *)' % (f.name, f.sec, f.addr, f.n_insns, len(f.blocks)))
        body.append('Definition fn_%s_%d : fn := Build_fn %d [\n  %s].' % (ident, idx, f.blocks[f.addr].id, ';\n  '.join(blks)))
        body.append('Definition ann_%s_%d : list (positive * astate) := [\n  %s].' % (ident, idx, ';\n  '.join(anns)))
        pres, mxk = f.required
        body.append('Definition def_%s_%d : fdef := mkDef %s %s (mkSum %d %s) tbl_%s ann_%s_%d fn_%s_%d.' % (
            ident, idx, coq_str(f.name), 'true' if f.c_reachable else 'false', pres, 'true' if mxk else 'false',
            ident, ident, idx, ident, idx))
        defs.append('def_%s_%d' % (ident, idx))
    # states are referenced by the annotations: emit them first
    L.extend(st_lines)
    L.extend(body)
    L.append('Definition all_functions_%s : list fdef := [%s].' % (ident, '; '.join(defs)))
    return '\n'.join(L) + '\n'


def emit_props(ob):
    ident = ob.ident
    return ('(* Generated by translators/t5_cfg.py -- do not edit. *)\n'
            'From Coq Require Import List Bool.\n'
            'From IMB Require Import X86.Frame X86.FrameCheck Gen.GenCfg_%s.\n'
            'Theorem c18_%s : forallb fdef_ok all_functions_%s = true.\n'
            'Proof. vm_compute. reflexivity. Qed.\n'
            'Print Assumptions c18_%s.\n' % (ident, ident, ident, ident))


def write_if_changed(path, content):
    try:
        if open(path).read() == content:
            return False
    except FileNotFoundError:
        pass
    tmp = path + '.tmp'
    with open(tmp, 'w') as fh:
        fh.write(content)
    os.replace(tmp, path)
    return True


def emit_all_file(objs):
    L = ['(* Generated by translators/t5_cfg.py -- do not edit. *)',
         'From Coq Require Import List.',
         'From IMB Require Import X86.Frame X86.FrameCheck.']
    for ob in objs:
        L.append('From IMB Require Gen.GenCfg_%s.' % ob.ident)
    L.append('Import ListNotations.')
    L.append('Definition all_defs : list fdef :=')
    L.append('  ' + ' ++\n  '.join('GenCfg_%s.all_functions_%s' % (ob.ident, ob.ident) for ob in objs) + '.')
    return '\n'.join(L) + '\n'


def emit_top_props(objs):
    L = ['(* Generated by translators/t5_cfg.py -- do not edit. *)',
         '(** Property C18, whole library: every function of the hand-written objects that C code can call',
         '    obeys the System V x86-64 calling convention on every terminating path (model: X86/Frame.v,',
         '    trusted base: X86/C18_NOTES.md).  The generic soundness theorem is in Props/Properties_C18.v. *)',
         'From Coq Require Import ZArith List Bool String.',
         'From IMB Require Import X86.Frame X86.FrameCheck X86.FrameSound Gen.GenCfgAll.']
    for ob in objs:
        L.append('From IMB Require Props.Properties_C18_%s.' % ob.ident)
    L.append('')
    L.append('(** every function of every object validates (one vm_compute theorem per object) *)')
    L.append('Theorem c18_all_checked : forallb fdef_ok all_defs = true.')
    L.append('Proof.')
    L.append('  unfold all_defs. rewrite !forallb_app.')
    for ob in objs:
        L.append('  rewrite Properties_C18_%s.c18_%s.' % (ob.ident, ob.ident))
    L.append('  reflexivity.')
    L.append('Qed.')
    L.append('Print Assumptions c18_all_checked.')
    L.append('')
    L.append('(** the summaries assumed at call sites are implied by the summaries the callees were validated against *)')
    L.append('Theorem c18_link : forallb (link_ok all_defs) all_defs = true.')
    L.append('Proof. vm_compute. reflexivity. Qed.')
    L.append('Print Assumptions c18_link.')
    L.append('')
    L.append('Theorem c18_prog_ok : prog_ok all_defs = true.')
    L.append('Proof. unfold prog_ok. rewrite c18_all_checked, c18_link. reflexivity. Qed.')
    L.append('Print Assumptions c18_prog_ok.')
    L.append('')
    L.append('(** the property *)')
    L.append('Theorem c18_calling_convention :')
    L.append('  forall d, In d all_defs -> d_creach d = true ->')
    L.append('  forall c r, cdf c = false -> exec (code_of all_defs) (d_fn d) c r ->')
    L.append('  post (cr c) (cm c) (cmx c) sysv (fst r) (snd r).')
    L.append('Proof. exact (frame_check_sysv all_defs c18_prog_ok). Qed.')
    L.append('Print Assumptions c18_calling_convention.')
    return '\n'.join(L) + '\n'


def main():
    ap = argparse.ArgumentParser()
    ap.add_argument('--build', required=True)
    ap.add_argument('--out', required=True, help='coq/Gen directory')
    ap.add_argument('--props', default=None, help='coq/Props directory (default: <out>/../Props)')
    ap.add_argument('--jobs', type=int, default=os.cpu_count() or 4)
    ap.add_argument('--index', default=None, help='JSON index path (default: <out>/GenCfgIndex.json)')
    a = ap.parse_args()
    props = a.props or os.path.join(os.path.dirname(os.path.abspath(a.out)), 'Props')
    os.makedirs(a.out, exist_ok=True)
    os.makedirs(props, exist_ok=True)
    t0 = time.time()
    try:
        objs, funcs, externs, summaries, order = run_all(a.build, a.jobs)
    except T5Error as e:
        print('T5: ABORT: %s' % e, file=sys.stderr)
        return 2
    objs = [ob for ob in objs if ob.funcs]
    objs.sort(key=lambda ob: ob.ident)
    idents = set()
    for ob in objs:
        if ob.ident in idents:
            print('T5: ABORT: duplicate object identifier %s' % ob.ident, file=sys.stderr)
            return 2
        idents.add(ob.ident)
    changed = []
    keep_gen, keep_props = set(), set()
    for ob in objs:
        g = 'GenCfg_%s.v' % ob.ident
        q = 'Properties_C18_%s.v' % ob.ident
        keep_gen.add(g)
        keep_props.add(q)
        if write_if_changed(os.path.join(a.out, g), emit_object(ob, summaries, funcs)):
            changed.append(g)
        if write_if_changed(os.path.join(props, q), emit_props(ob)):
            changed.append(q)
    keep_gen.add('GenCfgAll.v')
    keep_props.add('Properties_C18.v')          # hand written: generic soundness statement
    keep_props.add('Properties_C18_All.v')
    if write_if_changed(os.path.join(a.out, 'GenCfgAll.v'), emit_all_file(objs)):
        changed.append('GenCfgAll.v')
    if write_if_changed(os.path.join(props, 'Properties_C18_All.v'), emit_top_props(objs)):
        changed.append('Properties_C18_All.v')
    # remove stale generated files (objects that no longer exist)
    removed = []
    for d, keep, pat in ((a.out, keep_gen, re.compile(r'^GenCfg(_.*|All)\.(v|vo|vok|vos|glob)$')),
                         (props, keep_props, re.compile(r'^Properties_C18(_.*)?\.(v|vo|vok|vos|glob)$'))):
        for fn_ in os.listdir(d):
            m = pat.match(fn_)
            if m and (fn_.rsplit('.', 1)[0] + '.v') not in keep:
                os.remove(os.path.join(d, fn_))
                removed.append(fn_)
    # index
    index = {'build': os.path.abspath(a.build), 'objects': [], 'externs': sorted(externs),
             'n_objects': len(objs), 'n_functions': len(funcs),
             'n_instructions': sum(f.n_insns for f in funcs.values()),
             'n_blocks': sum(len(f.blocks) for f in funcs.values()),
             'n_frame_instrs': sum(len(b.final or []) for f in funcs.values() for b in f.blocks.values()),
             'n_c_reachable': sum(1 for f in funcs.values() if f.c_reachable),
             'failures': []}
    for ob in objs:
        fl = []
        for f in ob.funcs:
            ent = {'name': f.name, 'addr': f.addr, 'global': f.is_global, 'c_reachable': f.c_reachable,
                   'insns': f.n_insns, 'blocks': len(f.blocks),
                   'preserved': [GPR64[r] for r in range(16) if f.required[0] >> r & 1],
                   'mxcsr_kept': f.required[1], 'calls': sorted(f.calls), 'a1': f.a1,
                   'entry_is_flow_target': f.entry_is_flow_target}
            if f.check:
                fail = dict(f.check)
                fail['object'] = ob.name
                fail['ident'] = ob.ident
                fail['function'] = f.name
                blk = fail.get('block')
                if blk is not None:
                    fail['path'] = ['%x' % x for x in path_to(f, blk)]
                    fail['block'] = '%x' % blk
                if 'insn' in fail:
                    fail['insn'] = '%x' % fail['insn']
                if 'to' in fail:
                    fail['to'] = '%x' % fail['to']
                ent['fail'] = fail
                index['failures'].append(fail)
            fl.append(ent)
        index['objects'].append({'name': ob.name, 'ident': ob.ident, 'path': ob.path, 'functions': fl})
    index['changed'] = changed
    index['removed'] = removed
    index['t5_seconds'] = round(time.time() - t0, 2)
    ipath = a.index or os.path.join(a.out, 'GenCfgIndex.json')
    with open(ipath, 'w') as fh:
        json.dump(index, fh, indent=1)
    print('T5: %d objects, %d functions (%d callable from C), %d instructions -> %d frame instructions in %d blocks; '
          '%d files rewritten, %d removed; %d predicted failures; %.1fs' % (
              len(objs), len(funcs), index['n_c_reachable'], index['n_instructions'], index['n_frame_instrs'],
              index['n_blocks'], len(changed), len(removed), len(index['failures']), time.time() - t0))
    for fl in index['failures'][:20]:
        print('T5: predicted failure: %s %s: %s' % (fl['object'], fl['function'], fl['why']))
    return 0


if __name__ == '__main__':
    sys.exit(main())
