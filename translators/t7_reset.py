#!/usr/bin/env python3
"""T7: manager reset / init / re-attach structure -> coq/Gen/GenReset.v + .build/gen/gen_reset.h

From the clang JSON AST of the REAL translation units (flags from .build/lib/compile_commands.json):

  * every compiled lib/<arch>_t<n>/mb_mgr_<arch>_t<n>.c:
      - reset_ooo_mgrs(): the list (IMB_MGR field, reset function, lane count) in call order;
      - init_mb_mgr_<arch>_t<n>_internal(): required CPU flags, used_arch, used_arch_type, and the
        assignments under `if (reset_mgrs)` (next_job / earliest_job);
      - the set of OOO-manager fields of IMB_MGR the variant's code refers to anywhere else
        (submit/flush paths after preprocessing) = managers *used* by the variant;
  * lib/<arch>_t1/mb_mgr_<arch>.c: init_mb_mgr_<arch>_internal(): minimum CPU flags, the order of
    (errno := 0) and (features := adjust(flags, detect)), and the tier ladder (mask -> variant);
  * lib/x86_64/alloc.c: ooo_mgr_table (field, struct, aligned size, road-block offset, in order),
    ALIGN(sizeof(IMB_MGR)), and imb_set_pointers_mb_mgr() as a list of steps (switch on used_arch
    -> init_*_internal(ptr, k), errno, flags, features, pointer loop, road blocks) in source order;
  * lib/x86_64/ooo_mgr_reset.c: every ooo_mgr_*_reset() body as a small statement language
    (memset / store / for i < num_lanes / if num_lanes == k) with all offsets, strides, widths and
    lengths evaluated by the library's compiler on the real structs;
  * lib/x86_64/cpu_feature.c: cpu_feature_adjust() as a list (flag bit, feature bits cleared).

Anything that does not match the expected shape raises T7Error (the check then takes the
broken-obligation path).  Self tests: (1) ooo_mgr_table as read back from .rodata of the rebuilt
libIPSec_MB.so must equal the table computed from the names and the T8 layout; (2) every lane-count
argument is a positive compile-time constant; (3) every reset function named in a variant exists.

Usage: t7_reset.py            (IMB_REPO / IMB_VERIF_BUILD override /repo and /verif/.build)
"""
import concurrent.futures, glob, hashlib, json, os, re, struct, subprocess, sys

sys.path.insert(0, os.path.dirname(os.path.abspath(__file__)))
import t8_layout  # noqa: E402
from t8_layout import VERIF, REPO, BUILD, GEN, flags_for, write_if_changed  # noqa: E402

OUT_V = os.path.join(os.environ.get("IMB_COQ_DIR") or os.path.join(VERIF, "coq"), "Gen", "GenReset.v")
OUT_H = os.path.join(GEN, "gen_reset.h")


class T7Error(Exception):
    pass


def loc(n):
    b = (n or {}).get("range", {}).get("begin", {})
    ln = b.get("line") or b.get("expansionLoc", {}).get("line") or b.get("spellingLoc", {}).get("line")
    return " [%s near line %s]" % ((n or {}).get("kind"), ln)


def fail(n, msg):
    raise T7Error(msg + loc(n))


# ----------------------------------------------------------------------------------------------
# AST access (cached by the hash of the preprocessed source)

def ast_functions(relfile, want_names=None, want_vars=()):
    """-> dict name -> FunctionDecl (with body) of lib/<relfile>; also VarDecls in want_vars ('var:<name>').
    With want_names, only those functions are dumped (clang -ast-dump-filter: the variant files expand to
    hundreds of MB of JSON otherwise)."""
    flags, cc = flags_for(relfile)
    src = os.path.join(REPO, "lib", relfile)
    fns = {}

    def collect(n):
        if n.get("kind") == "FunctionDecl" and any(c.get("kind") == "CompoundStmt" for c in n.get("inner", [])):
            fns[n["name"]] = n
        elif n.get("kind") == "VarDecl" and n.get("name") in want_vars:
            fns["var:" + n["name"]] = n

    if want_names is None:
        ast = t8_layout.clang_ast(src, flags)
        for n in ast["inner"]:
            collect(n)
        return fns
    for nm in want_names:
        cmd = ["clang", "-Xclang", "-ast-dump=json", "-Xclang", "-ast-dump-filter=" + nm, "-fsyntax-only", "-Wno-everything"] + flags + [src]
        p = subprocess.run(cmd, stdout=subprocess.PIPE, stderr=subprocess.PIPE, text=True, timeout=300)
        if p.returncode != 0:
            raise T7Error("clang failed on %s:\n%s" % (relfile, p.stderr[-3000:]))
        dec = json.JSONDecoder()
        txt = p.stdout
        pos = 0
        while True:
            while pos < len(txt) and txt[pos] in " \r\n\t":
                pos += 1
            if pos >= len(txt):
                break
            if txt.startswith("Dumping", pos):
                pos = txt.index("\n", pos) + 1
                continue
            obj, pos = dec.raw_decode(txt, pos)
            if obj.get("name") == nm:
                collect(obj)
    return fns


def preprocessed(relfile):
    flags, cc = flags_for(relfile)
    src = os.path.join(REPO, "lib", relfile)
    pre = subprocess.run(["clang", "-E", "-P", "-Wno-everything"] + flags + [src], stdout=subprocess.PIPE, stderr=subprocess.PIPE, text=True, timeout=300)
    if pre.returncode != 0:
        raise T7Error("preprocessing %s failed:\n%s" % (relfile, pre.stderr[-2000:]))
    return pre.stdout


def body_of(fn):
    for c in fn.get("inner", []):
        if c.get("kind") == "CompoundStmt":
            return c
    fail(fn, "function without body")


TRANSPARENT = ("ImplicitCastExpr", "ParenExpr", "ConstantExpr", "CStyleCastExpr")


def strip(n):
    while n.get("kind") in TRANSPARENT:
        n = n["inner"][0]
    return n


def fold(n, env=None):
    """compile-time integer value of an expression, or None"""
    n = strip(n)
    k = n.get("kind")
    if k == "IntegerLiteral":
        return int(n["value"])
    if k == "DeclRefExpr":
        nm = n["referencedDecl"]["name"]
        if env and nm in env:
            return env[nm]
        return None
    if k == "UnaryOperator":
        v = fold(n["inner"][0], env)
        if v is None:
            return None
        if n["opcode"] == "-":
            return -v
        if n["opcode"] == "~":
            return ~v
        if n["opcode"] == "+":
            return v
        return None
    if k == "BinaryOperator":
        a, b = fold(n["inner"][0], env), fold(n["inner"][1], env)
        if a is None or b is None:
            return None
        op = n["opcode"]
        if op == "+": return a + b
        if op == "-": return a - b
        if op == "*": return a * b
        if op == "|": return a | b
        if op == "&": return a & b
        if op == "<<": return a << b
        if op == ">>": return a >> b
        if op == "/" and b: return a // b
        return None
    return None


class TLDict:
    """a dict per thread (the variant and architecture files are parsed by a thread pool)"""

    def __init__(self, init):
        import threading
        self._init, self._tl = init, threading.local()

    def _d(self):
        if not hasattr(self._tl, "d"):
            import copy
            self._tl.d = copy.deepcopy(self._init)
        return self._tl.d

    def __getitem__(self, k): return self._d()[k]
    def __setitem__(self, k, v): self._d()[k] = v
    def __contains__(self, k): return k in self._d()
    def __iter__(self): return iter(self._d())
    def __len__(self): return len(self._d())
    def keys(self): return self._d().keys()
    def items(self): return self._d().items()
    def get(self, k, dflt=None): return self._d().get(k, dflt)
    def pop(self, k, *a): return self._d().pop(k, *a)
    def setdefault(self, k, v): return self._d().setdefault(k, v)
    def clear(self): self._d().clear()

    def update(self, *a, **kw): self._d().update(*a, **kw)


# local pointer aliases of a parameter, substituted while printing (set by pointer_aliases())
RENAME = TLDict({})


def pointer_aliases(fn):
    """locals that are nothing but another name of a pointer parameter: declared with an initialiser that is (a cast of) a
    parameter or of another such alias, and never assigned, incremented or decremented afterwards -> {local: parameter}"""
    params = [c["name"] for c in fn.get("inner", []) if c.get("kind") == "ParmVarDecl"]
    written = set()

    def f(n):
        k = n.get("kind")
        if k in ("BinaryOperator", "CompoundAssignOperator") and (k == "CompoundAssignOperator" or n.get("opcode") == "="):
            l = strip(n["inner"][0])
            if l.get("kind") == "DeclRefExpr":
                written.add(l["referencedDecl"]["name"])
        if k == "UnaryOperator" and n.get("opcode") in ("++", "--"):
            l = strip(n["inner"][0])
            if l.get("kind") == "DeclRefExpr":
                written.add(l["referencedDecl"]["name"])
        if k == "UnaryOperator" and n.get("opcode") == "&":
            l = strip(n["inner"][0])
            if l.get("kind") == "DeclRefExpr":
                written.add(l["referencedDecl"]["name"])    # address taken: may be written through it
    walk(fn, f)
    al = {}

    def g(n):
        if n.get("kind") == "VarDecl" and "*" in n.get("type", {}).get("qualType", "") and n["name"] not in written:
            init = [c for c in n.get("inner", []) if c.get("kind") != "FullComment"]
            if len(init) == 1:
                r = strip(init[0])
                if r.get("kind") == "DeclRefExpr":
                    t = r["referencedDecl"]["name"]
                    t = al.get(t, t)
                    if t in params and t not in written:
                        al[n["name"]] = t
    walk(fn, g)
    return al


def if_parts(s):
    """(condition, then, else-or-None) of an IfStmt with `if (!c) A else B` read as `if (c) B else A`"""
    inner = s["inner"]
    c, a, b = inner[0], inner[1], inner[2] if len(inner) > 2 else None
    cs = strip(c)
    if b is not None and cs.get("kind") == "UnaryOperator" and cs.get("opcode") == "!":
        return cs["inner"][0], b, a
    return c, a, b


# ---- normal form of small C functions (alloc.c): single-assignment locals are replaced by their initialisers and calls of
# small static helpers by the helper's body, so that the printed form does not depend on how the code is cut into locals
# and helpers.  NF["fns"] = the file's functions; NF["on"] switches the mode on inside nf_of().
NF = TLDict({"on": False, "fns": {}, "written": set(), "depth": 0, "loaded": [], "stale": False})


def written_names(fn):
    w = set()

    def f(n):
        k = n.get("kind")
        if (k == "BinaryOperator" and n.get("opcode") == "=") or k == "CompoundAssignOperator" or \
                (k == "UnaryOperator" and n.get("opcode") in ("++", "--", "&")):
            l = strip(n["inner"][0])
            if l.get("kind") == "DeclRefExpr":
                w.add(l["referencedDecl"]["name"])
    walk(fn, f)
    return w


def has_kind(n, kinds):
    found = []
    walk(n, lambda x: found.append(1) if x.get("kind") in kinds else None)
    return bool(found)


def reads_memory(n):
    """does evaluating the expression read memory (other than the named variables themselves)?"""
    bad = []

    def f(x, under_addr=False):
        k = x.get("kind")
        if k == "UnaryOperator" and x.get("opcode") == "&":
            sub = strip(x["inner"][0])
            if sub.get("kind") == "ArraySubscriptExpr":
                for c in sub["inner"]:
                    f(c)
                return
        if k == "MemberExpr" or k == "ArraySubscriptExpr" or (k == "UnaryOperator" and x.get("opcode") == "*"):
            bad.append(1)
        for c in x.get("inner", []):
            if isinstance(c, dict):
                f(c)
    f(n)
    return bool(bad)


def nf_block(items):
    """canonical texts of a statement list with single-assignment locals substituted"""
    return [t for (_, t) in nf_items(items)]


def nf_items(items):
    """generator of (statement node, canonical text) over a statement list, single-assignment locals substituted.  A local
    whose initialiser reads memory stays substituted only up to and including the next statement of its block that stores
    or calls (uses inside that statement after a store nested in it are not told apart: the one imprecision of this normal
    form); the consumer must look at each statement before asking for the next one"""
    loaded, stale = [], False
    for s in items:
        if stale:
            for nm in loaded:
                RENAME.pop(nm, None)
            loaded, stale = [], False
        if s.get("kind") == "DeclStmt" and len(s["inner"]) == 1 and s["inner"][0].get("kind") == "VarDecl":
            d = s["inner"][0]
            init = [c for c in d.get("inner", []) if c.get("kind") != "FullComment"]
            if len(init) == 1 and d["name"] not in NF["written"] and \
                    (not has_kind(init[0], ("CallExpr",)) or inlinable_call(strip(init[0])) == "expr"):
                txt = canon(init[0])
                if "(call " not in txt:
                    RENAME[d["name"]] = txt
                    if reads_memory(init[0]) or "(* " in txt or "(-> " in txt or "([] " in txt:
                        loaded.append(d["name"])
                    continue
        t = canon(s)
        if t.startswith("{") and t.endswith("}") and s.get("kind") == "CallExpr":
            t = t[1:-1]          # body of an inlined void helper
        if t:
            yield (s, t)
        if has_kind(s, ("CallExpr", "CompoundAssignOperator")) or "(= " in t or "++" in t or "--" in t:
            stale = True      # (the statement itself was printed with the values read before it ran)
    for nm in loaded:
        RENAME.pop(nm, None)


def inlinable_call(n):
    """'expr' / 'stmt' when n is a call of a small static helper of the same file that can be replaced by its body"""
    if n.get("kind") != "CallExpr" or not NF["on"] or NF["depth"] > 3:
        return None
    f = strip(n["inner"][0])
    if f.get("kind") != "DeclRefExpr":
        return None
    fn = NF["fns"].get(f["referencedDecl"]["name"])
    if fn is None or fn.get("storageClass") != "static":
        return None
    body = stmts(body_of(fn))
    if len(body) > 6 or has_kind(fn, ("ForStmt", "WhileStmt", "DoStmt", "SwitchStmt", "IfStmt", "GotoStmt")):
        return None
    rets = [b for b in body if b.get("kind") == "ReturnStmt"]
    if len(rets) == 1 and body[-1] is rets[0] and rets[0].get("inner"):
        return "expr"
    if not rets:
        return "stmt"
    return None


def inline_call(n):
    """canonical text of the helper's body with the arguments put in place of the parameters"""
    f = strip(n["inner"][0])
    fn = NF["fns"][f["referencedDecl"]["name"]]
    params = [c["name"] for c in fn.get("inner", []) if c.get("kind") == "ParmVarDecl"]
    args = [canon(a) for a in n["inner"][1:]]
    if len(args) != len(params):
        fail(n, "call of %s with %d arguments" % (fn["name"], len(args)))
    saved = dict(RENAME), NF["written"]
    RENAME.clear()
    RENAME.update(dict(zip(params, args)))
    NF["written"] = written_names(fn)
    NF["depth"] += 1
    try:
        if NF["written"] & set(params):
            fail(n, "helper %s assigns one of its parameters" % fn["name"])
        body = stmts(body_of(fn))
        if inlinable_call(n) == "expr":
            val = None
            for node, _ in nf_items(body):
                if node is not body[-1]:
                    fail(n, "helper %s does more than compute a value" % fn["name"])
                val = canon(node["inner"][0])      # (printed while the helper's locals are substituted)
            return val
        return "{%s}" % "; ".join(nf_block(body))
    finally:
        NF["depth"] -= 1
        RENAME.clear()
        RENAME.update(saved[0])
        NF["written"] = saved[1]


def nf_of(fn, fns):
    """normal form of a whole function body"""
    NF.update(on=True, fns=fns, written=written_names(fn), depth=0, loaded=[], stale=False)
    RENAME.clear()
    try:
        return "{%s}" % "; ".join(nf_block(stmts(body_of(fn))))
    finally:
        NF["on"] = False
        RENAME.clear()


def const_locals(fn):
    """locals that are compile-time integer constants and never written: {name: value}"""
    w = written_names(fn)
    env = {}

    def f(n):
        if n.get("kind") == "VarDecl" and n["name"] not in w:
            init = [c for c in n.get("inner", []) if c.get("kind") != "FullComment"]
            if len(init) == 1:
                v = fold(init[0], env)
                if v is not None:
                    env[n["name"]] = v
    walk(fn, f)
    return env


def drop_const_decls(items, env):
    return [s for s in items if not (s.get("kind") == "DeclStmt" and all(d.get("kind") == "VarDecl" and d["name"] in env for d in s["inner"]))]


def cond_canon(n, env=None):
    """an expression in condition position: `x != 0` is `x`, `x == 0` is `!x` (also under !, && and ||)"""
    m = strip(n)
    k = m.get("kind")
    if k == "BinaryOperator" and m.get("opcode") in ("&&", "||"):
        return "(%s %s %s)" % (m["opcode"], cond_canon(m["inner"][0], env), cond_canon(m["inner"][1], env))
    if k == "UnaryOperator" and m.get("opcode") == "!":
        t = cond_canon(m["inner"][0], env)
        if t.startswith("(== "):
            return "(!= " + t[4:]
        if t.startswith("(!= "):
            return "(== " + t[4:]
        if t.startswith("(! "):
            return t[3:-1]
        return "(! %s)" % t
    if k == "BinaryOperator" and m.get("opcode") in ("!=", "=="):
        a, b = m["inner"]
        if fold(b, env) == 0 or canon(b, env) == "0":
            return cond_canon(a, env) if m["opcode"] == "!=" else "(! %s)" % cond_canon(a, env)
    return canon(n, env)


def canon(n, env=None):
    """compact S-expression of a statement / expression, casts and parentheses dropped, constants folded"""
    if not n:
        return "_"
    k = n.get("kind")
    if k in TRANSPARENT:
        return canon(n["inner"][0], env)
    v = fold(n, env) if k in ("IntegerLiteral", "BinaryOperator", "UnaryOperator") else None
    if v is not None:
        return str(v)
    inner = [c for c in n.get("inner", []) if c.get("kind") not in ("FullComment",)]
    if k == "DeclRefExpr":
        if env and n["referencedDecl"]["name"] in env:
            return str(env[n["referencedDecl"]["name"]])
        return RENAME.get(n["referencedDecl"]["name"], n["referencedDecl"]["name"])
    if k == "UnaryOperator" and n.get("opcode") == "&" and strip(inner[0]).get("kind") == "ArraySubscriptExpr":
        # &p[n]  ==  p + n
        sub = strip(inner[0])["inner"]
        return "(+ %s %s)" % (canon(sub[0], env), canon(sub[1], env))
    if k == "CompoundAssignOperator" and n.get("opcode") == "+=":
        # x += n  ==  x = x + n
        return "(= %s (+ %s %s))" % (canon(inner[0], env), canon(inner[0], env), canon(inner[1], env))
    if k == "MemberExpr":
        return "(%s %s %s)" % ("->" if n.get("isArrow") else ".", canon(inner[0], env), n["name"])
    if k == "ArraySubscriptExpr":
        return "([] %s %s)" % (canon(inner[0], env), canon(inner[1], env))
    if k in ("BinaryOperator", "CompoundAssignOperator"):
        return "(%s %s %s)" % (n["opcode"], canon(inner[0], env), canon(inner[1], env))
    if k == "UnaryOperator":
        return "(%s%s %s)" % ("post" if n.get("isPostfix") else "", n["opcode"], canon(inner[0], env))
    if k == "CallExpr":
        if inlinable_call(n):
            return inline_call(n)
        return "(call %s)" % " ".join(canon(c, env) for c in inner)
    if k == "UnaryExprOrTypeTraitExpr":
        return "(%s %s)" % (n["name"], canon(inner[0], env) if inner else n.get("argType", {}).get("qualType"))
    if k == "OffsetOfExpr":
        return "(offsetof)"
    if k == "CompoundStmt":
        if NF["on"]:
            return "{%s}" % "; ".join(nf_block([c for c in inner if c.get("kind") != "NullStmt"]))
        return "{%s}" % "; ".join(canon(c, env) for c in inner if c.get("kind") != "NullStmt")
    if k == "IfStmt":
        return "(if %s %s)" % (cond_canon(inner[0], env), " ".join(canon(c, env) for c in inner[1:]))
    if k == "ReturnStmt":
        return "(return%s)" % "".join(" " + canon(c, env) for c in inner)
    if k == "DeclStmt":
        return "(decl %s)" % " ".join(canon(c, env) for c in inner)
    if k == "VarDecl":
        return "%s%s" % (n["name"], "".join("=" + canon(c, env) for c in inner if c.get("kind") != "FullComment"))
    if k == "ForStmt":
        return "(for %s)" % " ".join(canon(c, env) if c else "_" for c in n.get("inner", []))
    if k == "SwitchStmt":
        return "(switch %s)" % " ".join(canon(c, env) for c in inner)
    if k == "CaseStmt":
        return "(case %s)" % " ".join(canon(c, env) for c in inner)
    if k == "DefaultStmt":
        return "(default %s)" % " ".join(canon(c, env) for c in inner)
    if k in ("BreakStmt", "NullStmt"):
        return k
    if k == "DoStmt":
        return "(do %s)" % " ".join(canon(c, env) for c in inner)
    if k == "WhileStmt":
        return "(while %s)" % " ".join(canon(c, env) for c in inner)
    fail(n, "construct not handled by the canonical printer")


def stmts(compound):
    return [c for c in compound.get("inner", []) if c.get("kind") != "NullStmt"]


def walk(n, f):
    f(n)
    for c in n.get("inner", []):
        if isinstance(c, dict):
            walk(c, f)


# ----------------------------------------------------------------------------------------------
# enumerators / constants of the header needed to decode the ASTs

def header_consts():
    names = ["IMB_ARCH_NONE", "IMB_ARCH_SSE", "IMB_ARCH_AVX2", "IMB_ARCH_AVX512",
             "IMB_ERR_MISSING_CPUFLAGS_INIT_MGR", "IMB_ERR_NULL_MBMGR", "IMB_ERR_SELFTEST", "IMB_FLAG_SHANI_OFF", "IMB_FLAG_GFNI_OFF",
             "IMB_FEATURE_SHANI", "IMB_FEATURE_GFNI", "IMB_CPUFLAGS_SSE", "IMB_CPUFLAGS_SSE_T2", "IMB_CPUFLAGS_SSE_T3", "IMB_CPUFLAGS_AVX2",
             "IMB_CPUFLAGS_AVX2_T2", "IMB_CPUFLAGS_AVX2_T3", "IMB_CPUFLAGS_AVX2_T4", "IMB_CPUFLAGS_AVX512", "IMB_CPUFLAGS_AVX512_T2"]
    flags, cc = flags_for("x86_64/alloc.c")
    src = os.path.join(GEN, "t7_consts.c")
    prog = ['#include <stdio.h>', '#include "intel-ipsec-mb.h"', 'int main(void){']
    for n in names:
        prog.append('printf("%s %%llu\\n", (unsigned long long)(%s));' % (n, n))
    prog.append("return 0;}")
    open(src, "w").write("\n".join(prog))
    exe = os.path.join(GEN, "t7_consts")
    p = subprocess.run([cc] + [f for f in flags if not f.startswith("-std")] + ["-w", "-o", exe, src], stderr=subprocess.PIPE, text=True)
    if p.returncode != 0:
        raise T7Error("constants probe failed:\n" + p.stderr[-2000:])
    out = subprocess.run([exe], stdout=subprocess.PIPE, text=True, check=True).stdout
    return {l.split()[0]: int(l.split()[1]) for l in out.splitlines()}


# ----------------------------------------------------------------------------------------------
# variants

def compiled_variant_files():
    db = json.load(open(t8_layout.COMPDB))
    out = []
    for e in db:
        m = re.search(r"/lib/((sse|avx2|avx512)_t(\d))/mb_mgr_\2_t\3\.c$", e["file"])
        if m and os.path.realpath(e["file"]).startswith(os.path.realpath(REPO)):
            out.append((m.group(1), "%s/mb_mgr_%s.c" % (m.group(1), m.group(1))))
    out.sort(key=lambda x: (["sse", "avx2", "avx512"].index(x[0].split("_")[0]), x[0]))
    if len(out) < 3:
        raise T7Error("fewer than 3 compiled variant files in compile_commands.json")
    return out


def parse_variant(vname, relfile, K, table_fields):
    iname = "init_mb_mgr_%s_internal" % vname
    fns = ast_functions(relfile, want_names=["reset_ooo_mgrs", iname])
    arch = vname.split("_")[0]
    # --- reset_ooo_mgrs
    if "reset_ooo_mgrs" not in fns:
        raise T7Error("%s: reset_ooo_mgrs() not found" % relfile)
    resets = []
    for s in stmts(body_of(fns["reset_ooo_mgrs"])):
        if s.get("kind") != "CallExpr":
            fail(s, "%s: reset_ooo_mgrs(): statement is not a call" % relfile)
        args = s["inner"]
        callee = strip(args[0])
        if callee.get("kind") != "DeclRefExpr" or len(args) != 3:
            fail(s, "%s: reset_ooo_mgrs(): unexpected call shape" % relfile)
        fn = callee["referencedDecl"]["name"]
        m = re.match(r"^\(-> state (\w+)\)$", canon(args[1]))
        if not m:
            fail(s, "%s: reset_ooo_mgrs(): first argument is not state-><field>: %s" % (relfile, canon(args[1])))
        lanes = fold(args[2])
        if lanes is None or lanes <= 0:
            fail(s, "%s: reset_ooo_mgrs(): lane count of %s is not a positive constant" % (relfile, m.group(1)))
        resets.append((m.group(1), fn, lanes))
    # --- init_mb_mgr_<v>_internal prologue
    iname = "init_mb_mgr_%s_internal" % vname
    if iname not in fns:
        raise T7Error("%s: %s() not found" % (relfile, iname))
    cenv = const_locals(fns[iname])
    st = drop_const_decls(stmts(body_of(fns[iname])), cenv)
    info = {"name": vname, "file": "lib/" + relfile, "resets": resets, "ring_reset": [], "reset_calls_reset_ooo": False}
    i = 0
    c = canon(st[i], cenv)
    m = re.match(r"^\(if \(!= \(& \(-> state features\) (\d+)\) (\d+)\) \{\(call imb_set_errno state IMB_ERR_MISSING_CPUFLAGS_INIT_MGR\); \(return\)\}\)$", c)
    if not m or m.group(1) != m.group(2):
        fail(st[i], "%s: %s(): CPU-flag check has an unexpected shape: %s" % (relfile, iname, c[:200]))
    info["req_mask"] = int(m.group(1))
    i += 1
    seen = set()
    while i < len(st):
        c = canon(st[i], cenv)
        m = re.match(r"^\(= \(-> state used_arch\) (\w+)\)$", c)
        if m:
            info["arch"] = K[m.group(1)] if m.group(1) in K else fail(st[i], "unknown arch enumerator " + m.group(1))
            seen.add("arch"); i += 1; continue
        m = re.match(r"^\(= \(-> state used_arch_type\) (\d+)\)$", c)
        if m:
            info["arch_type"] = int(m.group(1)); seen.add("type"); i += 1; continue
        if c.startswith("(if reset_mgrs "):
            inner = [x for x in st[i]["inner"]]
            if len(inner) != 2:
                fail(st[i], "%s: if (reset_mgrs) with else branch" % relfile)
            for s2 in stmts(inner[1]) if inner[1].get("kind") == "CompoundStmt" else [inner[1]]:
                c2 = canon(s2, cenv)
                if c2 == "(call reset_ooo_mgrs state)":
                    info["reset_calls_reset_ooo"] = True
                    continue
                m2 = re.match(r"^\(= \(-> state (\w+)\) (-?\d+)\)$", c2)
                if not m2:
                    fail(s2, "%s: statement under if (reset_mgrs) not understood: %s" % (relfile, c2[:200]))
                info["ring_reset"].append((m2.group(1), int(m2.group(2))))
            seen.add("reset"); i += 1; continue
        break
    # everything after must be handler binding: state-><fnptr field> = <function>
    bound = []
    for s in st[i:]:
        c = canon(s, cenv)
        mb = re.match(r"^\(= \(-> state (\w+)\) \w+\)$", c)
        if not mb:
            fail(s, "%s: %s(): statement after the reset block is not a handler binding: %s" % (relfile, iname, c[:200]))
        bound.append(mb.group(1))
    info["bound"] = bound
    for need in ("arch", "type"):
        if need not in seen:
            raise T7Error("%s: %s(): used_arch / used_arch_type assignment missing" % (relfile, iname))
    if "reset" not in seen:
        info["ring_reset"] = []
    # --- managers the variant's code refers to outside reset_ooo_mgrs: member accesses `-> <field>` in the
    #     preprocessed translation unit (the submit/flush paths are selected by #ifdef on the variant's macros)
    txt = preprocessed(relfile)
    m = re.search(r"\breset_ooo_mgrs\s*\(\s*IMB_MGR\s*\*\s*state\s*\)\s*\{", txt)
    if not m:
        raise T7Error("%s: definition of reset_ooo_mgrs not found in the preprocessed source" % relfile)
    depth, j = 1, m.end()
    while depth and j < len(txt):
        depth += {"{": 1, "}": -1}.get(txt[j], 0)
        j += 1
    rest = txt[:m.start()] + txt[j:]
    used = set(re.findall(r"->\s*(\w+)\b", rest)) & set(table_fields)
    info["used"] = [f for f in table_fields if f in used]
    return info


def parse_arch(arch, K):
    try:
        return _parse_arch(arch, K)
    finally:
        NF["on"] = False
        RENAME.clear()


def _parse_arch(arch, K):
    rel = "%s_t1/mb_mgr_%s.c" % (arch, arch)
    fns = ast_functions(rel)
    NF.update(on=True, fns=fns, written=written_names(fns.get("init_mb_mgr_%s_internal" % arch, {})), depth=0, loaded=[], stale=False)
    iname = "init_mb_mgr_%s_internal" % arch
    if iname not in fns:
        raise T7Error("%s: %s() not found" % (rel, iname))
    info = {"arch": arch, "steps": [], "ladder": [], "default": None}

    def tier_call(c):
        m = re.match(r"^\(call init_mb_mgr_(\w+)_internal state reset_mgrs\)$", c)
        return m.group(1) if m else None

    def tier_of(node):
        th = canon(node)
        return tier_call(th) or (re.match(r"^\{\(call init_mb_mgr_(\w+)_internal state reset_mgrs\)(; \(return\))?\}$", th) or [None, None])[1]

    def ladder_if(n):
        """if ((features & M) == M) <tier> [else ...]   or   if (~features & M) <fallback> else <tier>"""
        inner = n["inner"]
        ct = cond_canon(inner[0])
        mi = re.match(r"^\(& \(~ \(-> state features\)\) (\d+)\)$", ct)
        if mi and len(inner) == 3 and inner[2].get("kind") != "IfStmt":
            t, d = tier_of(inner[2]), tier_of(inner[1])
            if not t or not d:
                fail(n, "%s: branches of the inverted tier test are not tier calls" % rel)
            info["ladder"].append((int(mi.group(1)), t))
            info["default"] = d
            return True
        m = re.match(r"^\(== \(& \(-> state features\) (\d+)\) (\d+)\)$", ct)
        if not m or m.group(1) != m.group(2):
            fail(n, "%s: tier test has an unexpected shape: %s" % (rel, ct[:160]))
        th = canon(inner[1])
        t = tier_of(inner[1])
        if not t:
            fail(n, "%s: tier branch is not a call of init_mb_mgr_*_internal: %s" % (rel, th[:160]))
        info["ladder"].append((int(m.group(1)), t))
        returns = th.endswith("(return)}")
        if len(inner) == 3:
            e = inner[2]
            if e.get("kind") == "IfStmt":
                ladder_if(e)
            else:
                t2 = tier_of(e)
                if not t2:
                    fail(e, "%s: else branch is not a tier call" % rel)
                info["default"] = t2
            return True
        return returns

    first = True
    for node, c in nf_items(stmts(body_of(fns[iname]))):
        if first and c.startswith("(if (! state) "):
            continue   # SAFE_PARAM NULL check: outside the model (state is a valid manager)
        if "req_mask" not in info:
            first = False
            m = re.match(r"^\(if \(!= \(& \(-> state features\) (\d+)\) (\d+)\) \{\(call imb_set_errno state IMB_ERR_MISSING_CPUFLAGS_INIT_MGR\); \(return\)\}\)$", c)
            if not m or m.group(1) != m.group(2):
                fail(node, "%s: minimum CPU-flag check has an unexpected shape: %s" % (rel, c[:200]))
            info["req_mask"] = int(m.group(1))
            continue
        if c == "(call imb_set_errno state 0)":
            info["steps"].append("errno0")
        elif c == "(= (-> state features) (call cpu_feature_adjust (-> state flags) (call cpu_feature_detect)))":
            info["steps"].append("features")
        elif node.get("kind") == "IfStmt":
            if info["default"]:
                fail(node, "%s: statement after the default tier" % rel)
            if not ladder_if(node) and len(node["inner"]) != 3:
                fail(node, "%s: tier branch neither returns nor has an else" % rel)
            if "ladder" not in info["steps"]:
                info["steps"].append("ladder")
        elif tier_call(c):
            info["default"] = tier_call(c)
            if "ladder" not in info["steps"]:
                info["steps"].append("ladder")
        else:
            fail(node, "%s: %s(): statement not understood: %s" % (rel, iname, c[:200]))
    if "req_mask" not in info:
        raise T7Error("%s: %s(): no CPU-flag check" % (rel, iname))
    if not info["default"]:
        raise T7Error("%s: no default tier" % rel)
    # public init: internal(state, 1) then self test
    pub = "init_mb_mgr_%s" % arch
    if pub not in fns:
        raise T7Error("%s: %s() not found" % (rel, pub))
    pc = canon(body_of(fns[pub]))
    tail = "(if (! (call self_test state)) (call imb_set_errno state IMB_ERR_SELFTEST))}"
    plain = "{(call %s state 1); " % iname + tail
    guarded = "{(call %s state 1); (if (|| (! state) (-> state imb_errno)) (return)); " % iname + tail
    guarded2 = "{(call %s state 1); (if (&& state (! (-> state imb_errno))) {%s})}" % (iname, tail[:-1])
    guarded3 = "{(call %s state 1); (if (&& state (! (-> state imb_errno))) %s)}" % (iname, tail[:-1])
    if pc == plain:
        info["guard"] = False      # self test runs whatever the internal init did
    elif pc in (guarded, guarded2, guarded3):
        info["guard"] = True       # self test skipped when the internal init left an error code
    else:
        raise T7Error("%s: %s() is not `internal(state, 1); [if (state == NULL || state->imb_errno != 0) return;] "
                      "if (!self_test(state)) errno = SELFTEST`: %s" % (rel, pub, pc[:300]))
    return info


# ----------------------------------------------------------------------------------------------
# alloc.c

def src_text_at(path, off, n=200):
    return open(path, "rb").read()[off:off + n].decode(errors="replace")


def parse_alloc(lay, K):
    rel = "x86_64/alloc.c"
    fns = ast_functions(rel, want_vars=("ooo_mgr_table",))
    tab = fns.get("var:ooo_mgr_table")
    if not tab:
        raise T7Error("alloc.c: ooo_mgr_table not found")
    init = [c for c in tab["inner"] if c.get("kind") == "InitListExpr"]
    if len(init) != 1:
        fail(tab, "ooo_mgr_table: initializer not found")
    src = os.path.join(REPO, "lib", rel)
    table = []
    for e in init[0]["inner"]:
        if e.get("kind") != "InitListExpr" or len(e["inner"]) != 3:
            fail(e, "ooo_mgr_table: entry is not a 3-field initializer")
        kinds = [strip(x).get("kind") for x in e["inner"]]
        if kinds[0] != "OffsetOfExpr" or kinds[2] != "OffsetOfExpr":
            fail(e, "ooo_mgr_table: entry fields are not offsetof / aligned sizeof / offsetof")
        b = strip(e["inner"][0])["range"]["begin"]
        ex = b.get("expansionLoc", b)
        if os.path.realpath(ex.get("file", src)) != os.path.realpath(src):
            fail(e, "ooo_mgr_table: entry not spelled in alloc.c")
        txt = src_text_at(src, ex["offset"])
        m = re.match(r"^OOO_INFO\(\s*(\w+)\s*,\s*(\w+)\s*\)", txt)
        if not m:
            fail(e, "ooo_mgr_table: entry is not an OOO_INFO(field, type) invocation: %r" % txt[:60])
        table.append((m.group(1), m.group(2)))
    # numbers from the layout; cross-checked against the compiled table below
    mgr = {l["path"]: l for l in lay["IMB_MGR"]["leaves"]}
    rows = []
    for f, t in table:
        if f not in mgr or mgr[f]["kind"] != "ptr":
            raise T7Error("ooo_mgr_table: %s is not a pointer field of IMB_MGR" % f)
        if t not in lay:
            raise T7Error("ooo_mgr_table: unknown struct %s" % t)
        rb = [l for l in lay[t]["leaves"] if l["path"] == "road_block"]
        if len(rb) != 1:
            raise T7Error("%s has no road_block" % t)
        rows.append(dict(field=f, stype=t, ptr_off=mgr[f]["off"], asize=(lay[t]["size"] + 63) & ~63, rb_off=rb[0]["off"]))
    # --- imb_set_pointers_mb_mgr
    sp = fns.get("imb_set_pointers_mb_mgr")
    if not sp:
        raise T7Error("alloc.c: imb_set_pointers_mb_mgr not found")
    env = {}
    steps = []
    st = stmts(body_of(sp))
    szmgr = lay["IMB_MGR"]["size"]
    first_off = None
    NF.update(on=True, fns=fns, written=written_names(sp), depth=0, loaded=[], stale=False)
    RENAME.clear()

    def arms_of(node):
        """[(enumerator, arch, k)] of `switch (used_arch) { case K: init_K_internal(mem_ptr, k); break; ... default: break; }`
        or of the equivalent chain `if (used_arch == K) init..; else if ...` without a final else that does anything"""
        cases = []
        if node.get("kind") == "SwitchStmt":
            if canon(node["inner"][0]) != "(-> mem_ptr used_arch)":
                fail(node, "switch is not on used_arch")
            body = stmts(node["inner"][1])
            j = 0
            while j < len(body):
                cs = body[j]
                if cs.get("kind") == "CaseStmt":
                    m2 = re.match(r"^\(case (\w+) \(call init_mb_mgr_(\w+)_internal mem_ptr (\d+)\)\)$", canon(cs))
                    if not m2 or j + 1 >= len(body) or body[j + 1].get("kind") != "BreakStmt":
                        fail(cs, "imb_set_pointers_mb_mgr: case not understood: " + canon(cs)[:200])
                    cases.append((m2.group(1), m2.group(2), int(m2.group(3))))
                    j += 2
                elif cs.get("kind") == "DefaultStmt":
                    if canon(cs) != "(default BreakStmt)":
                        fail(cs, "default case does something")
                    j += 1
                else:
                    fail(cs, "imb_set_pointers_mb_mgr: unexpected statement in switch")
            return cases
        cur = node
        while cur is not None:
            if cur.get("kind") != "IfStmt":
                fail(cur, "imb_set_pointers_mb_mgr: re-attach dispatch is neither a switch nor an if-chain")
            cnd, a, b = cur["inner"][0], cur["inner"][1], cur["inner"][2] if len(cur["inner"]) > 2 else None
            mc = re.match(r"^\(== \(-> mem_ptr used_arch\) (\w+)\)$", canon(cnd))
            body = nf_block(stmts(a) if a.get("kind") == "CompoundStmt" else [a])
            m2 = re.match(r"^\(call init_mb_mgr_(\w+)_internal mem_ptr (\d+)\)$", body[0]) if len(body) == 1 else None
            if not mc or not m2:
                fail(cur, "imb_set_pointers_mb_mgr: arm of the re-attach dispatch not understood: " + canon(cur)[:200])
            cases.append((mc.group(1), m2.group(1), int(m2.group(2))))
            cur = b
        return cases

    try:
        for s, c in nf_items(st):
            if c == "(if (! mem_ptr) {(call imb_set_errno mem_ptr 12); (return 0)})":
                continue          # NULL argument: outside the model
            if c in ("(decl mem_size=(call imb_get_mb_mgr_size))", "(decl i)"):
                continue
            m = re.match(r"^\(decl free_ptr=\(\+ mem_ptr \(& \(\+ \(sizeof (struct IMB_MGR|IMB_MGR)\) (\d+)\) (-?\d+)\)\)\)$", c)
            if m:
                first_off = (szmgr + int(m.group(2))) & int(m.group(3))
                continue
            if s.get("kind") == "IfStmt" and canon(if_parts(s)[0]) == "reset_mgr":
                _, th, el = if_parts(s)
                if el is None or canon(th) not in ("{(call memset mem_ptr 0 mem_size)}", "(call memset mem_ptr 0 mem_size)"):
                    fail(s, "imb_set_pointers_mb_mgr: reset branch not understood: " + canon(th)[:200])
                cases, nd = [], 0
                for dnode, _ in nf_items(stmts(el) if el.get("kind") == "CompoundStmt" else [el]):
                    nd += 1          # (looked at while the locals read just before it are still substituted)
                    for (en, arch, k) in arms_of(dnode):
                        if en not in K:
                            fail(s, "unknown arch enumerator " + en)
                        cases.append((K[en], arch, k))
                if nd != 1:
                    fail(s, "imb_set_pointers_mb_mgr: re-attach branch not understood")
                steps.append(("if_reset", cases))
                continue
            if c == "(call imb_set_errno mem_ptr 0)":
                steps.append(("errno0",)); continue
            if c == "(= (-> mem_ptr flags) flags)":
                steps.append(("flags",)); continue
            if c == "(= (-> mem_ptr features) (call cpu_feature_adjust flags (call cpu_feature_detect)))":
                steps.append(("features",)); continue
            if c.startswith("(for (= i 0) _ (< i "):
                want = "{(= (* (+ mem_ptr (. ([] ooo_mgr_table i) ooo_ptr_offset))) free_ptr); (= free_ptr (+ free_ptr (. ([] ooo_mgr_table i) ooo_aligned_size)))}"
                body = canon(s["inner"][4])
                if body != want or "(post++ i)" not in c:
                    fail(s, "imb_set_pointers_mb_mgr: pointer loop not understood: " + body[:300])
                steps.append(("ptrs",)); continue
            if c == "(call set_ooo_mgr_road_block mem_ptr)":
                steps.append(("roadblocks",)); continue
            if c == "(return mem_ptr)":
                continue
            fail(s, "imb_set_pointers_mb_mgr: statement not understood: " + c[:300])
    finally:
        NF["on"] = False
        RENAME.clear()
    if first_off is None:
        raise T7Error("imb_set_pointers_mb_mgr: free_ptr initialisation not found")
    # the road-block loop: normal form of set_ooo_mgr_road_block() (helpers inlined, locals substituted)
    got = nf_of(fns["set_ooo_mgr_road_block"], fns) if "set_ooo_mgr_road_block" in fns else ""
    want = "{(= (* (+ (* (+ mgr (. ([] ooo_mgr_table n) ooo_ptr_offset))) (. ([] ooo_mgr_table n) road_block_offset))) %d)}" % 0xDEADCAFEDEADCAFE
    DIM = "(/ (sizeof ooo_mgr_table) (sizeof ([] ooo_mgr_table 0)))"      # IMB_DIM(ooo_mgr_table): every entry
    pre = "{(decl n); (for (= n 0) _ (< n %s) (post++ n) " % DIM
    if not (got.startswith(pre) and got[len(pre):] == want + ")}"):
        raise T7Error("alloc.c: set_ooo_mgr_road_block() has an unexpected body: %s" % got[:400])
    # imb_get_mb_mgr_size(): sizeof(IMB_MGR) + sum of all aligned sizes + slack (the sum taken in either direction)
    got = nf_of(fns["imb_get_mb_mgr_size"], fns) if "imb_get_mb_mgr_size" in fns else ""
    m = re.search(r"\(return \(\+ \(\+ \(sizeof (?:struct )?IMB_MGR\) ooo_total_size\) (\d+)\)\)", got)
    acc = "(= ooo_total_size (+ ooo_total_size (. ([] ooo_mgr_table i) ooo_aligned_size)))"
    up = "(for (= i 0) _ (< i %s) (post++ i) %s)" % (DIM, acc)
    down = "(decl i=%s); (while (> i 0) {(post-- i); %s})" % (DIM, acc)
    if not m or not (up in got or down in got):
        raise T7Error("alloc.c: imb_get_mb_mgr_size() has an unexpected body: %s" % got[:400])
    slack = int(m.group(1))
    return rows, steps, first_off, slack


def read_compiled_table(n):
    so = os.path.join(BUILD, "lib", "lib", "libIPSec_MB.so")
    out = subprocess.run(["nm", "-S", so], stdout=subprocess.PIPE, text=True, check=True).stdout
    m = re.search(r"^([0-9a-f]+) ([0-9a-f]+) \w ooo_mgr_table$", out, re.M)
    if not m:
        raise T7Error("ooo_mgr_table symbol not found in the rebuilt library")
    addr, size = int(m.group(1), 16), int(m.group(2), 16)
    data = open(so, "rb").read()
    if data[:4] != b"\x7fELF" or data[4] != 2:
        raise T7Error("not an ELF64 file")
    phoff, = struct.unpack_from("<Q", data, 32)
    phentsize, phnum = struct.unpack_from("<HH", data, 54)
    for i in range(phnum):
        p_type, p_flags, p_off, p_vaddr, p_paddr, p_filesz, p_memsz, p_align = struct.unpack_from("<IIQQQQQQ", data, phoff + i * phentsize)
        if p_type == 1 and p_vaddr <= addr < p_vaddr + p_filesz:
            raw = data[p_off + addr - p_vaddr: p_off + addr - p_vaddr + size]
            if size != 24 * n:
                raise T7Error("compiled ooo_mgr_table has %d bytes, expected %d entries of 24" % (size, n))
            return [struct.unpack_from("<QQQ", raw, 24 * k) for k in range(n)]
    raise T7Error("ooo_mgr_table not in a loadable segment")


# ----------------------------------------------------------------------------------------------
# cpu_feature_adjust

def parse_adjust(K):
    fns = ast_functions("x86_64/cpu_feature.c")
    fn = fns.get("cpu_feature_adjust")
    if not fn:
        raise T7Error("cpu_feature_adjust not found")
    rules = []
    acc = None          # name of a local that collects the feature bits to clear (second accepted form)
    ret = None
    for s in stmts(body_of(fn)):
        c = canon(s)
        m = re.match(r"^\(if \(& flags (\d+)\) \(&= features (-?\d+)\)\)$", c)
        if m and acc is None:
            rules.append((int(m.group(1)), (~int(m.group(2))) & 0xFFFFFFFFFFFFFFFF))
            continue
        m = re.match(r"^\(decl (\w+)=0\)$", c)
        if m and acc is None and not rules:
            acc = m.group(1)
            continue
        m = re.match(r"^\(if \(& flags (\d+)\) \(\|= (\w+) (\d+)\)\)$", c)
        if m and acc is not None and m.group(2) == acc:
            rules.append((int(m.group(1)), int(m.group(3))))
            continue
        if c == "(return features)" and acc is None:
            ret = c
            continue
        if acc is not None and c == "(return (& features (~ %s)))" % acc:
            ret = c
            continue
        fail(s, "cpu_feature_adjust: statement not understood: " + c[:200])
    if ret is None:
        raise T7Error("cpu_feature_adjust: no return of the adjusted features")
    # clearing bits commutes: the rules are listed by flag bit so that the order of the source statements does not matter
    rules.sort()
    return rules


# ----------------------------------------------------------------------------------------------
# ooo_mgr_reset.c bodies

class Probe:
    def __init__(self):
        self.exprs = []

    def add(self, cexpr):
        self.exprs.append(cexpr)
        return len(self.exprs) - 1

    def run(self):
        flags, cc = flags_for("x86_64/ooo_mgr_reset.c")
        src = os.path.join(GEN, "t7_probe.c")
        L = ['#include <stdio.h>', '#include <stddef.h>', '#include <stdint.h>', '#include "intel-ipsec-mb.h"', '#include "include/ipsec_ooo_mgr.h"',
             'int main(void){']
        for i, e in enumerate(self.exprs):
            L.append('printf("%%llu\\n", (unsigned long long)(%s));' % e)
        L.append("return 0;}")
        open(src, "w").write("\n".join(L))
        outs = []
        for comp in (cc, "clang"):
            exe = os.path.join(GEN, "t7_probe_" + os.path.basename(comp))
            p = subprocess.run([comp] + [f for f in flags if not f.startswith("-std")] + ["-w", "-o", exe, src], stderr=subprocess.PIPE, text=True)
            if p.returncode != 0:
                raise T7Error("reset probe failed to compile with %s:\n%s" % (comp, p.stderr[-3000:]))
            outs.append(subprocess.run([exe], stdout=subprocess.PIPE, text=True, check=True).stdout)
        if outs[0] != outs[1]:
            raise T7Error("reset probe: %s and clang disagree" % cc)
        return [int(x) for x in outs[0].split()]


def render(n, T, idx, consts):
    """C text of an expression over p_mgr (as (T*)0) with loop index `idx`"""
    k = n.get("kind")
    if k in ("ImplicitCastExpr", "ParenExpr", "ConstantExpr"):
        return render(n["inner"][0], T, idx, consts)
    if k == "CStyleCastExpr":
        fail(n, "explicit cast inside a reset function")
    v = fold(n)
    if v is not None:
        return "%dULL" % v if v >= 0 else "(%d)" % v
    if k == "DeclRefExpr":
        nm = n["referencedDecl"]["name"]
        if nm == "p_mgr":
            return "((%s *)0)" % T
        if nm == "i":
            if idx is None:
                fail(n, "loop index used outside a loop")
            return "%dULL" % idx
        if nm in consts:
            cv = consts[nm]
            return "(%s)" % (cv if isinstance(cv, str) else render(cv, T, idx, consts))
        fail(n, "reference to %s inside a reset function" % nm)
    if k == "MemberExpr":
        return "%s%s%s" % (render(n["inner"][0], T, idx, consts), "->" if n.get("isArrow") else ".", n["name"])
    if k == "ArraySubscriptExpr":
        return "%s[%s]" % (render(n["inner"][0], T, idx, consts), render(n["inner"][1], T, idx, consts))
    if k == "UnaryOperator" and n["opcode"] == "&":
        return "(&%s)" % render(n["inner"][0], T, idx, consts)
    if k == "BinaryOperator" and n["opcode"] in ("+", "-", "*"):
        return "(%s %s %s)" % (render(n["inner"][0], T, idx, consts), n["opcode"], render(n["inner"][1], T, idx, consts))
    if k == "UnaryExprOrTypeTraitExpr" and n["name"] == "sizeof":
        if n.get("inner"):
            return "sizeof(%s)" % render(n["inner"][0], T, idx, consts)
        return "sizeof(%s)" % n["argType"]["qualType"]
    if k == "OffsetOfExpr":
        b = n["range"]["begin"]
        ex = b.get("expansionLoc", b)
        txt = src_text_at(ex["file"] if "file" in ex else os.path.join(REPO, "lib/x86_64/ooo_mgr_reset.c"), ex["offset"])
        m = re.match(r"^offsetof\(\s*(\w+)\s*,\s*([\w.\[\]]+)\s*\)", txt)
        if not m:
            fail(n, "offsetof not spelled as offsetof(T, field): %r" % txt[:50])
        return "offsetof(%s, %s)" % (m.group(1), m.group(2))
    fail(n, "expression not handled in a reset function")


def what_of(n):
    """short field path of an lvalue, for messages"""
    c = canon(n)
    c = re.sub(r"\(-> p_mgr (\w+)\)", r"\1", c)
    for _ in range(4):
        c = re.sub(r"\(\[\] ([^()]+|\([^()]*\)) ([^()]+)\)", r"\1[\2]", c)
        c = re.sub(r"\(\. ([^()]+) (\w+)\)", r"\1.\2", c)
    return c.replace("(& ", "&").replace(")", "")[:60]


def parse_reset_fn(fn, probe, src_file):
    st = stmts(body_of(fn))
    c0 = canon(st[0])
    m = re.match(r"^\(decl p_mgr=p_ooo_mgr\)$", c0)
    if not m:
        fail(st[0], "%s: first statement is not `T *p_mgr = p_ooo_mgr`" % fn["name"])
    vd = st[0]["inner"][0]
    T = vd["type"]["qualType"].replace("*", "").strip()
    consts = {}

    def tr(slist, idx_in_loop, base=0, fixed=None):
        """idx_in_loop: inside `for i over the lanes` (stores are probed for lane 0 and lane 1: i = base and base + 1);
        fixed: inside an unrolled constant-bound loop, the value of i"""
        out = []
        i0 = fixed if fixed is not None else (base if idx_in_loop else None)
        for s in slist:
            k = s.get("kind")
            c = canon(s)
            if k == "DeclStmt":
                if c == "(decl i)":
                    continue
                vd2 = s["inner"][0]
                if len(s["inner"]) == 1 and vd2.get("kind") == "VarDecl" and "const" in vd2["type"]["qualType"] and vd2.get("inner"):
                    # constant local (possibly a const pointer into the structure): rendered where it is used
                    consts[vd2["name"]] = [x for x in vd2["inner"] if x.get("kind") != "FullComment"][0]
                    continue
                fail(s, "%s: declaration not understood: %s" % (fn["name"], c[:200]))
            if k == "CallExpr":
                a = s["inner"]
                if canon(a[0]) != "memset" or len(a) != 4:
                    fail(s, "%s: call of something other than memset: %s" % (fn["name"], c[:200]))
                byte = fold(a[2])
                if byte is None or not 0 <= byte <= 255:
                    fail(s, "%s: memset value is not a byte constant" % fn["name"])
                if idx_in_loop or fixed is not None:
                    fail(s, "%s: memset inside a loop" % fn["name"])
                dst = render(a[1], T, None, consts)
                out.append(["memset", what_of(a[1]), probe.add("(size_t)(uintptr_t)(%s)" % dst), probe.add(render(a[3], T, None, consts)), byte])
                continue
            if k == "BinaryOperator" and s["opcode"] == "=":
                lhs, rhs = s["inner"]
                v = fold(rhs)
                if v is None:
                    if canon(rhs) != "num_lanes":
                        fail(s, "%s: stored value is neither a constant nor num_lanes: %s" % (fn["name"], canon(rhs)[:100]))
                    val = "lanes"
                else:
                    val = v
                o0 = probe.add("(size_t)(uintptr_t)&(%s)" % render(lhs, T, i0, consts))
                o1 = probe.add("(size_t)(uintptr_t)&(%s)" % render(lhs, T, base + 1, consts)) if idx_in_loop else None
                w = probe.add("sizeof(%s)" % render(lhs, T, i0, consts))
                out.append(["store", what_of(lhs) if fixed is None else "%s@i=%d" % (what_of(lhs), fixed), o0, o1, w, val])
                continue
            if k == "ForStmt":
                if idx_in_loop or fixed is not None:
                    fail(s, "%s: nested loop" % fn["name"])
                inner = s["inner"]
                hdr = (canon(inner[0]) if inner[0] else "_", canon(inner[2]) if inner[2] else "_", canon(inner[3]) if inner[3] else "_")
                body = stmts(inner[4]) if inner[4].get("kind") == "CompoundStmt" else [inner[4]]
                if inner[1]:
                    fail(s, "%s: loop with a condition variable" % fn["name"])
                if hdr in (("(= i 0)", "(< i num_lanes)", "(post++ i)"), ("(= i 0)", "(< i num_lanes)", "(++ i)")):
                    out.append(["for", tr(body, True)])
                    continue
                if hdr in (("(= i num_lanes)", "(> i 0)", "(post-- i)"), ("(= i num_lanes)", "(> i 0)", "(-- i)")):
                    # the lanes from the top: i runs num_lanes..1 and the body must address lane i - 1; the order of the
                    # iterations is immaterial when the bytes written by different iterations are disjoint - checked on the
                    # probed offsets in resolve()
                    out.append(["for", tr(body, True, base=1), "any-order"])
                    continue
                mlo = re.match(r"^\(= i (\d+)\)$", hdr[0])
                mhi = re.match(r"^\((<|<=) i (\d+)\)$", hdr[1])
                if mlo and mhi and hdr[2] in ("(post++ i)", "(++ i)"):
                    lo, hi = int(mlo.group(1)), int(mhi.group(2)) + (1 if mhi.group(1) == "<=" else 0)
                    if hi - lo > 64:
                        fail(s, "%s: constant loop of more than 64 iterations" % fn["name"])
                    for kk in range(lo, hi):
                        out += tr(body, False, fixed=kk)
                    continue
                fail(s, "%s: loop is neither over the lanes (0..num_lanes-1 up, num_lanes..1 down) nor over constants: %s" % (fn["name"], " ".join(hdr)))
            if k == "IfStmt":
                inner = s["inner"]
                m2 = re.match(r"^\(== num_lanes (\d+)\)$", canon(inner[0]))
                if not m2:
                    fail(s, "%s: condition is not num_lanes == constant: %s" % (fn["name"], canon(inner[0])[:100]))
                th = stmts(inner[1]) if inner[1].get("kind") == "CompoundStmt" else [inner[1]]
                el = []
                if len(inner) == 3:
                    el = stmts(inner[2]) if inner[2].get("kind") == "CompoundStmt" else [inner[2]]
                out.append(["if", int(m2.group(1)), tr(th, idx_in_loop, base, fixed), tr(el, idx_in_loop, base, fixed)])
                continue
            if k == "SwitchStmt":
                # switch (num_lanes) { case K: ...; break; ... [default: break;] }  ==  if (num_lanes == K) ... else if ...
                if canon(s["inner"][0]) != "num_lanes":
                    fail(s, "%s: switch on something other than num_lanes" % fn["name"])
                arms, cur = [], None
                for cs in stmts(s["inner"][1]):
                    ck = cs.get("kind")
                    while ck in ("CaseStmt", "DefaultStmt"):
                        if cur is not None:
                            fail(cs, "%s: case falls through" % fn["name"])
                        if ck == "CaseStmt":
                            kv = fold(cs["inner"][0])
                            if kv is None:
                                fail(cs, "%s: case label is not a constant" % fn["name"])
                            cur = [kv, []]
                            cs = cs["inner"][-1]
                        else:
                            cur = [None, []]
                            cs = cs["inner"][-1]
                        ck = cs.get("kind")
                    if cur is None:
                        fail(cs, "%s: statement before the first case" % fn["name"])
                    if ck == "BreakStmt":
                        arms.append(cur)
                        cur = None
                    elif ck == "CompoundStmt" and stmts(cs) and stmts(cs)[-1].get("kind") == "BreakStmt":
                        cur[1] += stmts(cs)[:-1]          # case K: { ...; break; }
                        arms.append(cur)
                        cur = None
                    else:
                        cur[1].append(cs)
                if cur is not None:
                    arms.append(cur)
                dflt = [a for a in arms if a[0] is None]
                if any(tr(a[1], idx_in_loop, base, fixed) for a in dflt):
                    fail(s, "%s: default case does something" % fn["name"])
                chain = []
                for kv, body in reversed([a for a in arms if a[0] is not None]):
                    chain = [["if", kv, tr(body, idx_in_loop, base, fixed), chain]]
                out += chain
                continue
            if k == "CompoundStmt":
                out += tr(stmts(s), idx_in_loop, base, fixed)
                continue
            if k == "DoStmt" and c in ("(do {} 0)",):
                continue   # IMB_ASSERT compiled out
            fail(s, "%s: statement not understood: %s" % (fn["name"], c[:200]))
        return out

    return T, tr(st[1:], False)


def resolve(body, nums):
    out = []
    for s in body:
        if s[0] == "memset":
            out.append(dict(op="memset", what=s[1], off=nums[s[2]], len=nums[s[3]], byte=s[4]))
        elif s[0] == "store":
            off = nums[s[2]]
            stride = nums[s[3]] - off if s[3] is not None else 0
            out.append(dict(op="store", what=s[1], off=off, stride=stride, width=nums[s[4]], val=s[5]))
        elif s[0] == "for":
            body = resolve(s[1], nums)
            if len(s) > 2:
                # iterations run in another order than 0..n-1: bytes written by different iterations must not overlap
                st_ = [b for b in body if b["op"] == "store"]
                if len(st_) != len(body):
                    raise T7Error("reset loop running from the top contains something other than stores")
                for a_ in st_:
                    for b_ in st_:
                        for d in range(1, 64):
                            lo_a, lo_b = a_["off"], b_["off"] + d * b_["stride"]
                            if a_["stride"] != b_["stride"] or (lo_a < lo_b + b_["width"] and lo_b < lo_a + a_["width"]):
                                raise T7Error("reset loop running from the top: iterations overlap (%s / %s)" % (a_["what"], b_["what"]))
            out.append(dict(op="for", body=body))
        elif s[0] == "if":
            out.append(dict(op="if", k=s[1], th=resolve(s[2], nums), el=resolve(s[3], nums)))
    return out


def parse_resets():
    rel = "x86_64/ooo_mgr_reset.c"
    fns = ast_functions(rel)
    probe = Probe()
    raw = {}
    for name, fn in fns.items():
        if not re.match(r"^ooo_mgr_\w+_reset$", name):
            raise T7Error("ooo_mgr_reset.c: unexpected function %s" % name)
        ps = [c for c in fn["inner"] if c.get("kind") == "ParmVarDecl"]
        if [p["name"] for p in ps] != ["p_ooo_mgr", "num_lanes"]:
            fail(fn, "%s: unexpected parameters" % name)
        raw[name] = parse_reset_fn(fn, probe, rel)
    nums = probe.run()
    return {name: dict(stype=T, body=resolve(body, nums)) for name, (T, body) in raw.items()}


# ----------------------------------------------------------------------------------------------
# output

def q(s):
    return '"%s"' % s


def coq_body(body, ind=4):
    rows = []
    pad = " " * ind
    for s in body:
        if s["op"] == "memset":
            rows.append('%sRMemset %s %d %d %d' % (pad, q(s["what"]), s["off"], s["len"], s["byte"]))
        elif s["op"] == "store":
            v = "VLanes" if s["val"] == "lanes" else "(VConst %d)" % (s["val"] & ((1 << (8 * s["width"])) - 1))
            rows.append('%sRStore %s %d %d %d %s' % (pad, q(s["what"]), s["off"], s["stride"], s["width"], v))
        elif s["op"] == "for":
            rows.append('%sRFor [\n%s\n%s]' % (pad, coq_body(s["body"], ind + 2), pad))
        elif s["op"] == "if":
            rows.append('%sRIf %d [\n%s\n%s] [\n%s\n%s]' % (pad, s["k"], coq_body(s["th"], ind + 2), pad, coq_body(s["el"], ind + 2), pad))
    return ";\n".join(rows)


def emit_v(K, variants, archs, table, steps, first_off, slack, adjust, resets, lay):
    L = ["(* GENERATED by translators/t7_reset.py — do not edit.  Sources: lib/*/mb_mgr_*_t*.c, lib/*/mb_mgr_{sse,avx2,avx512}.c,",
         "   lib/x86_64/alloc.c, lib/x86_64/ooo_mgr_reset.c, lib/x86_64/cpu_feature.c (clang JSON AST, real compile flags). *)",
         "From Coq Require Import NArith ZArith List String.", "Import ListNotations.", "Local Open Scope N_scope.", "Local Open Scope string_scope.", ""]
    for k in sorted(K):
        L.append("Definition %s : N := %d." % (k, K[k]))
    L += ["", "(* ---- ooo_mgr_reset.c ---- *)",
          "Inductive rval := VConst (n : N) | VLanes.",
          "Inductive rstmt :=",
          "| RMemset (what : string) (off len byte : N)                    (* memset(p + off, byte, len) *)",
          "| RStore (what : string) (off stride width : N) (v : rval)      (* width-byte little-endian store at off + i*stride *)",
          "| RFor (body : list rstmt)                                      (* for (i = 0; i < num_lanes; i++) *)",
          "| RIf (k : N) (th el : list rstmt).                             (* if (num_lanes == k) ... else ... *)",
          "Record reset_fn := mkrfn { rf_name : string; rf_struct : string; rf_body : list rstmt }.", ""]
    for name, r in resets.items():
        L.append("Definition body_%s : list rstmt := [\n%s\n]." % (name, coq_body(r["body"])))
    L.append("Definition reset_fns : list reset_fn := [")
    L.append(";\n".join('  mkrfn %s %s body_%s' % (q(n), q(r["stype"]), n) for n, r in resets.items()))
    L.append("].")
    L += ["", "(* ---- alloc.c ---- *)",
          "Record ooo_entry := mkooo { oe_field : string; oe_struct : string; oe_ptr_off : N; oe_asize : N; oe_rb_off : N }.",
          "Definition ooo_mgr_table : list ooo_entry := ["]
    L.append(";\n".join('  mkooo %s %s %d %d %d' % (q(r["field"]), q(r["stype"]), r["ptr_off"], r["asize"], r["rb_off"]) for r in table))
    L.append("].")
    L.append("Definition SIZEOF_IMB_MGR_N : N := %d." % lay["IMB_MGR"]["size"])
    L.append("Definition first_ooo_off : N := %d.   (* ALIGN(sizeof(IMB_MGR), ALIGNMENT) *)" % first_off)
    L.append("Definition mgr_size_slack : N := %d.  (* imb_get_mb_mgr_size() = sizeof(IMB_MGR) + sum(aligned sizes) + this *)" % slack)
    L.append("Definition OOO_ROAD_BLOCK : N := %d." % 0xDEADCAFEDEADCAFE)
    L += ["(* imb_set_pointers_mb_mgr(), statements in source order *)",
          "Inductive sp_step :=",
          "| SpIfReset (cases : list (N * string * N))   (* reset_mgr ? memset(all, 0) : switch (used_arch) { case a: init_mb_mgr_<s>_internal(ptr, k) } *)",
          "| SpErrno0 | SpFlags | SpFeatures | SpPtrs | SpRoadBlocks.",
          "Definition set_pointers_steps : list sp_step := ["]
    rows = []
    for s in steps:
        if s[0] == "if_reset":
            rows.append("  SpIfReset [%s]" % "; ".join('(%d, %s, %d)' % (a, q(n), k) for a, n, k in s[1]))
        else:
            rows.append("  " + {"errno0": "SpErrno0", "flags": "SpFlags", "features": "SpFeatures", "ptrs": "SpPtrs", "roadblocks": "SpRoadBlocks"}[s[0]])
    L.append(";\n".join(rows))
    L.append("].")
    L += ["", "(* ---- cpu_feature_adjust(): (flag bit, feature bits cleared when the flag is set) ---- *)",
          "Definition feature_adjust_rules : list (N * N) := [%s]." % "; ".join("(%d, %d)" % r for r in adjust)]
    L += ["", "(* ---- per-arch init_mb_mgr_<arch>_internal ---- *)",
          "Inductive arch_step := AErrno0 | AFeatures | ALadder.",
          "Record arch_init := mkarch { ai_name : string; ai_req : N; ai_steps : list arch_step; ai_ladder : list (N * string); ai_default : string;",
          "  ai_guard : bool (* init_mb_mgr_<arch>() skips the self test when the internal init left an error code *) }.",
          "Definition arch_inits : list arch_init := ["]
    L.append(";\n".join('  mkarch %s %d [%s] [%s] %s' % (q(a["arch"]), a["req_mask"],
                                                         "; ".join({"errno0": "AErrno0", "features": "AFeatures", "ladder": "ALadder"}[s] for s in a["steps"]),
                                                         "; ".join("(%d, %s)" % (m, q(t)) for m, t in a["ladder"]), q(a["default"]) + (" true" if a["guard"] else " false")) for a in archs))
    L.append("].")
    L += ["", "(* ---- per-variant init_mb_mgr_<variant>_internal + reset_ooo_mgrs ---- *)",
          "Record variant := mkvar { v_name : string; v_file : string; v_req : N; v_arch : N; v_arch_type : N;",
          "  v_calls_reset_ooo : bool; v_ring_reset : list (string * Z); v_resets : list (string * string * N); v_used : list string;",
          "  v_bound : list string (* IMB_MGR function-pointer fields assigned by init_mb_mgr_<variant>_internal *) }.", ""]
    for v in variants:
        L.append("Definition variant_%s : variant := mkvar %s %s %d %d %d %s [%s] [" % (
            v["name"], q(v["name"]), q(v["file"]), v["req_mask"], v["arch"], v["arch_type"], "true" if v["reset_calls_reset_ooo"] else "false",
            "; ".join('(%s, (%d)%%Z)' % (q(f), val) for f, val in v["ring_reset"])))
        L.append(";\n".join('    (%s, %s, %d)' % (q(f), q(fn), n) for f, fn, n in v["resets"]))
        L.append("  ] [%s]\n  [%s]." % ("; ".join(q(u) for u in v["used"]), "; ".join(q(u) for u in v["bound"])))
    L.append("Definition variants : list variant := [%s]." % "; ".join("variant_" + v["name"] for v in variants))
    return "\n".join(L) + "\n"


def emit_h(variants, table, resets, lay):
    L = ["/* GENERATED by translators/t7_reset.py — do not edit */", "#ifndef GEN_RESET_H", "#define GEN_RESET_H", "#include <stdint.h>",
         "struct gr_ooo { const char *field; const char *stype; uint32_t ptr_off, asize, rb_off; };",
         "static const struct gr_ooo gr_table[] = {"]
    for r in table:
        L.append('  { "%s", "%s", %d, %d, %d },' % (r["field"], r["stype"], r["ptr_off"], r["asize"], r["rb_off"]))
    L.append("};")
    L.append("#define GR_NTABLE %d" % len(table))
    L.append("struct gr_reset { const char *field; const char *fn; unsigned lanes; };")
    L.append("struct gr_variant { const char *name; unsigned arch, arch_type; unsigned nresets; const struct gr_reset *resets; unsigned nused; const char *const *used; };")
    for v in variants:
        L.append("static const struct gr_reset gr_resets_%s[] = {" % v["name"])
        for f, fn, n in v["resets"]:
            L.append('  { "%s", "%s", %d },' % (f, fn, n))
        L.append("};")
        L.append("static const char *const gr_used_%s[] = { %s };" % (v["name"], ", ".join('"%s"' % u for u in v["used"]) or "0"))
    L.append("static const struct gr_variant gr_variants[] = {")
    for v in variants:
        L.append('  { "%s", %d, %d, %d, gr_resets_%s, %d, gr_used_%s },' % (v["name"], v["arch"], v["arch_type"], len(v["resets"]), v["name"], len(v["used"]), v["name"]))
    L.append("};")
    L.append("#define GR_NVARIANTS %d" % len(variants))
    pairs = sorted({(fn, n) for v in variants for _, fn, n in v["resets"]})
    L.append("struct gr_pair { const char *fn; const char *stype; unsigned lanes; };")
    L.append("static const struct gr_pair gr_pairs[] = {")
    for fn, n in pairs:
        L.append('  { "%s", "%s", %d },' % (fn, resets[fn]["stype"], n))
    L.append("};")
    L.append("#define GR_NPAIRS %d" % len(pairs))
    L.append("#define GR_RESET_FN_LIST(X) %s" % " ".join("X(%s)" % n for n in resets))
    L.append("#endif")
    return "\n".join(L) + "\n"


def main():
    os.makedirs(GEN, exist_ok=True)
    lay = t8_layout.main()
    K = header_consts()
    flags_probe = None
    # table first (field names needed for the 'used' scan)
    table, steps, first_off, slack = parse_alloc(lay, K)
    comp = read_compiled_table(len(table))
    for r, (a, b, c) in zip(table, comp):
        if (r["ptr_off"], r["asize"], r["rb_off"]) != (a, b, c):
            raise T7Error("self-test: ooo_mgr_table entry %s: source says (%d,%d,%d), compiled library says (%d,%d,%d)"
                          % (r["field"], r["ptr_off"], r["asize"], r["rb_off"], a, b, c))
    fields = [r["field"] for r in table]
    vfiles = compiled_variant_files()
    with concurrent.futures.ThreadPoolExecutor(max_workers=8) as ex:
        variants = list(ex.map(lambda vf: parse_variant(vf[0], vf[1], K, fields), vfiles))
        archs = list(ex.map(lambda a: parse_arch(a, K), sorted({v[0].split("_")[0] for v in vfiles}, key=["sse", "avx2", "avx512"].index)))
    adjust = parse_adjust(K)
    resets = parse_resets()
    for v in variants:
        for f, fn, n in v["resets"]:
            if fn not in resets:
                raise T7Error("%s: reset function %s is not defined in ooo_mgr_reset.c" % (v["file"], fn))
    for a in archs:
        names = {v["name"] for v in variants}
        for m, t in a["ladder"] + [(0, a["default"])]:
            if t not in names:
                raise T7Error("arch %s: tier %s is not a compiled variant" % (a["arch"], t))
    write_if_changed(OUT_V, emit_v(K, variants, archs, table, steps, first_off, slack, adjust, resets, lay))
    write_if_changed(OUT_H, emit_h(variants, table, resets, lay))
    info = dict(K=K, variants=variants, archs=archs, table=table, steps=steps, first_off=first_off, slack=slack, adjust=adjust, resets=resets)
    json.dump(info, open(os.path.join(GEN, "gen_reset.json"), "w"), indent=1)
    return info


if __name__ == "__main__":
    try:
        r = main()
    except (T7Error, t8_layout.T8Error) as e:
        print("T7 ERROR: %s" % e, file=sys.stderr)
        sys.exit(2)
    print("GenReset.v: %d variants (%s), %d table entries, %d reset functions, %d distinct (fn, lanes) pairs" % (
        len(r["variants"]), ",".join(v["name"] for v in r["variants"]), len(r["table"]), len(r["resets"]),
        len({(fn, n) for v in r["variants"] for _, fn, n in v["resets"]})))
    for v in r["variants"]:
        nr = {f for f, _, _ in v["resets"]}
        print("  %-10s resets %d, used %d, used-but-not-reset %s, ring_reset %s" % (v["name"], len(nr), len(v["used"]),
              [u for u in v["used"] if u not in nr], v["ring_reset"]))
