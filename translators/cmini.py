"""A tiny C-subset reader used by translators that turn a small C function into a Gallina term.

Statements : { ... }   if (c) S [else S]   return [e];   lhs = e;   [const] int|unsigned x = e;   e;
Expressions: identifiers, integer literals, NULL, p->f, ! - (unary), * / + - < <= > >= == != && ||, (e), (type) e
Anything else raises CMiniError (the translator then fails: the source is outside the translated fragment)."""
import re


class CMiniError(RuntimeError):
    pass


TOK = re.compile(r"\s*(->|==|!=|&&|\|\||<=|>=|[A-Za-z_][A-Za-z_0-9]*|0[xX][0-9a-fA-F]+[uUlL]*|\d+[uUlL]*|[-+*/!<>=(){};,&|~?:])")
TYPES = {"int", "unsigned", "const", "volatile", "uint32_t", "uint64_t", "int32_t", "size_t", "void", "long", "char", "short"}


def tokenize(s):
    out, i = [], 0
    s = s.strip()
    while i < len(s):
        m = TOK.match(s, i)
        if not m:
            raise CMiniError("cannot tokenize at %r" % s[i:i + 30])
        out.append(m.group(1))
        i = m.end()
        while i < len(s) and s[i].isspace():
            i += 1
    return out


class P:
    def __init__(self, toks):
        self.t, self.i = toks, 0

    def peek(self, k=0):
        return self.t[self.i + k] if self.i + k < len(self.t) else None

    def eat(self, x=None):
        t = self.peek()
        if t is None or (x is not None and t != x):
            raise CMiniError("expected %r, found %r (token %d)" % (x, t, self.i))
        self.i += 1
        return t

    # ---- expressions (precedence climbing) ----
    LEVELS = [["||"], ["&&"], ["==", "!="], ["<", "<=", ">", ">="], ["+", "-"], ["*", "/"]]

    def expr(self, lvl=0):
        if lvl == len(self.LEVELS):
            return self.unary()
        a = self.expr(lvl + 1)
        while self.peek() in self.LEVELS[lvl]:
            op = self.eat()
            b = self.expr(lvl + 1)
            a = ("bin", op, a, b)
        return a

    def unary(self):
        t = self.peek()
        if t in ("!", "-"):
            self.eat()
            return ("un", t, self.unary())
        if t == "(" and self.peek(1) in TYPES:
            # cast: skip the type
            self.eat("(")
            while self.peek() != ")":
                self.eat()
            self.eat(")")
            return self.unary()
        return self.postfix()

    def postfix(self):
        t = self.eat()
        if t == "(":
            e = self.expr()
            self.eat(")")
        elif re.match(r"^(0[xX][0-9a-fA-F]+|\d+)", t):
            e = ("num", int(re.match(r"^(0[xX][0-9a-fA-F]+|\d+)", t).group(1), 0))
        elif re.match(r"^[A-Za-z_]", t):
            e = ("id", t)
        else:
            raise CMiniError("unexpected token %r in expression" % t)
        while self.peek() == "->":
            self.eat()
            e = ("arrow", e, self.eat())
        return e

    # ---- statements ----
    def stmt(self):
        t = self.peek()
        if t == "{":
            self.eat()
            b = []
            while self.peek() != "}":
                b.append(self.stmt())
            self.eat("}")
            return ("block", b)
        if t == "if":
            self.eat()
            self.eat("(")
            c = self.expr()
            self.eat(")")
            a = self.stmt()
            b = None
            if self.peek() == "else":
                self.eat()
                b = self.stmt()
            return ("if", c, a, b)
        if t == "return":
            self.eat()
            e = None if self.peek() == ";" else self.expr()
            self.eat(";")
            return ("ret", e)
        if t in TYPES:
            while self.peek() in TYPES:
                self.eat()
            name = self.eat()
            self.eat("=")
            e = self.expr()
            self.eat(";")
            return ("decl", name, e)
        e = self.expr()
        if self.peek() == "=":
            self.eat()
            r = self.expr()
            self.eat(";")
            return ("assign", e, r)
        self.eat(";")
        return ("expr", e)


def parse_body(text):
    p = P(tokenize("{" + text + "}"))
    s = p.stmt()
    if p.peek() is not None:
        raise CMiniError("trailing tokens after function body")
    return s


class Gallina:
    """turn a parsed body into a Gallina term over Z (integers) and bool (pointer non-NULL tests).
    ptrs : C pointer variable -> Gallina bool meaning "is not NULL"
    cells: C lvalue (as a tuple AST) -> Gallina variable holding its current value (assignable)
    vals : C identifier -> Gallina Z term (parameters, enumerators)"""

    def __init__(self, ptrs, cells, vals, void_result=None):
        self.ptrs, self.cells, self.vals, self.void_result = ptrs, cells, dict(vals), void_result

    def is_ptr(self, e):
        return e[0] == "id" and e[1] in self.ptrs

    def tz(self, e):
        k = e[0]
        if k == "num":
            return str(e[1])
        if e in self.cells:
            return self.cells[e]
        if k == "id":
            if e[1] in self.vals:
                return self.vals[e[1]]
            raise CMiniError("unknown identifier %s" % e[1])
        if k == "un" and e[1] == "-":
            return "(- %s)" % self.tz(e[2])
        if k == "bin" and e[1] in "+-*":
            return "(%s %s %s)" % (self.tz(e[2]), e[1], self.tz(e[3]))
        if k in ("bin", "un"):
            return "(if %s then 1 else 0)" % self.tb(e)
        raise CMiniError("unsupported expression %r" % (e,))

    def tb(self, e):
        k = e[0]
        if self.is_ptr(e):
            return self.ptrs[e[1]]
        if k == "un" and e[1] == "!":
            return "(negb %s)" % self.tb(e[2])
        if k == "bin" and e[1] in ("&&", "||"):
            return "(%s %s %s)" % ("andb" if e[1] == "&&" else "orb", self.tb(e[2]), self.tb(e[3]))
        if k == "bin" and e[1] in ("==", "!=", "<", "<=", ">", ">="):
            a, b = e[2], e[3]
            null = lambda x: x == ("id", "NULL") or x == ("num", 0)
            if self.is_ptr(a) or self.is_ptr(b):
                p, o = (a, b) if self.is_ptr(a) else (b, a)
                if not null(o) or e[1] not in ("==", "!="):
                    raise CMiniError("pointer compared with something other than NULL")
                return self.ptrs[p[1]] if e[1] == "!=" else "(negb %s)" % self.ptrs[p[1]]
            f = {"==": "Z.eqb", "<": "Z.ltb", "<=": "Z.leb", ">": "Z.gtb", ">=": "Z.geb"}
            if e[1] == "!=":
                return "(negb (Z.eqb %s %s))" % (self.tz(a), self.tz(b))
            return "(%s %s %s)" % (f[e[1]], self.tz(a), self.tz(b))
        return "(negb (Z.eqb %s 0))" % self.tz(e)

    def seq(self, stmts):
        if not stmts:
            if self.void_result is None:
                raise CMiniError("control reaches the end of a non-void function")
            return self.void_result
        s, rest = stmts[0], stmts[1:]
        k = s[0]
        if k == "block":
            return self.seq(list(s[1]) + rest)
        if k == "expr":
            return self.seq(rest)
        if k == "ret":
            if s[1] is None:
                if self.void_result is None:
                    raise CMiniError("return without a value")
                return self.void_result
            return self.tz(s[1])
        if k == "decl":
            nm = "l_" + s[1]
            val = self.tz(s[2])
            old = self.vals.get(s[1])
            self.vals[s[1]] = nm
            r = "(let %s := %s in %s)" % (nm, val, self.seq(rest))
            if old is None:
                del self.vals[s[1]]
            else:
                self.vals[s[1]] = old
            return r
        if k == "assign":
            if s[1] not in self.cells:
                raise CMiniError("assignment to an unmodelled lvalue %r" % (s[1],))
            return "(let %s := %s in %s)" % (self.cells[s[1]], self.tz(s[2]), self.seq(rest))
        if k == "if":
            a = self.seq([s[2]] + rest)
            b = self.seq(([s[3]] if s[3] is not None else []) + rest)
            return "(if %s then %s else %s)" % (self.tb(s[1]), a, b)
        raise CMiniError("unsupported statement %r" % (s,))
