#!/usr/bin/env python3
"""T4: lib/x86_64/self_test.c  ->  coq/Gen/GenSelfTest.v

Primary route : clang -Xclang -ast-dump=json of self_test.c (compile flags of the rebuilt tree).
                 * the four KAT tables (cipher_vectors, hash_vectors, aead_gcm_vectors,
                   aead_ccm_vectors) with every byte array, size field and description string,
                   in table order;
                 * the group structure: which group functions self_test_exec() calls, in order;
                   for each group function the loops (table, type string announced with START,
                   per-vector function);
                 * for each per-vector function the sequence of cipher directions submitted through
                   the job API and the position of the single CORRUPT callback.
Second route  : a C program that #includes self_test.c itself and prints the tables as the
                 compiler laid them out (enum values, sizeof()s, bytes through the pointers,
                 strings) plus the feature bits / error code / phase and type strings from the
                 public header.  Both canonical dumps must be identical.

Anything not recognised => RuntimeError (the check then follows the broken-obligation path).
The output file is rewritten only when its content changes."""
import json, os, re, sys, tempfile, hashlib

sys.path.insert(0, os.path.dirname(os.path.dirname(os.path.abspath(__file__))))
from checks import common

SRC_REL = os.path.join("lib", "x86_64", "self_test.c")

# enumerator -> constructor of Mgr/SelfTestVec.v
CIPHER_MODES = {"IMB_CIPHER_CBC": "CM_CBC", "IMB_CIPHER_CNTR": "CM_CNTR", "IMB_CIPHER_ECB": "CM_ECB",
                "IMB_CIPHER_CFB": "CM_CFB", "IMB_CIPHER_DES3": "CM_DES3",
                "IMB_CIPHER_GCM": "CM_GCM", "IMB_CIPHER_CCM": "CM_CCM"}
HASH_MODES = {"IMB_AUTH_SHA_1": "HM_SHA1", "IMB_AUTH_SHA_224": "HM_SHA224", "IMB_AUTH_SHA_256": "HM_SHA256",
              "IMB_AUTH_SHA_384": "HM_SHA384", "IMB_AUTH_SHA_512": "HM_SHA512",
              "IMB_AUTH_HMAC_SHA_1": "HM_HMAC_SHA1", "IMB_AUTH_HMAC_SHA_224": "HM_HMAC_SHA224",
              "IMB_AUTH_HMAC_SHA_256": "HM_HMAC_SHA256", "IMB_AUTH_HMAC_SHA_384": "HM_HMAC_SHA384",
              "IMB_AUTH_HMAC_SHA_512": "HM_HMAC_SHA512",
              "IMB_AUTH_AES_CMAC": "HM_CMAC128", "IMB_AUTH_AES_CMAC_256": "HM_CMAC256",
              "IMB_AUTH_AES_GMAC_128": "HM_GMAC128", "IMB_AUTH_AES_GMAC_192": "HM_GMAC192",
              "IMB_AUTH_AES_GMAC_256": "HM_GMAC256",
              "IMB_AUTH_AES_GMAC": "HM_GCM_TAG", "IMB_AUTH_AES_CCM": "HM_CCM_TAG"}
DIRS = {"IMB_DIR_ENCRYPT": "D_ENC", "IMB_DIR_DECRYPT": "D_DEC"}

# struct name -> (ordered field names, kind of each field)
#   E_C cipher enum, E_H hash enum, P pointer to uint8_t array (or NULL), Z size, S string
STRUCTS = {
    "self_test_cipher_vector": [("cipher_mode", "E_C"), ("cipher_key", "P"), ("cipher_key_size", "Z"),
                                ("cipher_iv", "P"), ("cipher_iv_size", "Z"), ("plain_text", "P"),
                                ("plain_text_size", "Z"), ("cipher_text", "P"), ("description", "S")],
    "self_test_hash_vector": [("hash_mode", "E_H"), ("hash_key", "P"), ("hash_key_size", "Z"), ("message", "P"),
                              ("message_size", "Z"), ("tag", "P"), ("tag_size", "Z"), ("hash_iv", "P"),
                              ("hash_iv_size", "Z"), ("description", "S")],
    "self_test_aead_gcm_vector": [("hash_mode", "E_H"), ("cipher_mode", "E_C"), ("cipher_key", "P"),
                                  ("cipher_key_size", "Z"), ("cipher_iv", "P"), ("cipher_iv_size", "Z"),
                                  ("aad", "P"), ("aad_size", "Z"), ("plain_text", "P"), ("plain_text_size", "Z"),
                                  ("cipher_text", "P"), ("tag", "P"), ("tag_size", "Z"), ("description", "S")],
    "self_test_aead_ccm_vector": [("hash_mode", "E_H"), ("cipher_mode", "E_C"), ("cipher_key", "P"),
                                  ("cipher_key_size", "Z"), ("cipher_nonce", "P"), ("cipher_nonce_size", "Z"),
                                  ("aad", "P"), ("aad_size", "Z"), ("plain_text", "P"), ("plain_text_size", "Z"),
                                  ("cipher_text", "P"), ("tag", "P"), ("tag_size", "Z"), ("description", "S")],
}
TABLES = {"cipher_vectors": "self_test_cipher_vector", "hash_vectors": "self_test_hash_vector",
          "aead_gcm_vectors": "self_test_aead_gcm_vector", "aead_ccm_vectors": "self_test_aead_ccm_vector"}
# which size field bounds the bytes the C code reads through each pointer field
PTR_LEN = {
    "self_test_cipher_vector": {"cipher_key": "cipher_key_size", "cipher_iv": "cipher_iv_size",
                                "plain_text": "plain_text_size", "cipher_text": "plain_text_size"},
    "self_test_hash_vector": {"hash_key": "hash_key_size", "message": "message_size", "tag": "tag_size",
                              "hash_iv": "hash_iv_size"},
    "self_test_aead_gcm_vector": {"cipher_key": "cipher_key_size", "cipher_iv": "cipher_iv_size", "aad": "aad_size",
                                  "plain_text": "plain_text_size", "cipher_text": "plain_text_size", "tag": "tag_size"},
    "self_test_aead_ccm_vector": {"cipher_key": "cipher_key_size", "cipher_nonce": "cipher_nonce_size",
                                  "aad": "aad_size", "plain_text": "plain_text_size",
                                  "cipher_text": "plain_text_size", "tag": "tag_size"},
}
VEC_FUNCS = {"self_test_cipher": "self_test_cipher_vector", "self_test_hash": "self_test_hash_vector",
             "self_test_aead_gcm": "self_test_aead_gcm_vector", "self_test_aead_ccm": "self_test_aead_ccm_vector"}


class T4Error(RuntimeError):
    pass


def fail(msg):
    raise T4Error("t4_selftest: " + msg)


def compile_flags():
    """-D/-I/-std/-m flags of self_test.c in the rebuilt tree (fallback: the defaults of the build)."""
    cc = os.path.join(common.LIBDIR, "compile_commands.json")
    flags = None
    if os.path.exists(cc):
        for e in json.load(open(cc)):
            if e.get("file", "").endswith(os.path.join("x86_64", "self_test.c")):
                toks = e["command"].split()
                flags = [t for t in toks if re.match(r"^-(D|I|std=|m)", t)]
                break
    if flags is None:
        flags = ["-DLINUX", "-DSAFE_DATA", "-DSAFE_LOOKUP", "-DSAFE_PARAM", "-std=c99", "-msse4.2"]
    # include paths always from the tree being checked
    flags = [f for f in flags if not f.startswith("-I")]
    flags += ["-I" + os.path.join(common.REPO, "lib"), "-I" + os.path.join(common.REPO, "lib", "include")]
    return flags


# ----------------------------------------------------------------------------- AST route
def strip(n):
    """drop casts / parentheses"""
    while n.get("kind") in ("ImplicitCastExpr", "ParenExpr", "CStyleCastExpr"):
        inner = n.get("inner", [])
        if len(inner) != 1:
            fail("cast/paren node with %d children" % len(inner))
        n = inner[0]
    return n


def is_null(n):
    m = n
    seen_null_cast = False
    while m.get("kind") in ("ImplicitCastExpr", "ParenExpr", "CStyleCastExpr"):
        if m.get("castKind") == "NullToPointer":
            seen_null_cast = True
        m = m["inner"][0]
    return seen_null_cast and m.get("kind") == "IntegerLiteral" and m.get("value") == "0"


def array_len(qual):
    m = re.match(r"^const uint8_t\[(\d+)\]$", qual.strip())
    if not m:
        fail("unexpected array type %r" % qual)
    return int(m.group(1))


def c_string(lit):
    v = lit["value"]
    if not (v.startswith('"') and v.endswith('"')):
        fail("unexpected string literal %r" % v)
    s = v[1:-1]
    if "\\" in s or not all(32 <= ord(c) < 127 for c in s) or '"' in s:
        fail("string literal with escapes / non-ASCII: %r" % v)
    return s


class Ast:
    def __init__(self, root):
        self.vars, self.recs, self.funcs = {}, {}, {}
        self.by_id = {}
        for n in root["inner"]:
            k, nm = n.get("kind"), n.get("name")
            if k == "VarDecl":
                self.vars[nm] = n
                self.by_id[n["id"]] = n
            elif k == "RecordDecl" and nm:
                if "inner" in n:
                    self.recs[nm] = n
            elif k == "FunctionDecl" and any(c.get("kind") == "CompoundStmt" for c in n.get("inner", [])):
                self.funcs[nm] = n

    def byte_array(self, name):
        v = self.vars.get(name)
        if v is None:
            fail("array %s not found" % name)
        n = array_len(v["type"]["qualType"])
        init = [c for c in v.get("inner", []) if c.get("kind") == "InitListExpr"]
        if len(init) != 1:
            fail("array %s: no unique initialiser list" % name)
        il = init[0]
        if "array_filler" in il:
            fail("array %s: implicit array filler not supported" % name)
        out = []
        for c in il.get("inner", []):
            c = strip(c)
            if c.get("kind") != "IntegerLiteral":
                fail("array %s: element of kind %s" % (name, c.get("kind")))
            x = int(c["value"])
            if not 0 <= x < 256:
                fail("array %s: element %d out of byte range" % (name, x))
            out.append(x)
        if len(out) != n:
            fail("array %s: %d initialisers for %d elements" % (name, len(out), n))
        return out

    def check_struct(self, sname):
        r = self.recs.get(sname)
        if r is None:
            fail("struct %s not found" % sname)
        got = [c["name"] for c in r["inner"] if c.get("kind") == "FieldDecl"]
        want = [f for f, _ in STRUCTS[sname]]
        if got != want:
            fail("struct %s fields changed: %s (expected %s)" % (sname, got, want))

    def table(self, tname):
        sname = TABLES[tname]
        self.check_struct(sname)
        v = self.vars.get(tname)
        if v is None:
            fail("table %s not found" % tname)
        m = re.match(r"^const struct %s\[(\d+)\]$" % sname, v["type"]["qualType"])
        if not m:
            fail("table %s has type %s" % (tname, v["type"]["qualType"]))
        il = [c for c in v.get("inner", []) if c.get("kind") == "InitListExpr"]
        if len(il) != 1 or "array_filler" in il[0]:
            fail("table %s: unsupported initialiser" % tname)
        rows = []
        for e in il[0].get("inner", []):
            if e.get("kind") != "InitListExpr" or "array_filler" in e:
                fail("table %s: entry is not a plain initialiser list" % tname)
            cells = e.get("inner", [])
            if len(cells) != len(STRUCTS[sname]):
                fail("table %s: entry with %d initialisers" % (tname, len(cells)))
            row = {}
            for (fname, kind), c in zip(STRUCTS[sname], cells):
                if c.get("kind") == "ImplicitValueInitExpr":
                    fail("table %s: field %s implicitly initialised" % (tname, fname))
                if kind in ("E_C", "E_H"):
                    s = strip(c)
                    if s.get("kind") != "DeclRefExpr" or s["referencedDecl"]["kind"] != "EnumConstantDecl":
                        fail("table %s.%s: not an enumerator" % (tname, fname))
                    nm = s["referencedDecl"]["name"]
                    if nm not in (CIPHER_MODES if kind == "E_C" else HASH_MODES):
                        fail("table %s.%s: unknown enumerator %s" % (tname, fname, nm))
                    row[fname] = nm
                elif kind == "P":
                    if is_null(c):
                        row[fname] = None
                    else:
                        s = strip(c)
                        if s.get("kind") != "DeclRefExpr" or s["referencedDecl"]["kind"] != "VarDecl":
                            fail("table %s.%s: pointer is not the name of an array" % (tname, fname))
                        row[fname] = self.byte_array(s["referencedDecl"]["name"])
                elif kind == "Z":
                    s = strip(c)
                    if s.get("kind") == "IntegerLiteral":
                        row[fname] = int(s["value"])
                    elif s.get("kind") == "UnaryExprOrTypeTraitExpr" and s.get("name") == "sizeof":
                        if "argType" in s:
                            row[fname] = array_len(s["argType"]["qualType"])
                        else:
                            row[fname] = array_len(strip(s["inner"][0])["type"]["qualType"])
                    else:
                        fail("table %s.%s: size is neither a literal nor sizeof(array)" % (tname, fname))
                elif kind == "S":
                    s = strip(c)
                    if s.get("kind") != "StringLiteral":
                        fail("table %s.%s: not a string literal" % (tname, fname))
                    row[fname] = c_string(s)
            rows.append(row)
        if len(rows) != int(m.group(1)):
            fail("table %s: %d entries for %s elements" % (tname, len(rows), m.group(1)))
        # the C code reads <size> bytes through each pointer: the arrays must be that long
        for i, row in enumerate(rows):
            for p, z in PTR_LEN[sname].items():
                arr = row[p]
                if arr is None:
                    if row[z] != 0:
                        fail("table %s[%d]: NULL %s with %s = %d" % (tname, i, p, z, row[z]))
                elif len(arr) < row[z]:
                    fail("table %s[%d]: %s has %d bytes but %s = %d (the C code would read past the array)"
                         % (tname, i, p, len(arr), z, row[z]))
            if row["description"] == "":
                fail("table %s[%d]: empty description" % (tname, i))
        return rows


def walk(n):
    """pre-order, source order"""
    yield n
    for c in n.get("inner", []):
        if isinstance(c, dict) and c:
            yield from walk(c)


OPAQUE = ("process_job", "make_callback")


def walk_inl(ast, n, depth=0):
    """pre-order walk that also descends, at each call of a static helper defined in self_test.c (other than the
    per-vector functions, process_job and make_callback, which the shape analysis treats as units), into the helper's
    body: code moved into a helper is read as if it were still in place"""
    yield n
    c = callee(n)
    if c is not None and c in ast.funcs and c not in OPAQUE and c not in VEC_FUNCS and not c.startswith("self_test") and depth < 4:
        for a in n.get("inner", [])[1:]:
            yield from walk_inl(ast, a, depth)
        yield from walk_inl(ast, ast.funcs[c], depth + 1)
        return
    for ch in n.get("inner", []):
        if isinstance(ch, dict) and ch:
            yield from walk_inl(ast, ch, depth)


def callee(n):
    if n.get("kind") != "CallExpr":
        return None
    f = strip(n["inner"][0])
    if f.get("kind") == "DeclRefExpr":
        return f["referencedDecl"]["name"]
    if f.get("kind") == "MemberExpr":
        return "->" + f["name"]
    return None


def string_arg(call, i):
    a = call["inner"][1 + i]
    if is_null(a):
        return None
    s = strip(a)
    return c_string(s) if s.get("kind") == "StringLiteral" else "?"


def vec_function_shape(ast, fname):
    """sequence of job-API directions and the position of the CORRUPT callback"""
    f = ast.funcs.get(fname)
    if f is None:
        fail("function %s not found" % fname)
    seq = []
    for n in walk_inl(ast, f):
        if n.get("kind") == "BinaryOperator" and n.get("opcode") == "=":
            lhs, rhs = strip(n["inner"][0]), strip(n["inner"][1])
            if lhs.get("kind") == "MemberExpr" and lhs.get("name") == "cipher_direction":
                if rhs.get("kind") != "DeclRefExpr" or rhs["referencedDecl"]["name"] not in DIRS:
                    fail("%s: cipher_direction assigned something that is not IMB_DIR_*" % fname)
                seq.append(("dir", rhs["referencedDecl"]["name"]))
        c = callee(n)
        if c == "process_job":
            seq.append(("process", None))
        elif c == "make_callback":
            ph = string_arg(n, 1)
            seq.append(("cb", ph))
    # expected shape: (dir, [cb CORRUPT only in the first], process)*
    # expected shape: segments ending in process_job(); each segment assigns the direction exactly
    # once; only the first segment has a callback, and it is the CORRUPT one
    dirs, corrupt_at, seg = [], None, []
    for tok in seq:
        if tok[0] != "process":
            seg.append(tok)
            continue
        ds = [t[1] for t in seg if t[0] == "dir"]
        cbs = [t[1] for t in seg if t[0] == "cb"]
        if len(ds) != 1:
            fail("%s: job %d submitted with %d direction assignments" % (fname, len(dirs), len(ds)))
        for ph in cbs:
            if ph != "CORRUPT" or corrupt_at is not None:
                fail("%s: unexpected callback %r" % (fname, ph))
            corrupt_at = len(dirs)
        dirs.append(ds[0])
        seg = []
    if seg:
        fail("%s: trailing %s after the last process_job()" % (fname, seg))
    if corrupt_at != 0:
        fail("%s: the CORRUPT callback is not attached to the first submitted job" % fname)
    if not dirs or dirs[0] != "IMB_DIR_ENCRYPT":
        fail("%s: first submitted job is not in the encrypt direction" % fname)
    # the corruption itself: <buf>[0] ^= 1 guarded by `make_callback(...) == 0`
    n_x = 0
    for n in walk_inl(ast, f):
        if n.get("kind") == "CompoundAssignOperator" and n.get("opcode") == "^=":
            lhs, rhs = strip(n["inner"][0]), strip(n["inner"][1])
            if lhs.get("kind") != "ArraySubscriptExpr" or strip(lhs["inner"][1]).get("value") != "0" \
                    or rhs.get("kind") != "IntegerLiteral" or rhs.get("value") != "1":
                fail("%s: corruption is not `buf[0] ^= 1`" % fname)
            n_x += 1
    if n_x != 1:
        fail("%s: %d corruption statements" % (fname, n_x))
    return dirs


def group_shape(ast, gname):
    """loops of a group function: (table, announced type, per-vector function)"""
    f = ast.funcs.get(gname)
    if f is None:
        fail("group function %s not found" % gname)
    loops = []
    for n in walk(f):
        if n.get("kind") != "ForStmt":
            continue
        table = typ = vfn = None
        phases = []
        for m in walk_inl(ast, n):
            if m.get("kind") == "VarDecl" and m.get("name") == "v":
                for r in walk(m):
                    if r.get("kind") == "DeclRefExpr" and r["referencedDecl"]["name"] in TABLES:
                        table = r["referencedDecl"]["name"]
            c = callee(m)
            if c == "make_callback":
                ph = string_arg(m, 1)
                phases.append(ph)
                if ph == "START":
                    typ = string_arg(m, 2)
                    d = strip(m["inner"][4])
                    if d.get("kind") != "MemberExpr" or d.get("name") != "description":
                        fail("%s: START callback does not announce v->description" % gname)
                elif string_arg(m, 2) is not None or string_arg(m, 3) is not None:
                    fail("%s: %s callback carries a type/description" % (gname, ph))
            elif c in VEC_FUNCS:
                vfn = c
        if table is None or typ in (None, "?") or vfn is None:
            fail("%s: loop not recognised (table=%s type=%s fn=%s)" % (gname, table, typ, vfn))
        # START comes first; FAIL and PASS are the two exclusive outcomes (their order in the source text, or whether they sit
        # in a helper, says nothing; which outcome is reported for which result is tied by the harness k20_selftest)
        if phases[:1] != ["START"] or sorted(phases[1:]) != ["FAIL", "PASS"]:
            fail("%s: loop callbacks are %s, expected START, FAIL, PASS" % (gname, phases))
        if VEC_FUNCS[vfn] != TABLES[table]:
            fail("%s: %s applied to %s" % (gname, vfn, table))
        loops.append((table, typ, vfn))
    if not loops:
        fail("%s: no vector loop" % gname)
    return loops


def exec_shape(ast):
    f = ast.funcs.get("self_test_exec")
    if f is None:
        fail("self_test_exec not found")
    order = [callee(n) for n in walk(f) if callee(n)]
    for g in order:
        if g not in ast.funcs or not g.startswith("self_test_"):
            fail("self_test_exec calls %s" % g)
    st = ast.funcs.get("self_test")
    if st is None:
        fail("self_test not found")
    calls = [callee(n) for n in walk(st) if callee(n)]
    if calls != ["self_test_exec"]:
        fail("self_test() calls %s" % calls)
    return order


def ast_route(flags):
    src = os.path.join(common.REPO, SRC_REL)
    p = common.run(["clang", "-Xclang", "-ast-dump=json", "-fsyntax-only"] + flags + [src], timeout=300)
    if p.returncode != 0:
        fail("clang failed on %s:\n%s" % (SRC_REL, p.stderr[-2000:]))
    ast = Ast(json.loads(p.stdout))
    tables = {t: ast.table(t) for t in TABLES}
    order = exec_shape(ast)
    groups = [(g, group_shape(ast, g)) for g in order]
    used = [t for _, ls in groups for (t, _, _) in ls]
    if sorted(used) != sorted(TABLES):
        fail("tables looped over %s, expected each of %s exactly once" % (used, sorted(TABLES)))
    dirs = {fn: vec_function_shape(ast, fn) for fn in VEC_FUNCS}
    return tables, groups, dirs


# ----------------------------------------------------------------------------- second route
def c_route(flags):
    """compile self_test.c into a dumper; returns (canonical table dump, constants)"""
    L = ['#include <stdio.h>', '#include "%s"' % os.path.join(common.REPO, SRC_REL),
         'volatile int imb_errno;',
         'static void hx(const char *k, const uint8_t *p, size_t n){ printf(" %s=", k); if(!p){printf("NULL");return;}'
         ' printf("#"); for(size_t i=0;i<n;i++) printf("%02x", p[i]); }',
         'int main(void){']
    for t, s in TABLES.items():
        L.append('for (unsigned i = 0; i < IMB_DIM(%s); i++) { const struct %s *v = &%s[i]; printf("%s %%u", i);' % (t, s, t, t))
        for f, k in STRUCTS[s]:
            if k in ("E_C", "E_H"):
                L.append('printf(" %s=%%d", (int) v->%s);' % (f, f))
            elif k == "Z":
                L.append('printf(" %s=%%zu", v->%s);' % (f, f))
            elif k == "S":
                L.append('printf(" %s=[%%s]", v->%s);' % (f, f))
            else:
                L.append('hx("%s", v->%s, v->%s);' % (f, f, PTR_LEN[s][f]))
        L.append('printf("\\n"); }')
    for e in list(CIPHER_MODES) + list(HASH_MODES) + list(DIRS):
        L.append('printf("ENUM %s %%d\\n", (int) %s);' % (e, e))
    for m in ["IMB_FEATURE_SELF_TEST", "IMB_FEATURE_SELF_TEST_PASS", "IMB_ERR_SELFTEST"]:
        L.append('printf("CONST %s %%llu\\n", (unsigned long long) %s);' % (m, m))
    for m in ["IMB_SELF_TEST_PHASE_START", "IMB_SELF_TEST_PHASE_PASS", "IMB_SELF_TEST_PHASE_FAIL",
              "IMB_SELF_TEST_PHASE_CORRUPT", "IMB_SELF_TEST_TYPE_KAT_CIPHER", "IMB_SELF_TEST_TYPE_KAT_AUTH",
              "IMB_SELF_TEST_TYPE_KAT_AEAD"]:
        L.append('printf("STR %s [%%s]\\n", %s);' % (m, m))
    L.append('return 0; }')
    wd = os.path.join(common.BUILD, "t4")
    os.makedirs(wd, exist_ok=True)
    c, x = os.path.join(wd, "dump_selftest.c"), os.path.join(wd, "dump_selftest")
    open(c, "w").write("\n".join(L) + "\n")
    p = common.run(["gcc", "-O0", "-w"] + flags + ["-o", x, c, "-L", common.LIBSO_DIR, "-lIPSec_MB"], timeout=300)
    if p.returncode != 0:
        fail("second route: cannot compile self_test.c into the table dumper:\n" + p.stderr[-2000:])
    p = common.run([x], env=common.lib_env(), timeout=60)
    if p.returncode != 0:
        fail("second route: table dumper failed: " + p.stderr[-500:])
    rows, enums, consts, strs = [], {}, {}, {}
    for l in p.stdout.splitlines():
        w = l.split(" ", 2)
        if w[0] == "ENUM":
            enums[w[1]] = int(w[2])
        elif w[0] == "CONST":
            consts[w[1]] = int(w[2])
        elif w[0] == "STR":
            strs[w[1]] = w[2][1:-1]
        else:
            rows.append(l)
    return rows, enums, consts, strs


def canonical_from_ast(tables, enums):
    rows = []
    for t, s in TABLES.items():
        for i, r in enumerate(tables[t]):
            parts = ["%s %d" % (t, i)]
            for f, k in STRUCTS[s]:
                v = r[f]
                if k in ("E_C", "E_H"):
                    parts.append("%s=%d" % (f, enums[v]))
                elif k == "Z":
                    parts.append("%s=%d" % (f, v))
                elif k == "S":
                    parts.append("%s=[%s]" % (f, v))
                elif v is None:
                    parts.append("%s=NULL" % f)
                else:
                    parts.append("%s=#%s" % (f, "".join("%02x" % b for b in v[:r[PTR_LEN[s][f]]])))
            rows.append(" ".join(parts))
    return rows


# ----------------------------------------------------------------------------- Coq output
def coq_bytes(b):
    if b is None:
        return "[]"
    return "[" + ";".join(str(x) for x in b) + "]"


def coq_str(s):
    return '"%s"' % s


def nat(n):
    if n > 2000:
        fail("size %d too large for a nat literal" % n)
    return "%d%%nat" % n


def emit(tables, groups, dirs, consts, strs):
    L = ["(* GENERATED by translators/t4_selftest.py from %s — do not edit. *)" % SRC_REL,
         "From Coq Require Import NArith List String.",
         "From IMB Require Import Mgr.SelfTestVec.",
         "Import ListNotations.", "Local Open Scope N_scope.", "Local Open Scope string_scope.", ""]
    L.append("Definition gen_FEATURE_SELF_TEST : N := %d." % consts["IMB_FEATURE_SELF_TEST"])
    L.append("Definition gen_FEATURE_SELF_TEST_PASS : N := %d." % consts["IMB_FEATURE_SELF_TEST_PASS"])
    L.append("Definition gen_ERR_SELFTEST : N := %d." % consts["IMB_ERR_SELFTEST"])
    for k in ["PHASE_START", "PHASE_PASS", "PHASE_FAIL", "PHASE_CORRUPT", "TYPE_KAT_CIPHER", "TYPE_KAT_AUTH", "TYPE_KAT_AEAD"]:
        L.append("Definition gen_%s : string := %s." % (k, coq_str(strs["IMB_SELF_TEST_" + k])))
    L.append("")
    def pfx(b, z):
        return coq_bytes(b)
    L.append("Definition gen_cipher_vectors : list cipher_vec := [")
    ents = []
    for r in tables["cipher_vectors"]:
        ents.append("  {| cv_mode := %s; cv_key := %s; cv_key_size := %s;\n     cv_iv := %s; cv_iv_size := %s;\n"
                    "     cv_pt := %s; cv_pt_size := %s;\n     cv_ct := %s;\n     cv_descr := %s |}"
                    % (CIPHER_MODES[r["cipher_mode"]], coq_bytes(r["cipher_key"]), nat(r["cipher_key_size"]),
                       coq_bytes(r["cipher_iv"]), nat(r["cipher_iv_size"]), coq_bytes(r["plain_text"]),
                       nat(r["plain_text_size"]), coq_bytes(r["cipher_text"]), coq_str(r["description"])))
    L.append(";\n".join(ents))
    L.append("].\n")
    L.append("Definition gen_hash_vectors : list hash_vec := [")
    ents = []
    for r in tables["hash_vectors"]:
        ents.append("  {| hv_mode := %s; hv_key := %s; hv_key_size := %s;\n     hv_msg := %s; hv_msg_size := %s;\n"
                    "     hv_tag := %s; hv_tag_size := %s;\n     hv_iv := %s; hv_iv_size := %s;\n     hv_descr := %s |}"
                    % (HASH_MODES[r["hash_mode"]], coq_bytes(r["hash_key"]), nat(r["hash_key_size"]),
                       coq_bytes(r["message"]), nat(r["message_size"]), coq_bytes(r["tag"]), nat(r["tag_size"]),
                       coq_bytes(r["hash_iv"]), nat(r["hash_iv_size"]), coq_str(r["description"])))
    L.append(";\n".join(ents))
    L.append("].\n")
    for t, ivf in (("aead_gcm_vectors", "cipher_iv"), ("aead_ccm_vectors", "cipher_nonce")):
        L.append("Definition gen_%s : list aead_vec := [" % t)
        ents = []
        for r in tables[t]:
            ents.append("  {| av_hash := %s; av_mode := %s; av_key := %s; av_key_size := %s;\n"
                        "     av_iv := %s; av_iv_size := %s;\n     av_aad := %s; av_aad_size := %s;\n"
                        "     av_pt := %s; av_pt_size := %s;\n     av_ct := %s;\n     av_tag := %s; av_tag_size := %s;\n"
                        "     av_descr := %s |}"
                        % (HASH_MODES[r["hash_mode"]], CIPHER_MODES[r["cipher_mode"]], coq_bytes(r["cipher_key"]),
                           nat(r["cipher_key_size"]), coq_bytes(r[ivf]), nat(r[ivf + "_size"]),
                           coq_bytes(r["aad"]), nat(r["aad_size"]), coq_bytes(r["plain_text"]),
                           nat(r["plain_text_size"]), coq_bytes(r["cipher_text"]), coq_bytes(r["tag"]),
                           nat(r["tag_size"]), coq_str(r["description"])))
        L.append(";\n".join(ents))
        L.append("].\n")
    L.append("(* job-API directions submitted by each per-vector function, in order; the single CORRUPT")
    L.append("   callback belongs to the first one (checked by the translator) *)")
    for fn in VEC_FUNCS:
        L.append("Definition gen_dirs_%s : list direction := [%s]." % (fn, "; ".join(DIRS[d] for d in dirs[fn])))
    L.append("")
    L.append("(* self_test_exec(): group functions in call order; each group = its loops in order:")
    L.append("   (table, type announced with START, per-vector function) *)")
    L.append("Definition gen_groups : list (string * list (table_id * string * vecfn_id)) := [")
    ents = []
    for g, loops in groups:
        ents.append("  (%s, [%s])" % (coq_str(g), "; ".join("(T_%s, %s, F_%s)" % (t, coq_str(ty), fn) for t, ty, fn in loops)))
    L.append(";\n".join(ents))
    L.append("].")
    return "\n".join(L) + "\n"


def main(verbose=False):
    flags = compile_flags()
    tables, groups, dirs = ast_route(flags)
    rows_c, enums, consts, strs = c_route(flags)
    rows_a = canonical_from_ast(tables, enums)
    if rows_a != rows_c:
        for a, c in zip(rows_a, rows_c):
            if a != c:
                fail("the two extraction routes disagree:\n AST: %s\n C  : %s" % (a[:300], c[:300]))
        fail("the two extraction routes disagree on the number of entries: %d vs %d" % (len(rows_a), len(rows_c)))
    for g, loops in groups:
        for t, ty, fn in loops:
            if ty not in (strs["IMB_SELF_TEST_TYPE_KAT_CIPHER"], strs["IMB_SELF_TEST_TYPE_KAT_AUTH"],
                          strs["IMB_SELF_TEST_TYPE_KAT_AEAD"]):
                fail("group %s announces an undocumented type string %r" % (g, ty))
    txt = emit(tables, groups, dirs, consts, strs)
    outp = os.path.join(common.COQDIR, "Gen", "GenSelfTest.v")
    changed = (not os.path.exists(outp)) or open(outp).read() != txt
    if changed:
        with open(outp + ".tmp", "w") as f:
            f.write(txt)
        os.replace(outp + ".tmp", outp)
    info = {"tables": {t: len(tables[t]) for t in TABLES},
            "descriptions": {t: [r["description"] for r in tables[t]] for t in TABLES},
            "groups": [(g, [list(l) for l in loops]) for g, loops in groups],
            "dirs": dirs, "consts": consts, "strs": strs, "changed": changed,
            "sha1": hashlib.sha1(txt.encode()).hexdigest()}
    # the ordered announcement list the harness / check use to name vectors
    order = []
    for g, loops in groups:
        for t, ty, fn in loops:
            for r in tables[t]:
                order.append((ty, r["description"]))
    info["order"] = order
    return info


if __name__ == "__main__":
    try:
        i = main()
    except T4Error as e:
        print(str(e), file=sys.stderr)
        sys.exit(2)
    print("GenSelfTest.v: %s vectors=%s changed=%s" % (i["sha1"][:10], i["tables"], i["changed"]))
