#!/usr/bin/env python3
"""T9: lib/x86_64/error.c :: imb_get_strerror()  ->  coq/Gen/GenStrerror.v

The C function has the shape

    if (errnum >= IMB_ERR_MAX) return "...";
    switch (errnum) { case K: return "..." "..."; ...  default: return strerror(errnum); }

The translator accepts exactly that shape (guards, `case <int-or-enumerator>: return <string
literals>;`, one `default: return strerror(errnum);`) and FAILS on anything else.  It also
translates imb_set_errno (lib/include/error.h) and imb_get_errno (error.c) into a checked
normal form: it verifies the statement sequence textually and emits flags the hand-written model
Mgr/Errno.v is proved against (the model is not generated; the flags make a drifting source
break the obligations)."""
import os, re, sys
sys.path.insert(0, os.path.dirname(os.path.dirname(os.path.abspath(__file__))))
from checks import common


class T9Error(RuntimeError):
    pass


def strip_comments(s):
    s = re.sub(r"/\*.*?\*/", " ", s, flags=re.S)
    return re.sub(r"//[^\n]*", " ", s)


def function_body(src, name):
    m = re.search(r"\b" + name + r"\s*\(([^)]*)\)\s*\{", src)
    if not m:
        raise T9Error("function %s not found" % name)
    i = m.end()
    depth = 1
    while depth and i < len(src):
        if src[i] == "{":
            depth += 1
        elif src[i] == "}":
            depth -= 1
        elif src[i] == '"':
            i += 1
            while src[i] != '"':
                i += 2 if src[i] == "\\" else 1
        i += 1
    if depth:
        raise T9Error("unbalanced braces in %s" % name)
    return m.group(1), src[m.end():i - 1]


STR = r'"(?:[^"\\]|\\.)*"'


def c_unescape(lit):
    s = lit[1:-1]
    out = []
    i = 0
    while i < len(s):
        if s[i] == "\\":
            c = s[i + 1]
            mp = {"n": "\n", "t": "\t", "\\": "\\", '"': '"', "'": "'", "0": "\0"}
            if c not in mp:
                raise T9Error("unsupported escape \\%s" % c)
            out.append(mp[c])
            i += 2
        else:
            out.append(s[i])
            i += 1
    return "".join(out)


def parse_strerror(body, param):
    toks = body.strip()
    guards = []
    # leading guards:  if (errnum OP CONST) return "str";
    while True:
        m = re.match(r"\s*if\s*\(\s*" + param + r"\s*(>=|>|<=|<|==)\s*([A-Za-z_0-9]+)\s*(?:([+-])\s*(\d+)\s*)?\)\s*return\s+((?:" + STR + r"\s*)+);", toks)
        if not m:
            break
        bound = m.group(2) if not m.group(3) else "(%s %s %s)" % (m.group(2), m.group(3), m.group(4))
        guards.append((m.group(1), bound, "".join(c_unescape(x) for x in re.findall(STR, m.group(5)))))
        toks = toks[m.end():]
    m = re.match(r"\s*switch\s*\(\s*" + param + r"\s*\)\s*\{(.*)\}\s*$", toks, flags=re.S)
    if not m:
        raise T9Error("imb_get_strerror: expected `switch (%s) {...}` after the guards, found: %r" % (param, toks[:80]))
    inner = m.group(1)
    cases = []
    default = None
    pos = 0
    labels = []
    while True:
        rest = inner[pos:]
        if not rest.strip():
            break
        mc = re.match(r"\s*case\s+([A-Za-z_0-9]+)\s*:", rest)
        if mc:
            labels.append(mc.group(1))
            pos += mc.end()
            continue
        md = re.match(r"\s*default\s*:", rest)
        if md:
            labels.append(None)
            pos += md.end()
            continue
        mr = re.match(r"\s*return\s+((?:" + STR + r"\s*)+);", rest)
        if mr:
            if not labels:
                raise T9Error("return without a case label (unreachable statement?)")
            s = "".join(c_unescape(x) for x in re.findall(STR, mr.group(1)))
            for lb in labels:
                if lb is None:
                    raise T9Error("default returns a literal: shape not supported")
                cases.append((lb, s))
            labels = []
            pos += mr.end()
            continue
        ms = re.match(r"\s*return\s+strerror\s*\(\s*" + param + r"\s*\)\s*;", rest)
        if ms:
            if labels != [None]:
                raise T9Error("strerror() fallback reachable from a case label: %s" % labels)
            default = "strerror"
            labels = []
            pos += ms.end()
            continue
        raise T9Error("imb_get_strerror: unsupported statement: %r" % rest.strip()[:100])
    if labels:
        raise T9Error("dangling labels %s" % labels)
    if default is None:
        raise T9Error("no default branch")
    names = [c for c, _ in cases]
    if len(set(names)) != len(names):
        raise T9Error("duplicate case label")
    return guards, cases, default


def norm(s):
    return re.sub(r"\s+", " ", s).strip()


CELLS = {("arrow", ("id", "PTR"), "imb_errno"): "field", ("id", "imb_errno"): "glob"}


def _fn_term(src, name, int_param, void):
    """translate the body of imb_set_errno / imb_get_errno (any statement form inside translators/cmini.py's fragment)
    into a Gallina term over: mgr_nonnull : bool, field glob : Z (the manager's field and the mirror) and e : Z"""
    from translators import cmini
    params, body = function_body(src, name)
    body = re.sub(r"IMB_ASSERT\s*\(.*?\)\s*;", "", body, flags=re.S)
    ps = [x.strip() for x in params.split(",")]
    pm = re.match(r"^(?:const\s+)?IMB_MGR\s*\*\s*(?:const\s+)?([A-Za-z_0-9]+)$", ps[0])
    if not pm:
        raise T9Error("%s: first parameter is not an IMB_MGR pointer: %r" % (name, ps[0]))
    ptr = pm.group(1)
    vals = {}
    if int_param:
        im = re.match(r"^(?:const\s+)?int\s+([A-Za-z_0-9]+)$", ps[1]) if len(ps) == 2 else None
        if not im:
            raise T9Error("%s: second parameter is not an int: %r" % (name, ps[1:]))
        vals[im.group(1)] = "e"
    elif len(ps) != 1:
        raise T9Error("%s: unexpected parameters %r" % (name, ps))
    cells = {(k[0], ("id", ptr), k[2]) if k[0] == "arrow" else k: v for k, v in CELLS.items()}
    try:
        G = cmini.Gallina({ptr: "mgr_nonnull"}, cells, vals, void_result="(field, glob)" if void else None)
        return G.seq([cmini.parse_body(body)])
    except cmini.CMiniError as ex:
        raise T9Error("%s: body outside the translated C fragment: %s" % (name, ex))


def coq_string(s):
    for ch in s:
        if ord(ch) < 32 or ord(ch) > 126:
            raise T9Error("non-printable character in message %r" % s)
    return '"%s"' % s.replace('"', '""')


def main(need_strerror=True):
    """need_strerror=False (C17): only the shape of imb_set_errno / imb_get_errno and the mirror's storage class matter;
    an imb_get_strerror body this translator cannot read then yields an empty table instead of an error"""
    cpath = os.path.join(common.REPO, "lib", "x86_64", "error.c")
    hpath = os.path.join(common.REPO, "lib", "include", "error.h")
    src = strip_comments(open(cpath).read())
    hdr = strip_comments(open(hpath).read())
    params, body = function_body(src, "imb_get_strerror")
    pm = re.match(r"\s*(?:const\s+)?int\s+([A-Za-z_0-9]+)\s*$", params)
    if not pm:
        raise T9Error("imb_get_strerror: unexpected parameter list %r" % params)
    try:
        guards, cases, default = parse_strerror(body, pm.group(1))
    except T9Error:
        if need_strerror:
            raise
        guards, cases, default = [], [], None
    set_term = _fn_term(hdr, "imb_set_errno", True, True)
    get_term = _fn_term(src, "imb_get_errno", False, False)
    mirror_decl = re.search(r"IMB_DLL_LOCAL\s+volatile\s+((?:__thread|_Thread_local|thread_local)\s+)?int\s+imb_errno\s*;", src)
    if not mirror_decl:
        raise T9Error("declaration of the process-wide mirror `imb_errno` not recognised")
    thread_local = bool(mirror_decl.group(1))

    def const(c):
        return c if not re.match(r"^-?\d+$", c) else ("(%s)" % c if c.startswith("-") else c)

    opmap = {">=": "Z.geb", ">": "Z.gtb", "<=": "Z.leb", "<": "Z.ltb", "==": "Z.eqb"}
    L = ["(* GENERATED by translators/t9_strerror.py from lib/x86_64/error.c (imb_get_strerror) — do not edit. *)",
         "From Coq Require Import ZArith List String.", "From IMB Require Import Gen.GenConsts.",
         "Import ListNotations.", "Local Open Scope Z_scope.", "Local Open Scope string_scope.", "",
         "(* `case K: return \"...\";` entries of the switch, in source order *)",
         "Definition strerror_cases : list (Z * string) := ["]
    L.append(";\n".join("  (%s, %s)" % (const(c), coq_string(s)) for c, s in cases))
    L.append("].")
    L.append("")
    L.append("(* guards in front of the switch: (test on errnum, message) *)")
    L.append("Definition strerror_guards : list ((Z -> bool) * string) := [")
    L.append(";\n".join("  ((fun z => %s z %s), %s)" % (opmap[o], const(c), coq_string(s)) for o, c, s in guards))
    L.append("].")
    L.append("")
    L.append("Fixpoint sw_lookup (z : Z) (l : list (Z * string)) : option string :=")
    L.append("  match l with [] => None | (k, s) :: t => if Z.eqb z k then Some s else sw_lookup z t end.")
    L.append("Fixpoint guard_lookup (z : Z) (l : list ((Z -> bool) * string)) : option string :=")
    L.append("  match l with [] => None | (g, s) :: t => if g z then Some s else guard_lookup z t end.")
    L.append("")
    L.append("(* A C string pointer is [option string] (None = NULL).  [libc_strerror] is the `default:")
    L.append("   return strerror(errnum);` branch: an oracle for the C library. *)")
    L.append("Definition imb_get_strerror (libc_strerror : Z -> option string) (errnum : Z) : option string :=")
    L.append("  match guard_lookup errnum strerror_guards with")
    L.append("  | Some s => Some s")
    L.append("  | None => match sw_lookup errnum strerror_cases with")
    L.append("            | Some s => Some s")
    L.append("            | None => libc_strerror errnum")
    L.append("            end")
    L.append("  end.")
    L.append("")
    L.append("(* imb_set_errno (lib/include/error.h) and imb_get_errno (lib/x86_64/error.c) translated statement by statement")
    L.append("   (translators/cmini.py): mgr_nonnull = the IMB_MGR pointer is not NULL, field = mgr->imb_errno, glob = the")
    L.append("   process-wide mirror, e = the code passed in; the result of the void function is the pair of cells afterwards.")
    L.append("   Proofs/ErrnoProofs.v proves them equal to the hand-written Mgr/Errno.v for all arguments. *)")
    L.append("Local Open Scope Z_scope.")
    L.append("Definition src_set_errno (mgr_nonnull : bool) (e field glob : Z) : Z * Z :=")
    L.append("  " + set_term + ".")
    L.append("Definition src_get_errno (mgr_nonnull : bool) (field glob : Z) : Z :=")
    L.append("  " + get_term + ".")
    L.append("Definition mirror_is_thread_local : bool := %s." % ("true" if thread_local else "false"))
    txt = "\n".join(L) + "\n"
    outp = os.path.join(common.COQDIR, "Gen", "GenStrerror.v")
    if not os.path.exists(outp) or open(outp).read() != txt:
        open(outp, "w").write(txt)
    return dict(guards=guards, cases=cases, thread_local=thread_local)


def selftest(d):
    """second route: compile a C program against the real header, call the real imb_get_strerror for
    every case label and compare with the translated strings"""
    import tempfile
    prog = ['#include <stdio.h>', '#include <intel-ipsec-mb.h>', 'int main(void){']
    for c, _ in d["cases"]:
        prog.append('printf("%%s\\n", imb_get_strerror(%s));' % c)
    prog.append("return 0;}")
    with tempfile.TemporaryDirectory(dir=common.BUILD) as t:
        c = os.path.join(t, "s.c"); x = os.path.join(t, "s")
        open(c, "w").write("\n".join(prog))
        common.run(["gcc", "-I", os.path.join(common.REPO, "lib"), "-o", x, c, "-L", common.LIBSO_DIR, "-lIPSec_MB"], check=True)
        out = common.run([x], env=common.lib_env(), check=True).stdout.splitlines()
    want = [s for _, s in d["cases"]]
    if out != want:
        for a, b in zip(out, want):
            if a != b:
                raise T9Error("self-test: library says %r, translation says %r" % (a, b))
        raise T9Error("self-test: %d strings from the library, %d translated" % (len(out), len(want)))


if __name__ == "__main__":
    d = main()
    if os.path.exists(os.path.join(common.LIBSO_DIR, "libIPSec_MB.so")):
        selftest(d)
    print("GenStrerror.v: %d guards, %d cases, default=strerror, thread_local_mirror=%s" % (len(d["guards"]), len(d["cases"]), d["thread_local"]))
