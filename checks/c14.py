"""C14 — descriptors come back unaltered; status and error code exact.

Proof : coq/Props/Properties_C14.v (descriptor model on the ring model, status protocol, error-code
        model, translated imb_get_strerror) over files regenerated from the current tree:
        GenConsts (t0), GenJobLayout + GenJobWrites (t14), GenStrerror (t9).
Tie   : harness/k14_desc.c — every suite of the K1 corpus (cipher-only, hash-only, chained, AEAD,
        invalid mutations) x every variant x entry points 0..3: byte-exact descriptor snapshot
        comparison by cell, status of every handed-back job, the three views of the error code
        after every API call; a battery of direct / housekeeping API calls (failing, then
        succeeding); imb_get_strerror swept over -70000..70000, INT_MIN/INT_MAX and compared with the
        translated switch.
Search: the same oracle on a larger generated set when a proof obligation or a translator breaks."""
import os, re, sys, json, time, concurrent.futures as cf
from . import common
from .common import Rng, Result, log

PID = "C14"
TOK = ["id", "cipher", "dir", "hash", "order", "key", "akey", "iv", "aiv", "aad", "msg", "coff", "clen", "hoff", "hlen",
       "tag", "inplace", "salign", "dalign", "doff", "hdst", "null", "unsafe"]
AEAD_HASH = {9, 11, 29, 32, 49, 19, 21}
ERR = {}          # name -> value (filled from t0)
ST_NAMES = {0: "BEING_PROCESSED", 1: "COMPLETED_CIPHER", 2: "COMPLETED_AUTH", 3: "COMPLETED", 4: "INVALID_ARGS",
            5: "INTERNAL_ERROR", 6: "ERROR"}


# ----------------------------------------------------------------------------- generation
def parse_item(line):
    d = {}
    for t in line.split():
        if "=" in t:
            k, v = t.split("=", 1)
            if k in TOK:
                d[k] = v
    return d


def fmt_item(d):
    return " ".join("%s=%s" % (k, d[k]) for k in TOK if k in d)


def hexlen(h):
    return 0 if h in ("-", "") else len(h) // 2


def corpus():
    p = os.path.join(common.HARNESS, "k1_selftest_cases.txt")
    out = []
    for l in open(p):
        if l.startswith("#") or not l.strip():
            continue
        d = parse_item(l)
        if "cipher" in d and "hash" in d:
            out.append(d)
    return out


def rehex(rng, h):
    n = hexlen(h)
    return "-" if n == 0 else rng.bytes(n).hex()


def gen_items(rng, tier):
    base = corpus()
    items, expect = [], {}
    nid = [100000]

    def add(d, kind, exp=None):
        d = dict(d)
        d["id"] = str(nid[0])
        nid[0] += 1
        items.append((kind, d))
        if exp is not None:
            expect[int(d["id"])] = exp
        return d

    cipher_only = [d for d in base if d["hash"] == "8" and d["cipher"] != "3"]
    hash_only = [d for d in base if d["cipher"] == "3" and d["hash"] != "8"]
    for d in base:
        kind = "cipher" if d in cipher_only else "hash" if d in hash_only else "aead/combined"
        add(d, kind)
    # chained: every cipher mode with several stand-alone hashes, both chain orders
    per = 2 if tier == "quick" else 10
    by_mode = {}
    for c in cipher_only:
        by_mode.setdefault((c["cipher"], hexlen(c["key"])), []).append(c)
    for (mode, kl), cs in sorted(by_mode.items()):
        for _ in range(per):
            c = rng.choice(cs)
            h = rng.choice(hash_only)
            d = dict(c)
            for k in ("hash", "akey", "aiv", "hoff", "hlen", "tag"):
                d[k] = h.get(k, "0")
            if hexlen(h["msg"]) > hexlen(c["msg"]):
                d["msg"] = c["msg"].replace("-", "") + h["msg"][len(c["msg"].replace("-", "")):]
            d["order"] = str(1 + rng.below(2))
            d["inplace"] = str(rng.below(2))
            d["salign"] = str(rng.below(64))
            d["dalign"] = str(rng.below(64))
            add(d, "chained")
    # re-randomised payloads / keys / IVs (same shapes)
    for _ in range(150 if tier == "quick" else 2500):
        d = dict(rng.choice(base))
        for k in ("msg", "key", "iv", "aad"):
            if k == "msg" and d["cipher"] == "11":
                continue   # PON: the message starts with the XGEM header whose PLI field must match the lengths
            if k in d and rng.chance(2, 3):
                d[k] = rehex(rng, d[k])
        if d["cipher"] != "3" and d["hash"] in ("8",) and rng.chance(1, 2):
            d["dir"] = str(1 + rng.below(2))
        d["salign"] = str(rng.below(64))
        d["dalign"] = str(rng.below(64))
        add(d, "random")
    # zero / tiny hash lengths on stand-alone hashes (accepted by the job check for most algorithms)
    for h in hash_only[:: 2 if tier == "quick" else 1]:
        d = dict(h)
        d["hlen"] = "0"
        add(d, "zero-length")
    # single-fault invalid jobs with the documented code
    E = ERR
    muts = [("null", "src", "IMB_ERR_JOB_NULL_SRC"), ("null", "dst", "IMB_ERR_JOB_NULL_DST"), ("null", "iv", "IMB_ERR_JOB_NULL_IV"),
            ("null", "tag", "IMB_ERR_JOB_NULL_AUTH"), ("cipher", "99", "IMB_ERR_CIPH_MODE"), ("hash", "99", "IMB_ERR_HASH_ALGO"),
            ("order", "7", "IMB_ERR_JOB_CHAIN_ORDER"), ("dir", "9", "IMB_ERR_JOB_CIPH_DIR"), ("clen", "0", "IMB_ERR_JOB_CIPH_LEN"),
            ("tag", "0", "IMB_ERR_JOB_AUTH_TAG_LEN")]
    simple_c = [d for d in cipher_only if d["cipher"] in ("1", "2", "12")]      # CBC, CNTR, ECB
    simple_h = [d for d in hash_only if d["hash"] in ("1", "3", "14", "15")]     # HMAC-SHA1/256, SHA-224/256
    for tok, val, code in muts:
        for _ in range(3 if tier == "quick" else 12):
            if tok in ("null",) and val in ("dst", "iv"):
                b = rng.choice([d for d in simple_c if d["cipher"] in ("1", "2")])
            elif (tok, val) in (("null", "tag"), ("tag", "0"), ("hash", "99")):
                b = rng.choice(simple_h)
            elif tok in ("clen", "dir", "cipher", "order"):
                b = rng.choice(simple_c)
            else:
                b = rng.choice(simple_c + simple_h)
            d = dict(b)
            d[tok] = val
            add(d, "invalid", E.get(code))
    # interleave kinds so that batches mix immediate, parked and invalid jobs
    order = list(range(len(items)))
    for i in range(len(order) - 1, 0, -1):
        j = rng.below(i + 1)
        order[i], order[j] = order[j], order[i]
    items = [items[i] for i in order]
    return items, expect


# ----------------------------------------------------------------------------- running
def k14_exe():
    gen = os.path.join(common.BUILD, "gen")
    exe = os.path.join(common.BUILD, "bin", "k14_desc")
    hdr = os.path.join(gen, "job_fields.h")
    if os.path.exists(exe) and os.path.getmtime(hdr) > os.path.getmtime(exe):
        os.remove(exe)
    return common.build_harness("k14_desc", extra_src=["imbh.c"], extra_flags=["-I", gen])


_PRIV = {}


def private_lib(tag):
    """Other checks rebuild/relink the shared .build/lib concurrently; run the harnesses against a private copy of the
    library taken right after this check's own build."""
    import shutil
    d = os.path.join(common.BUILD, tag, "lib")
    os.makedirs(d, exist_ok=True)
    src = os.path.realpath(os.path.join(common.LIBSO_DIR, "libIPSec_MB.so"))
    for attempt in range(20):
        try:
            tmp = os.path.join(d, "copy.tmp")
            shutil.copyfile(src, tmp)
            if os.path.getsize(tmp) > 1 << 20 and open(tmp, "rb").read(4) == b"\x7fELF":
                p = common.run(["readelf", "-h", tmp])
                if p.returncode == 0:
                    break
        except OSError:
            pass
        time.sleep(0.5)
    real = os.path.join(d, "libIPSec_MB.so.2.0.0")
    os.replace(tmp, real)
    for ln in ("libIPSec_MB.so.2", "libIPSec_MB.so"):
        lp = os.path.join(d, ln)
        if os.path.islink(lp) or os.path.exists(lp):
            os.remove(lp)
        os.symlink("libIPSec_MB.so.2.0.0", lp)
    _PRIV["dir"] = d
    return d


def lib_env():
    return {"LD_LIBRARY_PATH": _PRIV.get("dir", common.LIBSO_DIR)}


def run_cmd(args, timeout):
    try:
        p = common.run(args, env=lib_env(), timeout=timeout)
        return p.returncode, p.stdout, p.stderr
    except Exception as ex:
        out = getattr(ex, "stdout", None) or ""
        if isinstance(out, bytes):
            out = out.decode(errors="replace")
        return -999, out, "harness did not terminate within %d s (hang inside the library?)" % timeout


def kv(line):
    return dict(t.split("=", 1) for t in line.split()[1:] if "=" in t)


def in_err_range(v):
    return ERR["IMB_ERR_MIN"] < v < ERR["IMB_ERR_MAX"]


def evaluate_jobs(out, rc, err, var, expect, lines_by_id):
    """the property, decided on the harness output.  Returns (violations, counters)"""
    V = []
    cnt = dict(results=0, status={}, by_ep={}, invalid=0, errno_checked_calls=0, masked_hlen=0)
    seen = {}
    # pass 1: suites whose own submit call (job API: exact attribution) leaves a code although the job completed
    culprit = set()
    suite_of = {}
    for i, it in lines_by_id.items():
        mm = re.search(r"cipher=(\d+) .*?hash=(\d+)", it)
        suite_of[i] = "cipher=%s,hash=%s" % (mm.group(1), mm.group(2)) if mm else "?"
    for l in out.splitlines():
        if l.startswith("R "):
            d = kv(l)
            if int(d["ep"]) in (0, 1) and int(d["status"]) == 3 and (int(d["sub_get"]) or int(d["sub_field"]) or int(d["sub_glob"])):
                culprit.add(suite_of.get(int(d["id"]), "?"))
    for l in out.splitlines():
        if l.startswith("B "):
            d = kv(l)
            g, f, gl, ret = int(d["get"]), int(d["field"]), int(d["glob"]), int(d["ret"])
            ids = [int(x) for x in d["ids"].split(",") if x]
            if f == 0 and (g != 0 or gl != 0):
                # burst accepted, yet imb_get_errno() != 0
                who = sorted(set(suite_of.get(i, "?") for i in ids if suite_of.get(i) in culprit)) or ["unattributed"]
                for w in who:
                    V.append(dict(sig="errno-nonzero-after-success:submit:" + w, var=var, ep=int(d["ep"]), id=ids[0], item=lines_by_id.get(ids[0]),
                                  burst_items=[lines_by_id.get(i) for i in ids][:16],
                                  what="burst of %d accepted (returned %d) but imb_get_errno=%d field=%d mirror=%d" % (len(ids), ret, g, f, gl)))
            continue
        if l.startswith("R "):
            d = kv(l)
            i, ep, st = int(d["id"]), int(d["ep"]), int(d["status"])
            g, f, gl = int(d["sub_get"]), int(d["sub_field"]), int(d["sub_glob"])
            cnt["results"] += 1
            cnt["status"][st] = cnt["status"].get(st, 0) + 1
            cnt["by_ep"][ep] = cnt["by_ep"].get(ep, 0) + 1
            seen[(i, ep)] = st
            where = dict(id=i, var=var, ep=ep, item=lines_by_id.get(i))
            if d["diff"] != "-":
                cellname = d["diff"].split(":")[0]
                V.append(dict(sig="descriptor-field-changed:" + cellname, what="descriptor cell(s) altered: " + d["diff"], **where))
            if st not in (3, 4, 5, 6):
                V.append(dict(sig="partial-status", what="job handed back with status %d (%s)" % (st, ST_NAMES.get(st, "?")), **where))
            if st == 3 and ep in (0, 1) and (g != 0 or f != 0 or gl != 0):
                V.append(dict(sig="errno-nonzero-after-success:submit:" + suite_of.get(i, "?"), what="job completed but the submit call left get=%d field=%d mirror=%d" % (g, f, gl), **where))
            if st == 4:
                cnt["invalid"] += 1
                if g == 0 or not in_err_range(g):
                    V.append(dict(sig="errno-missing-after-failure", what="job flagged INVALID_ARGS but imb_get_errno=%d" % g, **where))
                elif f != g:
                    V.append(dict(sig="errno-field-differs", what="flagged job: field=%d but imb_get_errno=%d" % (f, g), **where))
                elif i in expect and expect[i] is not None and g != expect[i]:
                    V.append(dict(sig="errno-wrong-code", what="flagged job: code %d, documented %d" % (g, expect[i]), **where))
        elif l.startswith("E "):
            d = kv(l)
            V.append(dict(sig="errno-nonzero-after-success:" + d["call"], var=var, ep=int(d["ep"]), id=int(d.get("id", -1)),
                          item=lines_by_id.get(int(d.get("id", -1))),
                          what="%s succeeded but left get=%s field=%s mirror=%s" % (d["call"], d["get"], d["field"], d["glob"])))
        elif l.startswith("X "):
            d = kv(l)
            V.append(dict(sig="anomaly:" + d["what"].split("(")[0], var=var, ep=int(d["ep"]), id=int(d["id"]),
                          item=lines_by_id.get(int(d["id"])), what=d["what"]))
        elif l.startswith("T "):
            d = kv(l)
            cnt["errno_checked_calls"] += int(d.get("api_calls", 0))
    if rc != 0:
        V.append(dict(sig="crash-or-hang", var=var, ep=-1, id=-1, item=None, what="harness exit %s: %s" % (rc, err[-300:])))
    return V, cnt, seen


MGR_LEVEL_CALLS = ("GET_NEXT_BURST", "SUBMIT_BURST", "FLUSH_BURST", "imb_set_session", "SUBMIT_HASH_BURST", "SUBMIT_CIPHER_BURST",
                   "SUBMIT_AEAD_BURST")


def evaluate_direct(out, rc, err, var):
    V, n = [], 0
    for l in out.splitlines():
        if not l.startswith("D "):
            continue
        m = re.match(r"D var=(\S+) name=(.*) kind=(\S+) expect=(-?\d+) get=(-?\d+) field=(-?\d+) glob=(-?\d+)$", l)
        if not m:
            continue
        n += 1
        name, kind, ex, g, f, gl = m.group(2), m.group(3), int(m.group(4)), int(m.group(5)), int(m.group(6)), int(m.group(7))
        if g != ex:
            if name.startswith("stale:"):
                sig = "stale-field-masks-direct-api"
            elif kind == "ok":
                sig = "no-reset-on-success:" + name.rstrip("b")
            else:
                sig = "wrong-code:" + name
            V.append(dict(sig=sig, var=var, name=name, what="%s (%s): imb_get_errno=%d field=%d mirror=%d, documented %d" % (name, kind, g, f, gl, ex)))
        elif kind == "fail" and f != ex and "mgr=NULL" not in name and name.split("(")[0] in MGR_LEVEL_CALLS:
            # calls made ON a manager record their failure in that manager (the process-wide mirror alone is overwritten
            # by the next call of anybody and masked by an older code in the manager's own field)
            V.append(dict(sig="errno-not-in-manager:" + name, var=var, name=name,
                          what="%s failed with %d but the manager's own error field holds %d (imb_get_errno=%d, mirror=%d)" % (name, ex, f, g, gl)))
    if rc != 0:
        V.append(dict(sig="crash-or-hang", var=var, name="direct battery", what="harness exit %s: %s" % (rc, err[-300:])))
    return V, n


def evaluate_custom(out, rc, err, var):
    """user callbacks (IMB_CIPHER_CUSTOM / IMB_AUTH_CUSTOM) that succeed or fail, both chain orders, deferred or not:
    status exactly COMPLETED, or exactly INTERNAL_ERROR when a callback that ran returned non-zero; descriptor untouched"""
    V, n = [], 0
    for l in out.splitlines():
        if l.startswith("U "):
            d = kv(l)
            n += 1
            st, anyfail = int(d["status"]), int(d["anyfail"])
            where = dict(var=var, ep=int(d["ep"]), id=-1, item=None, custom=l)
            cls = "c%s-h%s-order%s" % (d["c"], d["h"], d["order"])
            if st not in (3, 4, 5, 6):
                V.append(dict(sig="partial-status:custom:" + cls, what="custom-callback job handed back with status %d (%s)" % (st, ST_NAMES.get(st, "?")), **where))
            elif st != (5 if anyfail else 3):
                V.append(dict(sig="wrong-status:custom:" + cls, what="custom-callback job: status %d, expected %d (a callback %s)" % (st, 5 if anyfail else 3, "failed" if anyfail else "did not fail"), **where))
            if d["same"] != "1":
                V.append(dict(sig="descriptor-field-changed:custom:" + cls, what="descriptor of a custom-callback job altered", **where))
            if int(d["get"]) != 0 or int(d["field"]) != 0:
                V.append(dict(sig="errno-nonzero-after-success:custom:" + cls, what="call handing back a custom-callback job left get=%s field=%s" % (d["get"], d["field"]), **where))
        elif l.startswith("X "):
            d = kv(l)
            V.append(dict(sig="anomaly:" + d["what"].split("(")[0], var=var, ep=int(d["ep"]), id=-1, item=None, what=d["what"], custom=l))
    if rc != 0 or n == 0:
        V.append(dict(sig="crash-or-hang:custom", var=var, ep=-1, id=-1, item=None, custom="battery", what="custom battery exit %s, %d results: %s" % (rc, n, err[-300:])))
    return V, n


def evaluate_strerror(out, rc, t9):
    V = []
    got = {}
    tot = {}
    for l in out.splitlines():
        if l.startswith("S "):
            m = re.match(r"S code=(-?\d+) str=(.*?)( want=.*)?$", l)
            code, s = int(m.group(1)), m.group(2)
            got[code] = s
            if s in ("(null)", "(empty)") or m.group(3):
                V.append(dict(sig="strerror-bad:%d" % code, what="imb_get_strerror(%d) = %s%s" % (code, s, m.group(3) or "")))
        elif l.startswith("T "):
            tot = kv(l)
    if rc != 0 or not tot:
        V.append(dict(sig="strerror-crash", what="strerror sweep did not finish (exit %s)" % rc))
        return V, 0, []
    corr = []
    # model <-> code: the translated switch gives the same strings
    for cname, s in t9["cases"]:
        v = int(cname) if re.match(r"^-?\d+$", cname) else ERR.get(cname)
        if v is None or got.get(v) != s:
            corr.append("case %s: translated %r, library %r" % (cname, s, got.get(v)))
    # distinct non-empty messages for distinct library codes
    codes = [v for n, v in ERR.items() if n.startswith("IMB_ERR_") and ERR["IMB_ERR_MIN"] < v < ERR["IMB_ERR_MAX"]]
    strs = {}
    for v in sorted(set(codes)):
        s = got.get(v)
        if not s:
            V.append(dict(sig="strerror-missing:%d" % v, what="no message for IMB_ERR value %d" % v))
        elif s in strs:
            V.append(dict(sig="strerror-duplicate:%d" % v, what="codes %d and %d share the message %r" % (strs[s], v, s)))
        else:
            strs[s] = v
        if s and (s.startswith("Unknown error") or s == os.strerror(v)):
            V.append(dict(sig="strerror-fallthrough:%d" % v, what="IMB_ERR value %d falls through to %r" % (v, s)))
    return V, int(tot.get("strerror_checked", 0)), corr


def run_all(exe, items, expect, variants, tier, workdir, eps="0123"):
    lines_by_id = {int(d["id"]): fmt_item(d) for _, d in items}
    chunks = []
    per = 400 if tier == "quick" else 1500
    flat = [fmt_item(d) for _, d in items]
    for c in range(0, len(flat), per):
        p = os.path.join(workdir, "items_%d.txt" % (c // per))
        with open(p, "w") as f:
            f.write("\n".join(flat[c:c + per]) + "\n")
        chunks.append(p)
    jobs = []
    for vi, v in enumerate(variants):
        for ci, p in enumerate(chunks):
            batch = [1, 4, 8, 16, 32][(vi + ci) % 5]
            jobs.append(("jobs", v, p, batch))
        jobs.append(("direct", v, None, 0))
        jobs.append(("custom", v, None, 0))
    jobs.append(("strerror", None, None, 0))

    def one(j):
        kind, v, p, batch = j
        if kind == "jobs":
            rc, out, err = run_cmd([exe, "--jobs", p, "--variant", v, "--batch", str(batch), "--eps", eps], 600)
        elif kind == "direct":
            rc, out, err = run_cmd([exe, "--direct", "--variant", v], 120)
        elif kind == "custom":
            rc, out, err = run_cmd([exe, "--custom", "--variant", v], 300)
        else:
            rc, out, err = run_cmd([exe, "--strerror"], 120)
        return j, rc, out, err

    res = []
    with cf.ThreadPoolExecutor(max_workers=common.NCPU) as ex:
        for r in ex.map(one, jobs):
            res.append(r)
    return res, lines_by_id


def list_variants(exe):
    rc, out, err = run_cmd([exe, "--list-variants"], 120)
    return [l.strip() for l in out.splitlines() if l.strip()]


def known_keys():
    keys = {}
    for kind, line in common.known_findings(PID):
        if kind != "known":
            continue
        m = re.search(r"key=(\S+)", line)
        if m:
            keys[m.group(1)] = line.split("key=" + m.group(1), 1)[1].strip() or line
    return keys


def key_matches(sig, keys):
    for k in keys:
        if sig == k or (k.endswith("*") and sig.startswith(k[:-1])):
            return k
    return None


def translators():
    sys.path.insert(0, os.path.join(common.VERIF, "translators"))
    import t0_consts, t9_strerror, t14_job
    errs = []
    vals, t9, t14 = {}, None, None
    try:
        vals = t0_consts.main()
    except Exception as ex:
        errs.append("t0_consts: %s" % ex)
    try:
        t9 = t9_strerror.main()
    except Exception as ex:
        errs.append("t9_strerror: %s" % ex)
    try:
        t14 = t14_job.main()
    except Exception as ex:
        errs.append("t14_job: %s" % ex)
    return vals, t9, t14, errs


def main(tier, seed):
    res = Result(PID, tier, seed, "proof")
    tb = common.build_lib()
    vals, t9, t14, terrs = translators()
    ERR.update({k: v for k, v in vals.items() if k.startswith("IMB_ERR_")})
    pres = common.props_check(PID, extra_targets=["Props/Examples_C14.vo"])
    common.proof_coverage(res, pres, "make -k Props/Properties_C14.vo Props/Examples_C14.vo (coqc 8.16.1) + Print Assumptions",
                          ["Coq 8.16.1 kernel incl. vm_compute (finite checks over the generated layout / write census / strerror table)",
                           "translators t0_consts.py (constants), t14_job.py (IMB_JOB layout from clang+gcc; textual census of writes into "
                           "descriptors: regular expressions, no alias analysis), t9_strerror.py + cmini.py (switch of imb_get_strerror; imb_set_errno / imb_get_errno translated "
                           "statement by statement and proved equal to the model)",
                           "harness/k14_desc.c + harness/imbh.c (correspondence: byte-exact descriptor comparison, error-code views after every call)",
                           "modelled, not verified: the out-of-order managers and kernels are an oracle restricted to the modelled kinds of "
                           "descriptor writes (checked on every job run) and assumed to leave the error mirror alone (checked after every call); "
                           "libc strerror() assumed non-NULL"])
    try:
        exe = k14_exe()
    except Exception as ex:
        # no field table (t14 failed on this tree) or the harness does not compile against this header any more
        res.violation({"property": PID, "seed": seed, "broken_obligations": pres["failed"], "correspondence": terrs + ["k14_desc build: %s" % str(ex)[-1500:]],
                       "note": "the C14 harness cannot be built against this tree (layout translator or header changed); nothing was run"},
                      note="no-failing-input-found", name="unproved")
        return res.finish()
    private_lib("c14")
    rng = Rng(seed)
    items, expect = gen_items(rng, tier)
    variants = list_variants(exe)
    workdir = os.path.join(common.BUILD, "c14")
    os.makedirs(workdir, exist_ok=True)
    t1 = time.time()
    runs, lines_by_id = run_all(exe, items, expect, variants, tier, workdir)
    V, corr = [], list(terrs)
    tot = dict(results=0, status={}, by_ep={}, invalid=0, errno_checked_calls=0)
    direct_n, strerr_n, custom_n = 0, 0, 0
    seen_all = {}
    for (kind, v, p, batch), rc, out, err in runs:
        if kind == "jobs":
            vv, cnt, seen = evaluate_jobs(out, rc, err, v, expect, lines_by_id)
            for x in vv:
                x["batch"] = batch
            V += vv
            for k in ("results", "invalid", "errno_checked_calls"):
                tot[k] += cnt[k]
            for k in ("status", "by_ep"):
                for a, b in cnt[k].items():
                    tot[k][a] = tot[k].get(a, 0) + b
            for (i, ep), st in seen.items():
                seen_all.setdefault(i, {})[(v, ep)] = st
        elif kind == "direct":
            vv, n = evaluate_direct(out, rc, err, v)
            V += vv
            direct_n += n
        elif kind == "custom":
            vv, n = evaluate_custom(out, rc, err, v)
            V += vv
            custom_n += n
        else:
            if t9 is not None:
                vv, strerr_n, c2 = evaluate_strerror(out, rc, t9)
                V += vv
                corr += c2
    # every variant and entry point gives an item the same verdict
    for i, m in seen_all.items():
        sts = set(m.values())
        if len(sts) > 1:
            V.append(dict(sig="verdict-differs-across-variants", id=i, var="*", ep=-1, item=lines_by_id.get(i),
                          what="status differs between variants/entry points: %s" % sorted((k[0], k[1], s) for k, s in m.items())[:8]))
    kinds = {}
    for k, d in items:
        kinds[k] = kinds.get(k, 0) + 1
    suites = sorted(set((d["cipher"], d["hash"]) for _, d in items))
    nontrivial = len(set((d["cipher"], d["hash"], d.get("order", "1"), d.get("dir", "1")) for k, d in items))
    res.coverage.update({
        "evaluations": tot["results"] + direct_n + strerr_n + custom_n,
        "custom_callback_jobs": custom_n,
        "distinct_nontrivial": nontrivial,
        "rule": "one evaluation = one job handed back by the library (descriptor compared cell by cell with its pre-submit snapshot, status and "
                "error-code views checked), or one direct/housekeeping API call of the battery, or one imb_get_strerror argument; "
                "distinct non-trivial = distinct (cipher, hash, chain order, direction) combinations among the generated work items",
        "jobs_compared": tot["results"], "status_histogram": {ST_NAMES.get(k, str(k)): v for k, v in sorted(tot["status"].items())},
        "by_entry_point": {str(k): v for k, v in sorted(tot["by_ep"].items())}, "api_calls_with_errno_checked": tot["errno_checked_calls"],
        "direct_api_calls_checked": direct_n, "strerror_arguments": strerr_n, "item_kinds": kinds, "suites": len(suites),
        "variants": variants, "entry_points": [0, 1, 2, 3], "items": len(items),
        "samples": [fmt_item(items[0][1])[:300], fmt_item(items[len(items) // 2][1])[:300]],
        "traces_validated_against_impl": tot["results"], "lib_build_s": round(tb, 1), "run_s": round(time.time() - t1, 1),
        "census": {"c_writes": len(t14["cw"]) if t14 else None, "asm_writes": len(t14["aw"]) if t14 else None},
    })
    return verdict(res, pres, V, corr, exe, variants, seed, tier)


def verdict(res, pres, V, corr, exe, variants, seed, tier):
    keys = known_keys()
    by_sig = {}
    for x in V:
        by_sig.setdefault(x["sig"], []).append(x)
    reported = 0
    for sig, xs in sorted(by_sig.items()):
        k = key_matches(sig, keys)
        if k:
            res.known.append("key=%s (%d occurrences this run) %s" % (k, len(xs), keys[k]))
            continue
        x = xs[0]
        res.violation({"property": PID, "signature": sig, "occurrences": len(xs), "first": x,
                       "variants_affected": sorted(set(str(y.get("var")) for y in xs))[:12], "seed": seed,
                       "replay_kind": "item" if x.get("item") else ("direct" if "name" in x else "custom" if "custom" in x else "other")},
                      note=sig, name=re.sub(r"[^A-Za-z0-9_.-]+", "_", sig)[:60])
        reported += 1
    for f in pres["failed"]:
        log("proof obligation failed:", f)
    broken = pres["discharged"] != pres["obligations"] or pres["failed"] or pres["obligations"] == 0
    if (broken or corr) and reported == 0:
        # model/proof no longer fits this tree and the standard run saw no property failure: search harder
        found = None
        if tier == "quick":
            rng2 = Rng(seed + 7919)
            items2, expect2 = gen_items(rng2, "thorough")
            workdir = os.path.join(common.BUILD, "c14", "search")
            os.makedirs(workdir, exist_ok=True)
            runs, lines_by_id = run_all(exe, items2[:6000], expect2, variants, "thorough", workdir)
            for (kind, v, p, batch), rc, out, err in runs:
                if kind == "jobs":
                    vv, _, _ = evaluate_jobs(out, rc, err, v, expect2, lines_by_id)
                    vv = [x for x in vv if not key_matches(x["sig"], keys)]
                    if vv:
                        found = vv[0]
                        found["batch"] = batch
                        break
        if found:
            res.violation({"property": PID, "signature": found["sig"], "first": found, "seed": seed, "found_by": "failing-input search",
                           "broken_obligations": pres["failed"], "correspondence": corr[:10]}, note=found["sig"], name="search")
        else:
            res.violation({"property": PID, "seed": seed, "broken_obligations": pres["failed"], "correspondence": corr[:20],
                           "proof_log_tail": pres["log"][-2500:] if broken else "",
                           "note": "the C14 model (Mgr/Job.v, Mgr/Errno.v) / its generated inputs no longer check against this tree; "
                                   "no job, call or strerror argument violating the property was found"},
                          note="no-failing-input-found", name="unproved")
    elif broken or corr:
        # violations were reported above, but they need not be what broke the obligation: say so separately
        res.violation({"property": PID, "seed": seed, "broken_obligations": pres["failed"], "correspondence": corr[:20],
                       "proof_log_tail": pres["log"][-2500:] if broken else "",
                       "note": "a proof obligation / translator / model-code correspondence of C14 is broken on this tree; whether one of the "
                               "violations reported in the same run is its cause must be judged from the log"},
                      note="broken-obligation (see the other violations of this run)", name="unproved")
    res.assumptions = ["descriptor writes by kernels are restricted to the modelled kinds (checked on every job of every run)",
                       "the out-of-order managers leave the error mirror alone (checked after every call)",
                       "libc strerror() returns a non-NULL string"]
    return res.finish()


def replay(path):
    rp = json.load(open(path))
    common.build_lib()
    vals, t9, t14, terrs = translators()
    ERR.update({k: v for k, v in vals.items() if k.startswith("IMB_ERR_")})
    exe = k14_exe()
    private_lib("c14")
    x = rp.get("first", {})
    workdir = os.path.join(common.BUILD, "c14")
    os.makedirs(workdir, exist_ok=True)
    if x.get("item"):
        p = os.path.join(workdir, "replay.txt")
        open(p, "w").write(x["item"] + "\n")
        vs = [x["var"]] if x.get("var") not in (None, "*") else list_variants(exe)
        bad = 0
        for v in vs:
            rc, out, err = run_cmd([exe, "--jobs", p, "--variant", v, "--batch", "1"], 300)
            vv, cnt, _ = evaluate_jobs(out, rc, err, v, {}, {int(x["id"]): x["item"]})
            print(out.strip())
            for y in vv:
                print("VIOLATES:", y["sig"], y["what"])
            bad += len(vv)
        return 1 if bad else 0
    if "custom" in x:
        rc, out, err = run_cmd([exe, "--custom", "--variant", x["var"]], 300)
        vv, n = evaluate_custom(out, rc, err, x["var"])
        vv = [y for y in vv if y["sig"] == rp.get("signature")]
        for y in vv[:20]:
            print("VIOLATES:", y["sig"], y["what"], "::", y.get("custom"))
        return 1 if vv else 0
    if "name" in x:
        rc, out, err = run_cmd([exe, "--direct", "--variant", x["var"]], 120)
        vv, n = evaluate_direct(out, rc, err, x["var"])
        vv = [y for y in vv if y["sig"] == rp.get("signature")]
        for y in vv:
            print("VIOLATES:", y["sig"], y["what"])
        return 1 if vv else 0
    if str(rp.get("signature", "")).startswith("strerror"):
        rc, out, err = run_cmd([exe, "--strerror"], 120)
        vv, n, corr = evaluate_strerror(out, rc, t9)
        for y in vv:
            print("VIOLATES:", y["sig"], y["what"])
        return 1 if vv else 0
    pres = common.props_check(PID)
    print(json.dumps({k: pres[k] for k in ("obligations", "discharged", "failed")}, indent=1))
    return 1 if pres["discharged"] != pres["obligations"] or pres["failed"] else 0
