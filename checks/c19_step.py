"""C19 tie (d): native single-step traces (harness/k7_step.c) on every variant the host executes.

build_optab(image, out): `objdump -D -M intel --no-show-raw-insn` of the executable sections of an
ELF image -> binary table with one record per instruction (address, memory operand in the form
base/index/scale/disp | rip-relative target | vector index | string | implicit stack | undecoded).
run_step(...): run k7_step on a script; parse SEG/CASE lines.
"""
import os, re, struct, subprocess, json, shutil
from . import common, c19_direct

REC = struct.Struct("<IBBBBqHBBB3x")
assert REC.size == 24
K_NONE, K_MEM, K_RIP, K_VSIB, K_STR, K_STACK, K_UNDEC = range(7)
F_WRITE, F_ADDR32, F_MASKED, F_FS, F_GS, F_IDX64, F_SI, F_DI = 1, 2, 4, 8, 16, 32, 64, 128

GPR64 = ["rax", "rcx", "rdx", "rbx", "rsp", "rbp", "rsi", "rdi"] + ["r%d" % i for i in range(8, 16)]
GPR32 = ["eax", "ecx", "edx", "ebx", "esp", "ebp", "esi", "edi"] + ["r%dd" % i for i in range(8, 16)]
REGNUM = {n: i for i, n in enumerate(GPR64)}
REGNUM32 = {n: i for i, n in enumerate(GPR32)}
SIZES = {"BYTE": 1, "WORD": 2, "DWORD": 4, "QWORD": 8, "XMMWORD": 16, "YMMWORD": 32, "ZMMWORD": 64,
         "TBYTE": 10, "FWORD": 6, "OWORD": 16}
PREFIXES = {"rep", "repz", "repnz", "repe", "repne", "lock", "notrack", "bnd", "data16", "addr32", "cs", "ds", "es",
            "ss", "fs", "gs", "{vex}", "{vex3}", "{evex}", "{disp8}", "{disp32}", "xacquire", "xrelease"}
NO_ACCESS = {"lea", "nop", "endbr64", "endbr32", "fnop"}
# the memory operand is read although it is the first operand
READ_FIRST = {"cmp", "test", "bt", "push", "call", "jmp", "ucomiss", "ucomisd", "comiss", "comisd", "ptest", "vptest",
              "prefetcht0", "prefetcht1", "prefetcht2", "prefetchnta", "prefetchw", "clflush", "clflushopt", "ldmxcsr",
              "vldmxcsr", "fld", "fild", "fldcw", "mul", "div", "imul", "idiv", "fxrstor", "xrstor", "fidivr"}
STACK_INS = {"push": (8, 1), "pop": (8, 0), "call": (8, 1), "ret": (8, 0), "leave": (8, 0), "pushf": (8, 1),
             "popf": (8, 0), "enter": (8, 1), "iret": (8, 0)}
STRING_INS = {"movs": F_SI | F_DI | F_WRITE, "stos": F_DI | F_WRITE, "lods": F_SI, "cmps": F_SI | F_DI, "scas": F_DI,
              "ins": F_DI | F_WRITE, "outs": F_SI}
MEM_RE = re.compile(r"(?:\b(BYTE|WORD|DWORD|QWORD|XMMWORD|YMMWORD|ZMMWORD|TBYTE|FWORD|OWORD) PTR )?"
                    r"(?:\b(cs|ds|es|fs|gs|ss):)?(\[[^\]]*\]|0x[0-9a-f]+\b)")
LINE_RE = re.compile(r"^\s*([0-9a-f]+):\t(.*)$")
EXEC_SECTIONS = [".init", ".plt", ".plt.got", ".plt.sec", ".text", ".fini"]


def split_operands(s):
    out, depth, cur = [], 0, ""
    for ch in s:
        if ch in "[{(":
            depth += 1
        elif ch in "]})":
            depth -= 1
        if ch == "," and depth == 0:
            out.append(cur.strip())
            cur = ""
        else:
            cur += ch
    if cur.strip():
        out.append(cur.strip())
    return out


def parse_bracket(expr):
    """'rax+rbx*8-0x10' -> dict(base, index, scale, disp, addr32, vsib, rip) or None"""
    r = {"base": 0xff, "index": 0xff, "scale": 1, "disp": 0, "addr32": False, "vsib": None, "rip": False}
    for sign, term in re.findall(r"([+-]?)([^+-]+)", expr):
        term = term.strip()
        neg = sign == "-"
        m = re.fullmatch(r"([a-z0-9]+)\*([1248])", term)
        if m:
            reg, sc = m.group(1), int(m.group(2))
            if reg in ("riz", "eiz"):
                continue
            if neg:
                return None
            vm = re.fullmatch(r"([xyz])mm(\d+)", reg)
            if vm:
                r["vsib"] = (vm.group(1), int(vm.group(2)))
                r["scale"] = sc
                continue
            if reg in REGNUM:
                r["index"] = REGNUM[reg]
            elif reg in REGNUM32:
                r["index"] = REGNUM32[reg]
                r["addr32"] = True
            else:
                return None
            r["scale"] = sc
            continue
        if re.fullmatch(r"0x[0-9a-f]+|\d+", term):
            v = int(term, 0)
            if v >= 1 << 63:
                v -= 1 << 64
            r["disp"] += -v if neg else v
            continue
        if neg:
            return None
        if term == "rip":
            r["rip"] = True
            continue
        if term == "eip":
            return None
        vm = re.fullmatch(r"([xyz])mm(\d+)", term)
        if vm:
            r["vsib"] = (vm.group(1), int(vm.group(2)))
            continue
        if term in REGNUM or term in REGNUM32:
            n = REGNUM.get(term, REGNUM32.get(term))
            if term in REGNUM32:
                r["addr32"] = True
            if r["base"] == 0xff:
                r["base"] = n
            elif r["index"] == 0xff:
                r["index"] = n
            else:
                return None
            continue
        return None
    return r


def decode_line(addr, text, next_addr):
    """-> tuple for REC.pack, or None for lines that are not instructions"""
    text = text.split("#", 1)[0].strip()
    if not text or text.startswith("(bad)") or text.startswith("."):
        return None
    toks = text.split(None)
    i = 0
    while i < len(toks) and (toks[i] in PREFIXES or toks[i].startswith("rex")):
        i += 1
    if i >= len(toks):
        return (addr, K_NONE, 0xff, 0xff, 1, 0, 0, 0, 0, 0)      # prefix-only line
    mnem = toks[i]
    rest = text.split(mnem, 1)[1].strip() if mnem in text else ""
    addr32_prefix = "addr32" in toks[:i]
    ops = split_operands(rest)
    memops = [(k, o) for k, o in enumerate(ops) if MEM_RE.search(o) and ("[" in o or re.search(r"\b[c-gs]s:0x", o))]
    base_mnem = mnem
    if mnem in NO_ACCESS or mnem.startswith("nop"):
        return (addr, K_NONE, 0xff, 0xff, 1, 0, 0, 0, 0, 0)
    sm = re.fullmatch(r"(movs|stos|lods|cmps|scas|ins|outs)[bwdq]?", mnem)
    if sm and "mm" in rest:          # movsd / cmpsd with an xmm operand are SSE2 instructions
        sm = None
    if sm:
        fl = STRING_INS[sm.group(1)]
        size = 0
        for _, o in memops:
            m = MEM_RE.search(o)
            if m and m.group(1):
                size = SIZES[m.group(1)]
        if any("[e" in o for _, o in memops) or addr32_prefix:
            fl |= F_ADDR32
        return (addr, K_STR, 0xff, 0xff, 1, 0, size, fl, 0, 0)
    if mnem == "xlat" or mnem == "xlatb":
        return (addr, K_UNDEC, 0xff, 0xff, 1, 0, 1, 0, 0, 0)
    if not memops:
        if base_mnem in STACK_INS:
            sz, wr = STACK_INS[base_mnem]
            return (addr, K_STACK, 0xff, 0xff, 1, 0, sz, F_WRITE if wr else 0, 0, 0)
        return (addr, K_NONE, 0xff, 0xff, 1, 0, 0, 0, 0, 0)
    if len(memops) > 1:
        return (addr, K_UNDEC, 0xff, 0xff, 1, 0, 0, 0, 0, 0)
    pos, op = memops[0]
    m = MEM_RE.search(op)
    size = SIZES.get(m.group(1), 0) if m.group(1) else 0
    seg = m.group(2)
    body = m.group(3)
    flags = 0
    if pos == 0 and base_mnem not in READ_FIRST and not base_mnem.startswith("cmp") and not base_mnem.startswith("prefetch"):
        flags |= F_WRITE
    if seg == "fs":
        flags |= F_FS
    elif seg == "gs":
        flags |= F_GS
    tail = op[m.end():]
    mask = 0
    km = re.search(r"\{k([1-7])\}", rest)     # EVEX opmask anywhere: masked-out elements are not accessed
    if km:
        flags |= F_MASKED
        mask = int(km.group(1))
    if not body.startswith("["):
        # absolute: seg:0x28
        disp = int(body, 16)
        if disp >= 1 << 31:
            return (addr, K_UNDEC, 0xff, 0xff, 1, 0, size, 0, 0, 0)
        return (addr, K_MEM, 0xff, 0xff, 1, disp, size, flags, mask, 0)
    br = parse_bracket(body[1:-1])
    if br is None:
        return (addr, K_UNDEC, 0xff, 0xff, 1, 0, size, 0, 0, 0)
    if br["addr32"] or addr32_prefix:
        flags |= F_ADDR32
    if br["rip"]:
        if next_addr is None or br["base"] != 0xff or br["index"] != 0xff:
            return (addr, K_UNDEC, 0xff, 0xff, 1, 0, size, 0, 0, 0)
        return (addr, K_RIP, 0xff, 0xff, 1, next_addr + br["disp"], size, flags & ~F_ADDR32, mask, 0)
    if br["vsib"] is not None:
        g = re.fullmatch(r"v?p?(gather|scatter)(pf[01])?([dq])(d|q|ps|pd)", base_mnem)
        if not g:
            return (addr, K_UNDEC, 0xff, 0xff, 1, 0, size, 0, 0, 0)
        vw = {"x": 16, "y": 32, "z": 64}[br["vsib"][0]]
        idx64 = g.group(3) == "q"
        esz = 4 if g.group(4) in ("d", "ps") else 8
        # width of the data register operand
        dreg = None
        for k, o in enumerate(ops):
            if k != pos:
                rm = re.match(r"([xyz])mm(\d+)", o)
                if rm:
                    dreg = {"x": 16, "y": 32, "z": 64}[rm.group(1)]
                    break
        lanes_idx = vw // (8 if idx64 else 4)
        lanes = min(lanes_idx, (dreg // esz) if dreg else lanes_idx)
        if idx64:
            flags |= F_IDX64
        if g.group(1) == "scatter":
            flags |= F_WRITE
        else:
            flags &= ~F_WRITE
        if not (flags & F_MASKED):
            # AVX2 form: gather dst,[vsib],maskvec
            mv = re.fullmatch(r"([xyz])mm(\d+)", ops[-1]) if len(ops) == 3 else None
            if not mv:
                return (addr, K_UNDEC, 0xff, 0xff, 1, 0, size, 0, 0, 0)
            mask = 0x80 | int(mv.group(2))
        return (addr, K_VSIB, br["base"], br["vsib"][1], br["scale"], br["disp"], esz, flags, mask, lanes)
    return (addr, K_MEM, br["base"], br["index"], br["scale"], br["disp"], size, flags, mask, 0)


STRING_MNEMS = {b + x for b in STRING_INS for x in ("", "b", "w", "d", "q")}


def decode_fast(addr, text):
    """instructions without any memory syntax: only the implicit stack accesses matter"""
    t = text.split(None, 2)
    m = t[0]
    if m in PREFIXES or m in STRING_MNEMS or m.startswith("rex") or m.startswith("."):
        return decode_line(addr, text, None)
    if m in STACK_INS:
        sz, wr = STACK_INS[m]
        return (addr, K_STACK, 0xff, 0xff, 1, 0, sz, F_WRITE if wr else 0, 0, 0)
    if m in ("xlat", "xlatb"):
        return (addr, K_UNDEC, 0xff, 0xff, 1, 0, 1, 0, 0, 0)
    return (addr, K_NONE, 0xff, 0xff, 1, 0, 0, 0, 0, 0)


def exec_sections(image):
    out = common.run(["readelf", "-S", "-W", image], check=True).stdout
    secs = []
    for l in out.splitlines():
        m = re.search(r"\]\s+(\S+)\s+PROGBITS\s+[0-9a-f]+\s+[0-9a-f]+\s+[0-9a-f]+\s+\d+\s+(\S+)", l)
        if m and "X" in m.group(2):
            secs.append(m.group(1))
    return secs


def build_optab(image, out, timeout=900):
    """returns stats dict; cached in <out>.json keyed on the image's (mtime_ns, size)"""
    real = os.path.realpath(image)
    st = os.stat(real)
    stamp = [real, st.st_mtime_ns, st.st_size, REC.size, 3]
    meta = out + ".json"
    if os.path.exists(out) and os.path.exists(meta):
        try:
            j = json.load(open(meta))
            if j.get("stamp") == stamp:
                return j
        except Exception:
            pass
    ph = common.run(["readelf", "-l", "-W", real], check=True).stdout
    first = re.search(r"LOAD\s+0x([0-9a-f]+)\s+0x([0-9a-f]+)", ph)
    if not first or int(first.group(2), 16) - int(first.group(1), 16) != 0:
        raise RuntimeError("%s: first PT_LOAD has vaddr != offset (not position independent?)" % image)
    cmd = ["objdump", "-D", "--no-show-raw-insn", "-M", "intel"]
    for s in exec_sections(real):
        cmd += ["-j", s]
    p = subprocess.run(cmd + [real], stdout=subprocess.PIPE, stderr=subprocess.PIPE, timeout=timeout)
    if p.returncode != 0:
        raise RuntimeError("objdump failed: " + p.stderr.decode(errors="replace")[-500:])
    lines = []
    for l in p.stdout.decode(errors="replace").split("\n"):
        if l[:1] == " " and "\t" in l:
            a, t = l.split("\t", 1)
            try:
                lines.append((int(a.strip()[:-1], 16), t))
            except ValueError:
                pass
    recs = []
    stats = {"instructions": 0, "mem": 0, "rip": 0, "vsib": 0, "string": 0, "stack": 0, "undecoded": 0, "masked": 0}
    undec_samples = []
    n = len(lines)
    names = {K_MEM: "mem", K_RIP: "rip", K_VSIB: "vsib", K_STR: "string", K_STACK: "stack", K_UNDEC: "undecoded"}
    memo = {}        # instruction text -> record with address 0 (K_RIP: disp relative to the next instruction)
    undec = (0, K_UNDEC, 0xff, 0xff, 1, 0, 0, 0, 0, 0)
    for i, (addr, text) in enumerate(lines):
        h = text.find("#")
        if h >= 0:
            text = text[:h]
        r = memo.get(text, 0)
        if r == 0:
            if "[" not in text and ":0x" not in text and "(" not in text:
                r = decode_fast(0, text)
            else:
                r = decode_line(0, text, 0)
            if r is not None:
                try:
                    REC.pack(*r)
                except struct.error:
                    r = undec
            memo[text] = r
        if r is None:
            continue
        k = r[1]
        if k == K_RIP:
            if i + 1 < n:
                r = (addr, k, r[2], r[3], r[4], lines[i + 1][0] + r[5]) + r[6:]
            else:
                r = undec
        stats["instructions"] += 1
        if k:
            stats[names[k]] += 1
            if k == K_UNDEC and len(undec_samples) < 12:
                undec_samples.append("%x: %s" % (addr, text.strip()))
        if r[7] & F_MASKED:
            stats["masked"] += 1
        recs.append((addr,) + r[1:])
    recs.sort(key=lambda r: r[0])
    # objdump lists an address once; keep the first record of duplicates (overlapping sections never happen)
    tmp = out + ".tmp.%d" % os.getpid()
    with open(tmp, "wb") as f:
        dedup = []
        last = -1
        for r in recs:
            if r[0] != last:
                dedup.append(r)
                last = r[0]
        f.write(b"K7OPTAB1" + struct.pack("<Q", len(dedup)))
        buf = bytearray()
        for r in dedup:
            buf += REC.pack(*r)
        f.write(buf)
    os.replace(tmp, out)
    j = {"stamp": stamp, "stats": stats, "undecoded_samples": undec_samples, "image": real}
    with open(meta + ".tmp.%d" % os.getpid(), "w") as f:
        json.dump(j, f)
    os.replace(meta + ".tmp.%d" % os.getpid(), meta)
    return j


def parse_step_output(stdout):
    segs, cases, end, variant, mp = [], [], None, None, None
    for l in stdout.splitlines():
        if l.startswith("SEG "):
            t = l.split()
            kv = dict(x.split("=", 1) for x in t[2:])
            s = {k: (v if k in ("ihash", "dhash", "rip") else int(v)) for k, v in kv.items()}
            s["group"] = int(t[1])
            segs.append(s)
        elif l.startswith("CASE "):
            cases.append(dict(x.split("=", 1) for x in l.split()[1:]))
        elif l.startswith("END "):
            end = dict(x.split("=", 1) for x in l.split()[1:])
        elif l.startswith("VARIANT "):
            variant = dict(x.split("=", 1) for x in l.split()[1:])
        elif l.startswith("MAP "):
            mp = l
    return {"segs": segs, "cases": cases, "end": end, "variant": variant, "map": mp}


def run_step(exe, variant, lines, tag, images, workdir, batch=1, dumps=(), timeout=900):
    sp = os.path.join(workdir, "st_%s.txt" % tag)
    with open(sp, "w") as f:
        f.write("\n".join(lines) + "\n")
    cmd = [exe, variant, sp]
    for match, tab in images:
        cmd += ["--image", match, tab]
    cmd += ["--batch", str(batch)]
    for idx, path in dumps:
        cmd += ["--dump", str(idx), path]
    try:
        p = common.run(cmd, env=common.lib_env(), timeout=timeout)
        r = parse_step_output(p.stdout)
        r.update({"rc": p.returncode, "stderr": p.stderr[-600:], "script": sp})
    except subprocess.TimeoutExpired as ex:
        so = ex.stdout.decode(errors="replace") if isinstance(ex.stdout, bytes) else (ex.stdout or "")
        r = parse_step_output(so)
        r.update({"rc": -9, "stderr": "timeout (hang)", "script": sp})
    return r


# ----------------------------------------------------------------------------------------------
# tie (d): case plan
# ----------------------------------------------------------------------------------------------
EXPECTED_TYPE = {"sse:f0": ("1", "3"), "sse:f1": ("1", "1"), "sse:f2": ("1", "2"), "avx2:f0": ("2", "2"),
                 "avx2:f1": ("2", "1"), "avx512:f0": ("3", "2"), "avx512:f1": ("3", "1")}
# order in which the 9 keys of key_variants() [base, flip, flip, flip, 0^n, 1^n, rnd, rnd, rnd] are used when
# fewer than 9 fit the budget: base, all-zero, random, single-bit flip, all-one, ...
KEY_PRIORITY = [0, 4, 6, 1, 5, 7, 2, 8, 3]
CMP_FIELDS = ("steps", "lib", "other", "out", "mem", "undec", "unk", "ihash", "dhash")


def est_steps(variant, algo, ln, off):
    """rough number of single steps of one job (measured on this library; used for scheduling and
    for choosing how many keys fit the budget, never for a verdict)"""
    a512 = variant.startswith("avx512")
    if algo in ("des", "docsis"):
        blocks = max(1, (ln + 7) // 8)
        return 1200 + 2200 * blocks if a512 else 78000 * blocks
    if algo == "des3":
        blocks = max(1, (ln + 7) // 8)
        return 1700 + 6600 * blocks if a512 else 233000 * blocks
    if algo == "kasumi_f8":
        return 44500 * (1 + (ln + 63) // 64)
    if algo == "kasumi_f9":
        return 44500 * (2 + (ln + 7) // 8)
    return 12000 + ln // 2


def step_classes(tier):
    """(algo, dir, len, off) public classes; at least one non-block-multiple where the mode allows it"""
    c = {}
    th = tier != "quick"
    for d in (1, 2):
        c[("des", d)] = [(8, 0), (24, 0)] if th else [(8, 0), (16, 0)]
        c[("des3", d)] = [(8, 0), (16, 0)] if th else [(8, 0), (16, 0)]
        c[("docsis", d)] = [(5, 0), (16, 0), (21, 0)] if th else [(5, 0), (13, 0)]
    c[("kasumi_f8", 1)] = [(64, 0), (77, 3), (130, 5)] if th else [(64, 0), (77, 3)]
    c[("kasumi_f9", 1)] = [(9, 0), (16, 0), (21, 0)] if th else [(9, 0), (21, 0)]
    c[("snow3g_uea2", 1)] = [(32, 0), (256, 0), (77, 3), (200, 13), (1024, 0)] if th else [(256, 0), (77, 3)]
    c[("snow3g_uia2", 1)] = [(8, 0), (64, 0), (77, 0), (300, 0)] if th else [(64, 0), (77, 0)]
    return c


def plan(rng, tier, variants, key_variants, keylen, ivlen):
    """-> list of tasks.  A task = one k7_step process = one (variant, public class, batch) with a list
    of groups that differ in the keys only.

    Budget (a single step costs ~40-50 us on this host, the #DB trap leaves the VM): the cheap paths
    (AVX512 DES x16, SNOW3G everywhere: 3-15 k steps per job) get all 9 keys, every class and a
    several-jobs-in-flight scenario; the C code paths with 64-row scans (DES/3DES/DOCSIS on SSE/AVX2:
    78 k steps per DES block; KASUMI on every variant: 44 k steps per block - the SAME kernel
    functions on every variant, only the manager glue differs) get 2..5 keys; in the quick tier
    they are additionally sub-sampled per variant (rotating with the variant index and the seed)."""
    classes = step_classes(tier)
    th = tier != "quick"
    tasks = []
    rot = rng.below(1 << 20)
    for vi, variant in enumerate(variants):
        for (algo, d), lst in classes.items():
            expensive = est_steps(variant, algo, lst[0][0], lst[0][1]) > 40000
            use = list(lst)
            if expensive and not th:
                if algo in ("des", "des3", "docsis"):
                    # one (mode, direction) per variant
                    if (algo, d) != [("des", 1), ("docsis", 2), ("des3", 1), ("des", 2), ("docsis", 1), ("des3", 2)][(vi + rot) % 6]:
                        continue
                    use = [lst[0]] if algo == "des3" else [lst[(vi + rot) % len(lst)]]
                else:
                    # KASUMI: f8 or f9 per variant, one class
                    if algo != ("kasumi_f8", "kasumi_f9")[(vi + rot) % 2]:
                        continue
                    use = [lst[((vi + rot) // 2) % len(lst)]]
            for ci, (ln, off) in enumerate(use):
                keys = key_variants(rng, algo)
                iv = rng.bytes(ivlen[algo])
                mseed = rng.below(1 << 30)
                per_job = est_steps(variant, algo, ln, off)
                if not expensive:
                    nk = 9
                elif th:
                    nk = 5 if per_job <= 160000 else 3
                else:
                    nk = 3 if per_job <= 100000 else 2
                kidx = KEY_PRIORITY[:nk]
                tasks.append({"variant": variant, "algo": algo, "dir": d, "len": ln, "off": off, "batch": 1,
                              "keys": [keys[k] for k in kidx], "key_kinds": kidx, "iv": iv, "mseed": mseed,
                              "cost": per_job * nk})
                # several jobs in flight with different keys (multi-buffer managers); cheap paths only
                if not expensive and (th or ci == 0):
                    ng = 9 if th else 4
                    groups = [[keys[(g + j) % 9] for j in range(3)] for g in range(ng)]
                    tasks.append({"variant": variant, "algo": algo, "dir": d, "len": ln, "off": off, "batch": 3,
                                  "key_groups": groups, "iv": iv, "mseed": mseed,
                                  "lens": [(ln, off), lst[-1], (ln, off)], "cost": per_job * 3 * ng})
    return tasks


def task_lines(t):
    """script lines of a task (groups of t['batch'] consecutive lines)"""
    if t.get("direct"):
        return c19_direct.task_lines(t)      # api=direct:<name>: one call per group
    iv = t["iv"].hex() if t["iv"] else "-"
    L = []
    if t["batch"] == 1:
        for i, k in enumerate(t["keys"]):
            L.append("k%d %s %d %d %d %s %s %d" % (i, t["algo"], t["dir"], t["len"], t["off"], k.hex(), iv, t["mseed"]))
    else:
        for g, ks in enumerate(t["key_groups"]):
            for j, k in enumerate(ks):
                ln, off = t["lens"][j]
                L.append("g%dj%d %s %d %d %d %s %s %d" % (g, j, t["algo"], t["dir"], ln, off, k.hex(), iv, t["mseed"] + j))
    return L


def task_tag(t):
    if t.get("direct"):
        return "%s_direct_%s_%s_%d" % (t["variant"].replace(":", ""), t["api"], "x".join(str(x) for x in t["lens"]), t["off"])
    return "%s_%s_%d_%d_%d_b%d" % (t["variant"].replace(":", ""), t["algo"], t["dir"], t["len"], t["off"], t["batch"])


def class_str(t):
    if t.get("direct"):
        return c19_direct.class_str(t["api"], t["lens"], t["off"])
    return "%s/%d/%d/%d/b%d" % (t["algo"], t["dir"], t["len"], t["off"], t["batch"])


def seg_key(s):
    return tuple(s.get(k) for k in CMP_FIELDS)


def evaluate(t, r):
    """-> dict(ok, problems=[...], diff=(group_a, group_b) or None, stats)"""
    lines = task_lines(t)
    ngroups = len(lines) // t["batch"]
    out = {"ok": True, "harness": None, "diff": None, "pairs": 0, "steps": 0, "mem": 0, "undec": 0, "unk": 0,
           "out_steps": 0, "lib_steps": 0, "xst": 0, "distinct_outputs": 0}
    want = EXPECTED_TYPE.get(t["variant"])
    v = r.get("variant")
    if v is None or (want and (v.get("arch"), v.get("type")) != want):
        out.update(ok=False, harness="variant %s not available or of unexpected type: %s; stderr: %s"
                   % (t["variant"], v, r.get("stderr", "")[-300:]))
        return out
    segs = r["segs"]
    crashed = [s for s in segs if "crash" in s]
    if crashed:
        out.update(ok=False, harness="crash/hang inside the traced region: %s" % crashed[0])
        return out
    if r["rc"] != 0 or len(segs) != ngroups or len(r["cases"]) != len(lines):
        out.update(ok=False, harness="k7_step rc=%s segments=%d/%d cases=%d/%d stderr=%s"
                   % (r["rc"], len(segs), ngroups, len(r["cases"]), len(lines), r.get("stderr", "")[-300:]))
        return out
    bad = [c for c in r["cases"] if c.get("status") != "3"]
    if bad:
        out.update(ok=False, harness="job not completed: %s" % bad[0])
        return out
    for s in segs:
        out["steps"] += s["steps"]
        out["mem"] += s["mem"]
        out["undec"] += s["undec"]
        out["unk"] += s["unk"]
        out["out_steps"] += s["out"]
        out["lib_steps"] += s["lib"]
        out["xst"] += s["xst"]
    out["distinct_outputs"] = len(set(c.get("out") for c in r["cases"]))
    ref = segs[0]
    for g in range(1, ngroups):
        out["pairs"] += 1
        if seg_key(segs[g]) != seg_key(ref) and out["diff"] is None:
            out["ok"] = False
            out["diff"] = (0, g, {k: (ref.get(k), segs[g].get(k)) for k in CMP_FIELDS if ref.get(k) != segs[g].get(k)})
    return out


_sym_cache = {}


def source_of(so, rel):
    """lib-relative address -> 'function file:line' (addr2line; NASM objects carry line info as well)"""
    key = (so, rel)
    if key not in _sym_cache:
        # GNU addr2line 2.40 names the compilation unit instead of the included header for inlined code of DWARF 5
        # objects (kasumi_sse.c:345 for kasumi_internal.h:345); llvm-addr2line reads the file index correctly and
        # handles the NASM objects as well.  Fall back to GNU addr2line when it is missing or has no answer.
        fn, loc = "?", "?"
        for tool in ("llvm-addr2line", "addr2line"):
            if shutil.which(tool) is None:
                continue
            p = common.run([tool, "-f", "-i", "-e", so, "0x%x" % rel], timeout=120)
            ls = [l.strip() for l in p.stdout.splitlines() if l.strip()]
            frames = [(ls[i], ls[i + 1].split()[0]) for i in range(0, len(ls) - 1, 2)]      # innermost inlined frame first
            if not frames:
                continue
            # innermost frame inside the library's source tree (not the compiler's intrinsic headers: smmintrin.h:401 ...)
            own = [f for f in frames if f[1].startswith(common.REPO + "/")]
            fn, loc = (own or frames)[0]
            if not loc.startswith("?"):
                break
        loc = re.sub(r"^.*?/lib/", "lib/", loc)
        _sym_cache[key] = (fn, loc)
    return _sym_cache[key]


def disasm_at(so, rel):
    p = common.run(["objdump", "-d", "--no-show-raw-insn", "-M", "intel", "--start-address=0x%x" % rel,
                    "--stop-address=0x%x" % (rel + 16), so], timeout=120)
    for l in p.stdout.splitlines():
        m = LINE_RE.match(l)
        if m and int(m.group(1), 16) == rel:
            return " ".join(m.group(2).split())
    return "?"


def first_divergence(exe, so, t, ga, gb, images, workdir, tag):
    """re-run two groups of a task with full dumps and locate the first differing step"""
    lines = task_lines(t)
    b = t["batch"]
    pair = lines[ga * b:(ga + 1) * b] + lines[gb * b:(gb + 1) * b]
    da, db = os.path.join(workdir, "sd_%s_a.txt" % tag), os.path.join(workdir, "sd_%s_b.txt" % tag)
    r = run_step(exe, t["variant"], pair, "div_" + tag, images, workdir, batch=b, dumps=((0, da), (1, db)))
    res = {"lines_a": pair[:b], "lines_b": pair[b:], "segments": [{k: s.get(k) for k in CMP_FIELDS} for s in r["segs"]]}
    res.update(divergence_from_dumps(so, da, db))
    return res


def divergence_from_dumps(so, da, db):
    res = {}
    try:
        fa, fb = open(da), open(db)
    except OSError:
        res["note"] = "dump failed"
        return res
    n = 0
    prev = None

    def lib_rel(line):
        m = re.match(r"I lib\+([0-9a-f]+)", line or "")
        return int(m.group(1), 16) if m else None
    last_lib = None
    for la, lb in zip(fa, fb):
        if la != lb:
            ia, ib = la.split()[:2], lb.split()[:2]
            res["step_index"] = n
            res["key_a"], res["key_b"] = la.strip(), lb.strip()
            if ia != ib:
                # control flow: the previous instruction decided differently
                res["kind"] = "branch"
                at = lib_rel(prev)
                res["branch_instruction"] = (prev or "").strip()
                res["targets"] = [" ".join(ia), " ".join(ib)]
            else:
                res["kind"] = "address"
                at = lib_rel(la)
                res["addresses"] = [" ".join(la.split()[2:]), " ".join(lb.split()[2:])]
            if at is None:
                at = last_lib
                res["note"] = "the diverging instruction is outside the library; last library instruction reported"
            if at is not None:
                fn, loc = source_of(so, at)
                res["rip"] = "lib+%x" % at
                res["function"], res["source"] = fn, loc
                res["instruction"] = disasm_at(so, at)
                tgt = [lib_rel(la), lib_rel(lb)] if res["kind"] == "branch" else []
                res["target_sources"] = [("%s %s" % source_of(so, x)) if x is not None else "?" for x in tgt]
            return res
        n += 1
        prev = la
        x = lib_rel(la)
        if x is not None:
            last_lib = x
    res["note"] = "traces differ in length only"
    res["common_prefix_steps"] = n
    if last_lib is not None:
        res["function"], res["source"] = source_of(so, last_lib)
    return res
