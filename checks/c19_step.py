"""C19 tie (d): native single-step traces (harness/k7_step.c) on every variant the host executes.

build_optab(image, out): `objdump -D -M intel --no-show-raw-insn` of the executable sections of an
ELF image -> binary table with one record per instruction (address, memory operand in the form
base/index/scale/disp | rip-relative target | vector index | string | implicit stack | undecoded).
run_step(...): run k7_step on a script; parse SEG/CASE lines.
"""
import os, re, struct, subprocess, json
from . import common

REC = struct.Struct("<IBBBBqHBBB3x")
assert REC.size == 24
K_NONE, K_MEM, K_RIP, K_VSIB, K_STR, K_STACK, K_UNDEC = range(7)
F_WRITE, F_ADDR32, F_MASKED, F_FS, F_GS, F_IDX64, F_SI, F_DI = 1, 2, 4, 8, 16, 32, 64, 128

GPR64 = ["rax", "rcx", "rdx", "rbx", "rsp", "rbp", "rsi", "rdi"] + ["r%d" % i for i in range(8, 16)]
GPR32 = ["eax", "ecx", "edx", "ebx", "esp", "ebp", "esi", "edi"] + ["r%dd" % i for i in range(8, 16)]
REGNUM = {n: i for i, n in enumerate(GPR64)}
REGNUM32 = {n: i for i, n in enumerate(GPR32)}
SIZES = {"BYTE": 1, "WORD": 2, "DWORD": 4, "QWORD": 8, "XMMWORD": 16, "YMMWORD": 32, "ZMMWORD": 64,
         "TBYTE": 10, "FWORD": 6, "OWORD": 16}
PREFIXES = {"rep", "repz", "repnz", "repe", "repne", "lock", "notrack", "bnd", "data16", "addr32", "cs", "ds", "es",
            "ss", "fs", "gs", "{vex}", "{vex3}", "{evex}", "{disp8}", "{disp32}", "xacquire", "xrelease"}
NO_ACCESS = {"lea", "nop", "endbr64", "endbr32", "fnop"}
# the memory operand is read although it is the first operand
READ_FIRST = {"cmp", "test", "bt", "push", "call", "jmp", "ucomiss", "ucomisd", "comiss", "comisd", "ptest", "vptest",
              "prefetcht0", "prefetcht1", "prefetcht2", "prefetchnta", "prefetchw", "clflush", "clflushopt", "ldmxcsr",
              "vldmxcsr", "fld", "fild", "fldcw", "mul", "div", "imul", "idiv", "fxrstor", "xrstor", "fidivr"}
STACK_INS = {"push": (8, 1), "pop": (8, 0), "call": (8, 1), "ret": (8, 0), "leave": (8, 0), "pushf": (8, 1),
             "popf": (8, 0), "enter": (8, 1), "iret": (8, 0)}
STRING_INS = {"movs": F_SI | F_DI | F_WRITE, "stos": F_DI | F_WRITE, "lods": F_SI, "cmps": F_SI | F_DI, "scas": F_DI,
              "ins": F_DI | F_WRITE, "outs": F_SI}
MEM_RE = re.compile(r"(?:\b(BYTE|WORD|DWORD|QWORD|XMMWORD|YMMWORD|ZMMWORD|TBYTE|FWORD|OWORD) PTR )?"
                    r"(?:\b(cs|ds|es|fs|gs|ss):)?(\[[^\]]*\]|0x[0-9a-f]+\b)")
LINE_RE = re.compile(r"^\s*([0-9a-f]+):\t(.*)$")
EXEC_SECTIONS = [".init", ".plt", ".plt.got", ".plt.sec", ".text", ".fini"]


def split_operands(s):
    out, depth, cur = [], 0, ""
    for ch in s:
        if ch in "[{(":
            depth += 1
        elif ch in "]})":
            depth -= 1
        if ch == "," and depth == 0:
            out.append(cur.strip())
            cur = ""
        else:
            cur += ch
    if cur.strip():
        out.append(cur.strip())
    return out


def parse_bracket(expr):
    """'rax+rbx*8-0x10' -> dict(base, index, scale, disp, addr32, vsib, rip) or None"""
    r = {"base": 0xff, "index": 0xff, "scale": 1, "disp": 0, "addr32": False, "vsib": None, "rip": False}
    for sign, term in re.findall(r"([+-]?)([^+-]+)", expr):
        term = term.strip()
        neg = sign == "-"
        m = re.fullmatch(r"([a-z0-9]+)\*([1248])", term)
        if m:
            reg, sc = m.group(1), int(m.group(2))
            if reg in ("riz", "eiz"):
                continue
            if neg:
                return None
            vm = re.fullmatch(r"([xyz])mm(\d+)", reg)
            if vm:
                r["vsib"] = (vm.group(1), int(vm.group(2)))
                r["scale"] = sc
                continue
            if reg in REGNUM:
                r["index"] = REGNUM[reg]
            elif reg in REGNUM32:
                r["index"] = REGNUM32[reg]
                r["addr32"] = True
            else:
                return None
            r["scale"] = sc
            continue
        if re.fullmatch(r"0x[0-9a-f]+|\d+", term):
            v = int(term, 0)
            r["disp"] += -v if neg else v
            continue
        if neg:
            return None
        if term == "rip":
            r["rip"] = True
            continue
        if term == "eip":
            return None
        vm = re.fullmatch(r"([xyz])mm(\d+)", term)
        if vm:
            r["vsib"] = (vm.group(1), int(vm.group(2)))
            continue
        if term in REGNUM or term in REGNUM32:
            n = REGNUM.get(term, REGNUM32.get(term))
            if term in REGNUM32:
                r["addr32"] = True
            if r["base"] == 0xff:
                r["base"] = n
            elif r["index"] == 0xff:
                r["index"] = n
            else:
                return None
            continue
        return None
    return r


def decode_line(addr, text, next_addr):
    """-> tuple for REC.pack, or None for lines that are not instructions"""
    text = text.split("#", 1)[0].strip()
    if not text or text.startswith("(bad)") or text.startswith("."):
        return None
    toks = text.split(None)
    i = 0
    while i < len(toks) and (toks[i] in PREFIXES or toks[i].startswith("rex")):
        i += 1
    if i >= len(toks):
        return (addr, K_NONE, 0xff, 0xff, 1, 0, 0, 0, 0, 0)      # prefix-only line
    mnem = toks[i]
    rest = text.split(mnem, 1)[1].strip() if mnem in text else ""
    addr32_prefix = "addr32" in toks[:i]
    ops = split_operands(rest)
    memops = [(k, o) for k, o in enumerate(ops) if MEM_RE.search(o) and ("[" in o or re.search(r"\b[c-gs]s:0x", o))]
    base_mnem = mnem
    if mnem in NO_ACCESS or mnem.startswith("nop"):
        return (addr, K_NONE, 0xff, 0xff, 1, 0, 0, 0, 0, 0)
    sm = re.fullmatch(r"(movs|stos|lods|cmps|scas|ins|outs)[bwdq]?", mnem)
    if sm and "mm" in rest:          # movsd / cmpsd with an xmm operand are SSE2 instructions
        sm = None
    if sm:
        fl = STRING_INS[sm.group(1)]
        size = 0
        for _, o in memops:
            m = MEM_RE.search(o)
            if m and m.group(1):
                size = SIZES[m.group(1)]
        if any("[e" in o for _, o in memops) or addr32_prefix:
            fl |= F_ADDR32
        return (addr, K_STR, 0xff, 0xff, 1, 0, size, fl, 0, 0)
    if mnem == "xlat" or mnem == "xlatb":
        return (addr, K_UNDEC, 0xff, 0xff, 1, 0, 1, 0, 0, 0)
    if not memops:
        if base_mnem in STACK_INS:
            sz, wr = STACK_INS[base_mnem]
            return (addr, K_STACK, 0xff, 0xff, 1, 0, sz, F_WRITE if wr else 0, 0, 0)
        return (addr, K_NONE, 0xff, 0xff, 1, 0, 0, 0, 0, 0)
    if len(memops) > 1:
        return (addr, K_UNDEC, 0xff, 0xff, 1, 0, 0, 0, 0, 0)
    pos, op = memops[0]
    m = MEM_RE.search(op)
    size = SIZES.get(m.group(1), 0) if m.group(1) else 0
    seg = m.group(2)
    body = m.group(3)
    flags = 0
    if pos == 0 and base_mnem not in READ_FIRST and not base_mnem.startswith("cmp") and not base_mnem.startswith("prefetch"):
        flags |= F_WRITE
    if seg == "fs":
        flags |= F_FS
    elif seg == "gs":
        flags |= F_GS
    tail = op[m.end():]
    mask = 0
    km = re.search(r"\{k([1-7])\}", rest)     # EVEX opmask anywhere: masked-out elements are not accessed
    if km:
        flags |= F_MASKED
        mask = int(km.group(1))
    if not body.startswith("["):
        # absolute: seg:0x28
        disp = int(body, 16)
        if disp >= 1 << 31:
            return (addr, K_UNDEC, 0xff, 0xff, 1, 0, size, 0, 0, 0)
        return (addr, K_MEM, 0xff, 0xff, 1, disp, size, flags, mask, 0)
    br = parse_bracket(body[1:-1])
    if br is None:
        return (addr, K_UNDEC, 0xff, 0xff, 1, 0, size, 0, 0, 0)
    if br["addr32"] or addr32_prefix:
        flags |= F_ADDR32
    if br["rip"]:
        if next_addr is None or br["base"] != 0xff or br["index"] != 0xff:
            return (addr, K_UNDEC, 0xff, 0xff, 1, 0, size, 0, 0, 0)
        return (addr, K_RIP, 0xff, 0xff, 1, next_addr + br["disp"], size, flags & ~F_ADDR32, mask, 0)
    if br["vsib"] is not None:
        g = re.fullmatch(r"v?p?(gather|scatter)(pf[01])?([dq])(d|q|ps|pd)", base_mnem)
        if not g:
            return (addr, K_UNDEC, 0xff, 0xff, 1, 0, size, 0, 0, 0)
        vw = {"x": 16, "y": 32, "z": 64}[br["vsib"][0]]
        idx64 = g.group(3) == "q"
        esz = 4 if g.group(4) in ("d", "ps") else 8
        # width of the data register operand
        dreg = None
        for k, o in enumerate(ops):
            if k != pos:
                rm = re.match(r"([xyz])mm(\d+)", o)
                if rm:
                    dreg = {"x": 16, "y": 32, "z": 64}[rm.group(1)]
                    break
        lanes_idx = vw // (8 if idx64 else 4)
        lanes = min(lanes_idx, (dreg // esz) if dreg else lanes_idx)
        if idx64:
            flags |= F_IDX64
        if g.group(1) == "scatter":
            flags |= F_WRITE
        else:
            flags &= ~F_WRITE
        if not (flags & F_MASKED):
            # AVX2 form: gather dst,[vsib],maskvec
            mv = re.fullmatch(r"([xyz])mm(\d+)", ops[-1]) if len(ops) == 3 else None
            if not mv:
                return (addr, K_UNDEC, 0xff, 0xff, 1, 0, size, 0, 0, 0)
            mask = 0x80 | int(mv.group(2))
        return (addr, K_VSIB, br["base"], br["vsib"][1], br["scale"], br["disp"], esz, flags, mask, lanes)
    return (addr, K_MEM, br["base"], br["index"], br["scale"], br["disp"], size, flags, mask, 0)


_FAST_NONE = {}


def decode_fast(addr, text):
    """instructions without any memory syntax: only the implicit stack accesses matter"""
    t = text.split(None, 2)
    m = t[0]
    if m in PREFIXES or m.startswith("rex") or m.startswith("."):
        return decode_line(addr, text, None)
    if m in STACK_INS:
        sz, wr = STACK_INS[m]
        return (addr, K_STACK, 0xff, 0xff, 1, 0, sz, F_WRITE if wr else 0, 0, 0)
    if m in ("xlat", "xlatb"):
        return (addr, K_UNDEC, 0xff, 0xff, 1, 0, 1, 0, 0, 0)
    return (addr, K_NONE, 0xff, 0xff, 1, 0, 0, 0, 0, 0)


def exec_sections(image):
    out = common.run(["readelf", "-S", "-W", image], check=True).stdout
    secs = []
    for l in out.splitlines():
        m = re.search(r"\]\s+(\S+)\s+PROGBITS\s+[0-9a-f]+\s+[0-9a-f]+\s+[0-9a-f]+\s+\d+\s+(\S+)", l)
        if m and "X" in m.group(2):
            secs.append(m.group(1))
    return secs


def build_optab(image, out, timeout=900):
    """returns stats dict; cached in <out>.json keyed on the image's (mtime_ns, size)"""
    real = os.path.realpath(image)
    st = os.stat(real)
    stamp = [real, st.st_mtime_ns, st.st_size, REC.size, 3]
    meta = out + ".json"
    if os.path.exists(out) and os.path.exists(meta):
        try:
            j = json.load(open(meta))
            if j.get("stamp") == stamp:
                return j
        except Exception:
            pass
    ph = common.run(["readelf", "-l", "-W", real], check=True).stdout
    first = re.search(r"LOAD\s+0x([0-9a-f]+)\s+0x([0-9a-f]+)", ph)
    if not first or int(first.group(2), 16) - int(first.group(1), 16) != 0:
        raise RuntimeError("%s: first PT_LOAD has vaddr != offset (not position independent?)" % image)
    cmd = ["objdump", "-D", "--no-show-raw-insn", "-M", "intel"]
    for s in exec_sections(real):
        cmd += ["-j", s]
    p = subprocess.run(cmd + [real], stdout=subprocess.PIPE, stderr=subprocess.PIPE, timeout=timeout)
    if p.returncode != 0:
        raise RuntimeError("objdump failed: " + p.stderr.decode(errors="replace")[-500:])
    lines = []
    for l in p.stdout.decode(errors="replace").splitlines():
        m = LINE_RE.match(l)
        if m:
            lines.append((int(m.group(1), 16), m.group(2)))
        elif not l.strip() or l.endswith(":") or l.startswith("Disassembly"):
            lines.append(None)       # section / symbol boundary
    recs = []
    stats = {"instructions": 0, "mem": 0, "rip": 0, "vsib": 0, "string": 0, "stack": 0, "undecoded": 0, "masked": 0}
    undec_samples = []
    n = len(lines)
    for i, it in enumerate(lines):
        if it is None:
            continue
        addr, text = it
        nxt = None
        j = i + 1
        while j < n and lines[j] is None:
            j += 1
        if j < n:
            nxt = lines[j][0]
        if "[" not in text and ":0x" not in text and "s" not in text[:6] and "(" not in text:
            # fast path: no memory syntax, not a string instruction, not push/pop/call/ret... handled below
            r = decode_fast(addr, text)
        else:
            r = decode_line(addr, text, nxt)
        if r is None:
            continue
        try:
            REC.pack(*r)
        except struct.error:
            r = (addr, K_UNDEC, 0xff, 0xff, 1, 0, 0, 0, 0, 0)
        stats["instructions"] += 1
        k = r[1]
        key = {K_MEM: "mem", K_RIP: "rip", K_VSIB: "vsib", K_STR: "string", K_STACK: "stack", K_UNDEC: "undecoded"}.get(k)
        if key:
            stats[key] += 1
        if r[7] & F_MASKED:
            stats["masked"] += 1
        if k == K_UNDEC and len(undec_samples) < 12:
            undec_samples.append("%x: %s" % (addr, text))
        recs.append(r)
    recs.sort(key=lambda r: r[0])
    # objdump lists an address once; keep the first record of duplicates (overlapping sections never happen)
    tmp = out + ".tmp.%d" % os.getpid()
    with open(tmp, "wb") as f:
        dedup = []
        last = -1
        for r in recs:
            if r[0] != last:
                dedup.append(r)
                last = r[0]
        f.write(b"K7OPTAB1" + struct.pack("<Q", len(dedup)))
        buf = bytearray()
        for r in dedup:
            buf += REC.pack(*r)
        f.write(buf)
    os.replace(tmp, out)
    j = {"stamp": stamp, "stats": stats, "undecoded_samples": undec_samples, "image": real}
    with open(meta + ".tmp.%d" % os.getpid(), "w") as f:
        json.dump(j, f)
    os.replace(meta + ".tmp.%d" % os.getpid(), meta)
    return j


def parse_step_output(stdout):
    segs, cases, end, variant, mp = [], [], None, None, None
    for l in stdout.splitlines():
        if l.startswith("SEG "):
            t = l.split()
            kv = dict(x.split("=", 1) for x in t[2:])
            s = {k: (v if k in ("ihash", "dhash", "rip") else int(v)) for k, v in kv.items()}
            s["group"] = int(t[1])
            segs.append(s)
        elif l.startswith("CASE "):
            cases.append(dict(x.split("=", 1) for x in l.split()[1:]))
        elif l.startswith("END "):
            end = dict(x.split("=", 1) for x in l.split()[1:])
        elif l.startswith("VARIANT "):
            variant = dict(x.split("=", 1) for x in l.split()[1:])
        elif l.startswith("MAP "):
            mp = l
    return {"segs": segs, "cases": cases, "end": end, "variant": variant, "map": mp}


def run_step(exe, variant, lines, tag, images, workdir, batch=1, dumps=(), timeout=900):
    sp = os.path.join(workdir, "st_%s.txt" % tag)
    with open(sp, "w") as f:
        f.write("\n".join(lines) + "\n")
    cmd = [exe, variant, sp]
    for match, tab in images:
        cmd += ["--image", match, tab]
    cmd += ["--batch", str(batch)]
    for idx, path in dumps:
        cmd += ["--dump", str(idx), path]
    try:
        p = common.run(cmd, env=common.lib_env(), timeout=timeout)
        r = parse_step_output(p.stdout)
        r.update({"rc": p.returncode, "stderr": p.stderr[-600:], "script": sp})
    except subprocess.TimeoutExpired as ex:
        so = ex.stdout.decode(errors="replace") if isinstance(ex.stdout, bytes) else (ex.stdout or "")
        r = parse_step_output(so)
        r.update({"rc": -9, "stderr": "timeout (hang)", "script": sp})
    return r
