"""C16 — re-attaching to a manager after a crash (imb_set_pointers_mb_mgr(ptr, flags, 0)) and flushing
hands back every job in flight, in order, completed; the manager stays usable.

Proof:  coq/Props/Properties_C16.v over Mgr/Reattach.v (image of lib/x86_64/alloc.c, statement list, switch,
        ooo_mgr_table regenerated into Gen/GenReset.v by translators/t7_reset.py) and the ring theorems of C05.
Tie:    harness/k16_reattach.c — manager + all job buffers + key material in one MAP_SHARED|MAP_FIXED region;
        histories on every variant, crash point after every call (short histories) or sampled (long ones);
        re-attachment in the same process, in a forked child, and in a freshly exec'ed process with the
        library at another base (ASLR; both bases recorded); flush order/status/results compared with the
        pending list, with a control run without re-attachment, with an un-crashed twin and with each job
        run alone; handlers and OOO pointers checked after re-attachment; pointer provenance scanned at
        every crash point.
Search: the same oracle is the property; a broken translator/proof widens the search before
        `no-failing-input-found`."""
import os, sys, json, time, re, concurrent.futures as cf
from . import common, c15_gen
from .common import Rng, Result, log
from .c15_gen import VARIANTS, vname

PID = "C16"
MODES = ["same", "fork", "exec"]
STOP = {"violations": 0}     # once enough failing runs are in, the remaining ones are not started
STOP_AFTER = 12


def run_one(args):
    key, script_path, v, k, mode, k16, workdir = args
    if STOP["violations"] >= STOP_AFTER:
        return {"key": key, "mode": mode, "k": k, "rc": 3, "stderr": "", "fails": [], "after": [], "results": {}, "summary": {}, "occ": {},
                "scan": {}, "lib": None, "pending": None, "skipped": True, "violation": False, "not_run": True}
    arena = os.path.join(workdir, "arena_%s" % key)
    cmd = [k16, "run", v[0], str(v[1]), script_path, str(k), mode, arena]
    try:
        p = common.run(cmd, env=common.lib_env(), timeout=120)
        rc, out, err = p.returncode, p.stdout, p.stderr
    except Exception as ex:
        rc, out, err = -9, (getattr(ex, "stdout", None) or ""), "harness did not terminate within 120 s"
        if isinstance(out, bytes):
            out = out.decode(errors="replace")
    if rc == -14:
        err = "harness killed by its own alarm: a call into the library did not return (hang)"
    try:
        os.remove(arena)
    except OSError:
        pass
    lines = out.splitlines()
    r = {"key": key, "mode": mode, "k": k, "rc": rc, "stderr": err[-300:], "fails": [l for l in lines if l.startswith(("FAIL", "PTRBAD", "FNPTRBAD", "OOOPTRBAD", "ROADBLOCK"))][:8],
         "after": [l for l in lines if l.startswith(("F ", "C ", "AFTERFLUSH"))],
         "results": {}, "summary": {}, "occ": {}, "scan": {}, "lib": None, "pending": None}
    for l in lines:
        if l.startswith("SUMMARY"):
            r["summary"] = {t.split("=")[0]: int(t.split("=")[1]) for t in l.split()[1:] if re.match(r"^\w+=-?\d+$", t)}
        elif l.startswith("H OCC"):
            r["occ"] = {t.split("=")[0]: int(t.split("=")[1]) for t in l.split()[2:] if re.match(r"^\w+=\d+$", t)}
        elif l.startswith("SCAN"):
            r["scan"] = {t.split("=")[0]: int(t.split("=")[1]) for t in l.split()[1:] if re.match(r"^\w+=\d+$", t)}
        elif l.startswith("LIB "):
            r["lib"] = l
        elif l.startswith("PENDING"):
            r["pending"] = l
        elif l[:4] in ("H R ", "F R ", "C R "):
            m = re.match(r"^. R id=(\d+) (.*)$", l)
            if m:
                r["results"][int(m.group(1))] = m.group(2)
    r["skipped"] = rc == 3
    r["violation"] = (rc not in (0, 3)) or bool(r["fails"])
    if r["violation"]:
        STOP["violations"] += 1
    return r


def make_history(rng, pool, park, n_ops):
    used = sorted({f for f in park if f and f != "immediate"})
    targets = [rng.choice(used) for _ in range(8)]
    h = c15_gen.History()
    c15_gen.gen_ops(rng, h, pool, park, n_ops, targets)
    return h.lines(), len(h.ops)


def plan(rng, pool, parks, tier, variants):
    """-> list of (variant, script lines, nops, [crash points])"""
    out = []
    for v in variants:
        nshort, nlong = (1, 1) if tier == "quick" else (4, 6)
        for _ in range(nshort):
            lines, nops = make_history(rng, pool, parks[v], 16 + rng.below(24))
            out.append((v, lines, nops, list(range(0, nops + 1))))
        for _ in range(nlong):
            lines, nops = make_history(rng, pool, parks[v], 80 + rng.below(200 if tier == "quick" else 500))
            ks = sorted({rng.below(nops + 1) for _ in range(5 if tier == "quick" else 14)})
            out.append((v, lines, nops, ks))
    return out


def signature(v, r, what):
    f = r["fails"][0] if r["fails"] else what
    return "%s/%s/%s" % (vname(v), r["mode"], re.sub(r"[^A-Za-z]+", "-", f.split(":")[0])[:24])


def main(tier, seed):
    STOP["violations"] = 0
    res = Result(PID, tier, seed, "proof")
    t0 = time.time()
    tb = common.build_lib()
    consts, info, terr = c15_gen.run_translators()
    workdir = os.path.join(common.BUILD, "c16")
    os.makedirs(workdir, exist_ok=True)
    k16 = k15 = None
    herr = None
    try:
        k15 = c15_gen.build_k15()
        k16 = c15_gen.build_k16()
    except Exception as e:
        herr = str(e)[-1500:]
    pres = common.props_check(PID, extra_targets=["Props/Examples_C16.vo"]) if not terr else \
        {"obligations": len(common.coq_theorems("Props/Properties_C16.v")), "discharged": 0, "failed": ["translator: " + terr],
         "axioms": {}, "log": terr, "theorems": common.coq_theorems("Props/Properties_C16.v")}
    common.proof_coverage(res, pres, "make -k Props/Properties_C16.vo Props/Examples_C16.vo (coqc 8.16.1, full .vo) + Print Assumptions",
                          ["Coq 8.16.1 kernel incl. vm_compute (finite-domain lemmas over Gen/GenReset.v, Gen/GenLayout.v)",
                           "the ring theorems of C05 (Proofs/RingProofs.v) and their oracle contract op_ok for the out-of-order managers",
                           "translators/t7_reset.py, t8_layout.py (alloc.c statement list, switch on used_arch, ooo_mgr_table; layouts)",
                           "harness/k16_reattach.c + harness/imbh.c + the --wrap allocator of harness/k15_ops.h (correspondence)",
                           "not modelled: address spaces — pointers cached inside the block are covered by field classification (static) "
                           "and by re-attachment in a relocated process (dynamic, on the histories explored)"])
    broken = bool(terr) or pres["discharged"] != pres["obligations"] or bool(pres["failed"]) or pres["obligations"] == 0
    results = {}
    plans = []
    variants = []
    probe_failures = []
    if k16 and k15:
        pool = c15_gen.load_pool()
        parks, probe_failures = c15_gen.probe_all(k15, pool, workdir)
        variants = [v for v in VARIANTS if v in parks]
        rng = Rng(seed)
        plans = plan(rng, pool, parks, tier, variants)
        if broken and tier == "quick":
            plans += plan(Rng(seed + 7919), pool, parks, "thorough", variants)[: 4 * len(variants)]
        jobs = []
        for hi, (v, lines, nops, ks) in enumerate(plans):
            sp = os.path.join(workdir, "hist_%d.txt" % hi)
            with open(sp, "w") as f:
                f.write("\n".join(lines) + "\n")
            jobs.append(("%d_twin" % hi, sp, v, nops, "none", k16, workdir))
            for k in ks:
                jobs.append(("%d_%d_none" % (hi, k), sp, v, k, "none", k16, workdir))
                for m in MODES:
                    jobs.append(("%d_%d_%s" % (hi, k, m), sp, v, k, m, k16, workdir))
        with cf.ThreadPoolExecutor(max_workers=common.NCPU) as ex:
            for r in ex.map(run_one, jobs):
                results[r["key"]] = r
        for hi in range(len(plans)):
            try:
                os.remove(os.path.join(workdir, "hist_%d.txt" % hi))
            except OSError:
                pass

    # ---- compare
    viol = []   # (variant, history index, k, result, what)
    stats = {"crash_points": 0, "reattachments": 0, "relocated": 0, "not_relocated": 0, "pending_flushed": 0, "max_pending": 0,
             "busy_lane_ptrs_checked": 0, "idle_lane_stale_ptrs": 0, "idle_lane_library_ptrs": 0, "libwords": 0, "alone": 0}
    per_mode = {m: 0 for m in MODES}
    occ_cov = {}
    nontrivial = 0
    for hi, (v, lines, nops, ks) in enumerate(plans):
        twin = results.get("%d_twin" % hi)
        if twin is None or twin["skipped"]:
            continue
        if twin["violation"]:
            viol.append((v, hi, nops, twin, "un-crashed twin run fails"))
            continue
        for k in ks:
            ctl = results["%d_%d_none" % (hi, k)]
            if ctl.get("not_run") or any(results["%d_%d_%s" % (hi, k, m)].get("not_run") for m in MODES):
                continue
            stats["crash_points"] += 1
            if ctl["violation"]:
                viol.append((v, hi, k, ctl, "control run (flush at k without re-attachment) fails"))
                continue
            for f, n in ctl["occ"].items():
                occ_cov.setdefault(vname(v), set()).add(f)
            for kk in ("busy_lane_ptrs_checked", "idle_lane_stale_ptrs", "idle_lane_library_ptrs", "libwords"):
                stats[kk] += ctl["scan"].get(kk, 0)
            for m in MODES:
                r = results["%d_%d_%s" % (hi, k, m)]
                stats["reattachments"] += 1
                per_mode[m] += 1
                pend = r["summary"].get("pending_at_crash", 0)
                stats["pending_flushed"] += r["summary"].get("flushed", 0)
                stats["max_pending"] = max(stats["max_pending"], pend)
                stats["alone"] += r["summary"].get("alone_checked", 0)
                if pend >= 2:
                    nontrivial += 1
                if m == "exec":
                    stats["relocated" if r["summary"].get("relocated") else "not_relocated"] += 1
                what = None
                if r["violation"]:
                    what = "re-attached run fails"
                elif r["after"] != ctl["after"]:
                    what = "trace after re-attachment differs from the run without re-attachment"
                    for a, b in zip(r["after"], ctl["after"]):
                        if a != b:
                            r["fails"] = ["DIFF reattached: " + a[:200], "DIFF control   : " + b[:200]]
                            break
                else:
                    for jid, txt in r["results"].items():
                        if twin["results"].get(jid) != txt:
                            what = "result of job %d differs from the un-crashed twin" % jid
                            r["fails"] = ["DIFF here: " + txt[:200], "DIFF twin: " + str(twin["results"].get(jid))[:200]]
                            break
                    if what is None and set(r["results"]) != set(twin["results"]):
                        what = "set of jobs handed back differs from the un-crashed twin"
                if what:
                    viol.append((v, hi, k, r, what))

    res.coverage.update({
        "evaluations": stats["reattachments"], "distinct_nontrivial": nontrivial,
        "rule": "one evaluation = one (variant, history, crash point, re-attachment mode) run on the rebuilt library, compared with the "
                "pending list, a control run, the un-crashed twin and alone-results; non-trivial = at least 2 jobs in flight at the crash point",
        "histories": len(plans), "crash_points": stats["crash_points"], "per_mode": per_mode, "variants": [vname(v) for v in variants],
        "exec_library_relocated": stats["relocated"], "exec_library_same_base": stats["not_relocated"],
        "jobs_flushed_after_reattach": stats["pending_flushed"], "max_jobs_in_flight_at_crash": stats["max_pending"],
        "alone_results_compared": stats["alone"],
        "managers_with_inflight_lanes_at_a_crash_point": {k: len(s) for k, s in occ_cov.items()},
        "pointer_scan": {k: stats[k] for k in ("busy_lane_ptrs_checked", "idle_lane_stale_ptrs", "idle_lane_library_ptrs", "libwords")},
        "samples": [{"variant": vname(p[0]), "nops": p[2], "crash_points": p[3][:10], "first_ops": p[1][-6:]} for p in plans[:2]],
        "traces_validated_against_impl": stats["reattachments"], "lib_build_s": round(tb, 1), "translator_error": terr, "harness_error": herr,
    })
    res.assumptions = ["block and buffers mapped at the same addresses by the re-attaching party (hypothesis of the property)",
                       "re-attachment with the flags stored in the block on the same CPU (other flags are outside 'without resetting it')",
                       "the job API and the burst API are not mixed while jobs are in flight (burst flush dispatches on job->suite_id)",
                       "idle lanes may keep stale pointers (e.g. stack addresses left by the self test); they are never dereferenced on the histories explored"]
    known = [l for kind, l in common.known_findings(PID) if kind == "known"]
    reported, seen = 0, set()
    for v, hi, k, r, what in viol:
        sig = signature(v, r, what)
        kf = [l for l in known if ("key=%s " % sig) in l + " "]
        if kf:
            if sig not in seen:
                res.known.append(kf[0].split(" ", 2)[-1])
            seen.add(sig)
            continue
        if sig in seen or reported >= 4:
            continue
        seen.add(sig)
        res.violation({"property": PID, "kind": what, "signature": sig, "variant": list(v), "k": k, "mode": r["mode"], "script": plans[hi][1],
                       "fails": r["fails"], "rc": r["rc"], "stderr": r["stderr"], "lib": r["lib"], "pending": r["pending"], "summary": r["summary"],
                       "seed": seed}, note="key=%s" % sig, name="reattach_%d_%d_%s" % (hi, k, r["mode"]))
        reported += 1
    for v, msg in probe_failures:
        res.violation({"property": PID, "kind": "a freshly allocated manager cannot be initialised / used", "variant": list(v), "detail": msg,
                       "seed": seed}, note="key=%s/init" % vname(v), name="init_%s_%d" % v)
        reported += 1
    for f in pres["failed"]:
        log("proof obligation failed:", f)
    if (broken or not k16) and reported == 0 and not res.known:
        what = {"property": PID, "seed": seed, "broken_obligations": pres["failed"], "translator_error": terr, "harness_error": herr,
                "proof_log_tail": pres["log"][-3000:], "reattachments_searched": stats["reattachments"],
                "note": "the model of imb_set_pointers_mb_mgr (Mgr/Reattach.v over Gen/GenReset.v) or a theorem of Props/Properties_C16.v no "
                        "longer checks against this tree; no history/crash point on which re-attachment loses, reorders or corrupts a job was found"}
        res.violation(what, note="no-failing-input-found", name="unproved")
    log("C16: %d histories, %d crash points, %d re-attachments, %d violations, %.1fs" % (len(plans), stats["crash_points"], stats["reattachments"],
                                                                                         len(res.violations), time.time() - t0))
    return res.finish()


def replay(path):
    rp = json.load(open(path))
    common.build_lib()
    consts, info, terr = c15_gen.run_translators()
    if terr:
        print("translator error:", terr)
    workdir = os.path.join(common.BUILD, "c16")
    os.makedirs(workdir, exist_ok=True)
    if "script" not in rp:
        print(json.dumps({k: rp.get(k) for k in ("broken_obligations", "translator_error", "note")}, indent=1))
        pres = common.props_check(PID)
        return 0 if (not terr and pres["discharged"] == pres["obligations"] and not pres["failed"]) else 1
    k16 = c15_gen.build_k16()
    sp = os.path.join(workdir, "replay.txt")
    open(sp, "w").write("\n".join(rp["script"]) + "\n")
    v = tuple(rp["variant"])
    nops = sum(1 for l in rp["script"] if not l.startswith("I "))
    twin = run_one(("rp_twin", sp, v, nops, "none", k16, workdir))
    ctl = run_one(("rp_ctl", sp, v, rp["k"], "none", k16, workdir))
    r = run_one(("rp", sp, v, rp["k"], rp["mode"], k16, workdir))
    bad = r["violation"] or ctl["violation"] or twin["violation"] or r["after"] != ctl["after"] or \
        any(twin["results"].get(j) != t for j, t in r["results"].items())
    print(json.dumps({"rc": r["rc"], "fails": r["fails"], "summary": r["summary"], "lib": r["lib"], "same_as_control": r["after"] == ctl["after"]}, indent=1))
    return 1 if bad else 0
