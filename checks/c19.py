"""C19 — SAFE_LOOKUP: no key-dependent branches or addresses (DES / 3DES / DOCSIS-DES, KASUMI, SNOW3G).

Proof: coq/Props/Properties_C19.v — instrumented source-shaped models (Struct/Leak.v): the
       trace (branches + memory addresses) of every job is a function of public quantities
       only, the constant-time scans return table[idx], the models compute the Spec functions.
       PARTIAL: the compiled binary, not the model, is what leaks.
Tie K7 (binary, SSE type 1 and AVX2 type 1 = what valgrind can execute):
  (a) memcheck with the key schedules marked UNDEFINED right before IMB_SUBMIT_JOB /
      IMB_FLUSH_JOB: any "Conditional jump or move depends on uninitialised value(s)" or "Use of
      uninitialised value of size N" whose stack passes through the library is a
      secret-dependent branch / address  ==> failing input, valgrind stack in the replay;
  (b) lackey --trace-mem: instruction-address and data-address sequences between two marker
      stores must be identical for 9 keys (base key, 3 single-bit flips, 0^n, 1^n, 3 random
      keys = 8 key pairs) per (variant, algorithm, direction, length class);
  (c) model tie: the sequence of loads from the S-box tables (symbols from nm) must equal the
      table projection of the Coq model's public trace function (coqc, vm_compute).
Tie K7 (binary, native, ALL 7 host variants sse:f0,f1,f2 avx2:f0,f1 avx512:f0,f1):
  (d) harness/k7_step.c single-steps the job (PTRACE_SINGLESTEP between two markers around
      IMB_SUBMIT_JOB .. IMB_FLUSH_JOB) and records the instruction-address sequence and the effective
      address of every memory operand (registers + an operand table made from objdump, checks/c19_step.py;
      opmask values of masked vector accesses included); both digests must be identical for all keys
      of a (variant, algorithm, direction, length class), single job and several jobs in flight.
Direct API (checks/c19_direct.py, "api=direct:<name>" dimension of the harness scripts): ties (a), (b) and (d) also
      drive the direct (non-job) entry points IMB_KASUMI_F8_1_BUFFER, _1_BUFFER_BIT, _2_BUFFER, _3_BUFFER, _4_BUFFER,
      _N_BUFFER, IMB_KASUMI_F9_1_BUFFER, _F9_1_BUFFER_USER, IMB_SNOW3G_F8_1_BUFFER, _1_BUFFER_BIT, _2_BUFFER, _4_BUFFER,
      _8_BUFFER, _8_BUFFER_MULTIKEY, _N_BUFFER, _N_BUFFER_MULTIKEY, IMB_SNOW3G_F9_1_BUFFER (the multi-buffer forms of the
      same kernels, which no job reaches); only the one processing call is marked / traced, the expanded key schedule(s)
      are the secret.  No Coq model of the direct API exists: tie (c) does not apply to them.
Search: (a), (b) and (d) ARE the property's oracle on the real library; a broken proof obligation or
      a model/binary mismatch in (c) is reported with no-failing-input-found when they are clean.
"""
import os, sys, json, re, time, subprocess, concurrent.futures as cf
import xml.etree.ElementTree as ET
from . import common, c19_step, c19_direct
from .common import Rng, Result, log

PID = "C19"
ARCHS = ["sse", "avx2"]
SO = lambda: os.path.join(common.LIBSO_DIR, "libIPSec_MB.so")
WORK = lambda: os.path.join(common.BUILD, "c19")

KEYLEN = {"des": 8, "des3": 24, "docsis": 8, "kasumi_f8": 16, "kasumi_f9": 16, "snow3g_uea2": 16, "snow3g_uia2": 16}
IVLEN = {"des": 8, "des3": 8, "docsis": 8, "kasumi_f8": 8, "kasumi_f9": 0, "snow3g_uea2": 16, "snow3g_uia2": 16}
FAMILY = {"des": "des", "des3": "des", "docsis": "des", "kasumi_f8": "kasumi", "kasumi_f9": "kasumi",
          "snow3g_uea2": "snow3g", "snow3g_uia2": "snow3g"}


# ----------------------------------------------------------------------------------------------
# case generation
# ----------------------------------------------------------------------------------------------
def key_variants(rng, algo):
    """base key + 8 variants: 3 single-bit flips, all-zero, all-one, 3 random (8 key pairs)."""
    n = KEYLEN[algo]
    base = bytearray(rng.bytes(n))
    out = [bytes(base)]
    for _ in range(3):
        k = bytearray(base)
        byte = rng.below(n)
        # DES ignores the parity bit (bit 0 of every key byte): flip one of bits 1..7 there
        bit = 1 + rng.below(7) if FAMILY[algo] == "des" else rng.below(8)
        k[byte] ^= 1 << bit
        out.append(bytes(k))
    out.append(bytes(n))
    out.append(b"\xff" * n)
    for _ in range(3):
        out.append(rng.bytes(n))
    return out


def trace_classes(tier):
    """(algo, dir, len, off) public classes for the trace comparison."""
    c = []
    for d in (1, 2):
        for ln in ((8, 24) if tier == "quick" else (8, 24, 64, 136)):
            c.append(("des", d, ln, 0))
        for ln in ((8, 16) if tier == "quick" else (8, 16, 40)):
            c.append(("des3", d, ln, 0))
        for ln in ((5, 16, 21) if tier == "quick" else (1, 5, 7, 8, 16, 21, 43, 64)):
            c.append(("docsis", d, ln, 0))
    for ln, off in (((64, 0), (128, 0), (40, 0), (77, 3), (130, 5), (120, 8)) if tier == "quick" else
                    ((8, 0), (64, 0), (128, 0), (40, 0), (77, 3), (130, 5), (120, 8), (1, 7), (63, 1), (64, 1),
                     (200, 0), (253, 0), (510, 2), (800, 16))):
        c.append(("kasumi_f8", 1, ln, off))
    for ln in ((9, 16, 21, 40) if tier == "quick" else (9, 15, 16, 17, 21, 40, 64, 100)):
        c.append(("kasumi_f9", 1, ln, 0))
    for ln, off in (((32, 0), (256, 0), (296, 0), (77, 3), (129, 0), (200, 13)) if tier == "quick" else
                    ((8, 0), (32, 0), (40, 0), (256, 0), (296, 0), (1024, 0), (77, 3), (129, 0), (200, 13), (7, 0),
                     (1, 7), (64, 8), (120, 16), (333, 5))):
        c.append(("snow3g_uea2", 1, ln, off))
    for ln in ((8, 64, 77, 256, 300) if tier == "quick" else (1, 8, 63, 64, 65, 77, 128, 256, 300, 1000)):
        c.append(("snow3g_uia2", 1, ln, 0))
    return c


def memcheck_cases(rng, tier):
    """broad sweep of (algo, dir, len, off) with random keys for the memcheck pass."""
    L = []

    def add(algo, d, ln, off):
        L.append((algo, d, ln, off, rng.bytes(KEYLEN[algo]), rng.bytes(IVLEN[algo]), rng.below(1 << 30)))
    thorough = tier != "quick"
    for ln in [8, 16, 24, 32, 64, 72, 128, 256] + ([1024, 2048] if thorough else []):
        for d in (1, 2):
            add("des", d, ln, rng.choice([0, 0, 8, 3]))
            add("des3", d, ln, rng.choice([0, 0, 8, 5]))
    for ln in list(range(1, 41 if thorough else 26)) + [63, 64, 65, 100, 255, 256, 257] + ([1000, 1001, 1007] if thorough else []):
        for d in (1, 2):
            add("docsis", d, ln, rng.choice([0, 0, 3, 8]))
    step = 3 if thorough else 7
    for ln in list(range(1, 200, step)) + [255, 256, 257, 511, 512, 513] + ([1000, 4000, 8000, 19999, 20000] if thorough else [1000]):
        for off in (0, 1 + rng.below(7), 8, 9 + rng.below(55)):
            add("kasumi_f8", 1, ln, off)
    for ln in list(range(9, 80 if thorough else 40)) + [100, 255, 256] + ([1000, 2500] if thorough else []):
        add("kasumi_f9", 1, ln, rng.choice([0, 0, 5]))
    for ln in list(range(1, 300, step)) + [511, 512, 513] + ([1000, 4000, 8000, 8199, 16384, 20000] if thorough else [1000]):
        for off in (0, 1 + rng.below(7), 8, 9 + rng.below(55)):
            add("snow3g_uea2", 1 + rng.below(2), ln, off)
    for ln in list(range(1, 300, step)) + [511, 512, 513] + ([1000, 4000, 8000, 16384, 20000] if thorough else [1000]):
        add("snow3g_uia2", 1, ln, rng.choice([0, 0, 5]))
    return L


def case_line(cid, algo, d, ln, off, key, iv, seed):
    return "%s %s %d %d %d %s %s %d" % (cid, algo, d, ln, off, key.hex(), iv.hex() if iv else "-", seed)


# ----------------------------------------------------------------------------------------------
# symbols of the rebuilt library
# ----------------------------------------------------------------------------------------------
def lib_symbols():
    so = SO()
    sec = common.run(["readelf", "-S", "-W", so], check=True).stdout
    lo = hi = None
    for l in sec.splitlines():
        m = re.search(r"\]\s+(\.text|\.rodata)\s+PROGBITS\s+([0-9a-f]+)\s+[0-9a-f]+\s+([0-9a-f]+)", l)
        if m:
            a, s = int(m.group(2), 16), int(m.group(3), 16)
            lo = a if lo is None else min(lo, a)
            hi = a + s if hi is None else max(hi, a + s)
    nm = common.run(["nm", "-n", so], check=True).stdout
    syms, ref, byname = [], None, {}
    for l in nm.splitlines():
        p = l.split()
        if len(p) != 3:
            continue
        a = int(p[0], 16)
        if p[2] == "imb_get_version":
            ref = a
        if lo <= a < hi and p[1] in "tTrR":
            syms.append((a, p[2]))
            byname.setdefault(p[2], []).append(a)
    return {"ref": ref, "lo": lo, "hi": hi, "syms": syms, "byname": byname}


# model region id (Struct/Leak.v region_id) -> (symbol names, window length in bytes)
REGIONS = {**{j: (["sbox%dp" % j], 1024) for j in range(8)},   # window lengths: set from the source in main()
           8: (["sso_kasumi_S7e"], 512), 9: (["sso_kasumi_S9e"], 1024),
           10: (["snow3g_inv_SR_SQ", "snow3g_invSR_SQ"], 256),
           11: (["mul_alpha"], 128), 12: (["div_alpha"], 128)}


def write_symfile(sy, path):
    missing = []
    with open(path, "w") as f:
        f.write("REF %x\nRODATA %x %x\n" % (sy["ref"], sy["lo"], sy["hi"]))
        for rid, (names, ln) in REGIONS.items():
            found = False
            for n in names:
                for a in sy["byname"].get(n, []):
                    f.write("TABLE %d %x %x\n" % (rid, a, a + ln))
                    found = True
            if not found:
                missing.append((rid, names))
        for a, n in sy["syms"]:
            f.write("SYM %x %s\n" % (a, n))
    return missing


# ----------------------------------------------------------------------------------------------
# model expectations (Coq)
# ----------------------------------------------------------------------------------------------
def coq_trace_term(algo, d, ln, off):
    bt = lambda kr, enc: "(des_block_trace %d %s 16)" % (kr, "true" if enc else "false")
    if algo == "des":
        return "des_job_trace %s %s false %d" % (bt(0, True), bt(0, d == 1), ln)
    if algo == "docsis":
        return "des_job_trace %s %s true %d" % (bt(0, True), bt(0, d == 1), ln)
    if algo == "des3":
        return "des_job_trace (des3_E_trace 16 16 16) (%s 16 16 16) false %d" % ("des3_E_trace" if d == 1 else "des3_D_trace", ln)
    if algo == "kasumi_f8":
        return "kasumi_f8_trace false %d%%N %d%%N" % (ln, off)
    if algo == "kasumi_f9":
        return "kasumi_f9_trace %d" % ln
    if algo == "snow3g_uea2":
        return "snow3g_uea2_trace %d%%N %d%%N" % (ln, off)
    if algo == "snow3g_uia2":
        return "snow3g_uia2_trace %d%%N" % ln
    raise ValueError(algo)


def model_expectations(classes):
    """table projection (run-length encoded) of the model's public trace, per class; via coqc."""
    gen = os.path.join(common.COQDIR, "Gen")
    os.makedirs(gen, exist_ok=True)
    vf = os.path.join(gen, "C19Expect.v")
    src = ["(* generated by checks/c19.py: table projections of the public trace functions *)",
           "From Coq Require Import List NArith.", "From IMB Require Import Struct.Leak Proofs.LeakProofs.",
           "Import ListNotations."]
    for i, c in enumerate(classes):
        src.append("Definition e%d := Eval vm_compute in (tab_rle (%s))." % (i, coq_trace_term(*c)))
        src.append("Print e%d." % i)
    text = "\n".join(src) + "\n"
    cache = os.path.join(WORK(), "expect.json")
    vo = os.path.join(common.COQDIR, "Proofs", "LeakProofs.vo")
    if os.path.exists(cache) and os.path.exists(vf) and open(vf).read() == text and \
            os.path.getmtime(cache) > os.path.getmtime(vo):
        return json.load(open(cache)), 0.0
    with open(vf, "w") as f:
        f.write(text)
    t0 = time.time()
    p = common.run(["timeout", "900", "coqc", "-Q", ".", "IMB", "Gen/C19Expect.v"], cwd=common.COQDIR, timeout=930)
    if p.returncode != 0:
        raise RuntimeError("coqc Gen/C19Expect.v failed:\n" + (p.stdout + p.stderr)[-2000:])
    out = {}
    for m in re.finditer(r"e(\d+) =\s*(.*?)\s*:\s*list run", p.stdout, re.S):
        runs = [tuple(int(x) for x in t) for t in re.findall(r"\((\d+),\s*(\d+),\s*(\d+),\s*(\d+),\s*(\d+)\)", m.group(2))]
        out[m.group(1)] = runs
    if len(out) != len(classes):
        raise RuntimeError("could not parse the model expectations (%d of %d)" % (len(out), len(classes)))
    res = {"%s/%d/%d/%d" % c: out[str(i)] for i, c in enumerate(classes)}
    with open(cache, "w") as f:
        json.dump(res, f)
    return res, time.time() - t0


def uea2_is_c_path(ln, off):
    return (ln & 7) != 0 or (off & 7) != 0


def expected_for_binary(algo, ln, off, runs):
    """what of the model's projection is observable: on the C path of SNOW3G the nibble tables
    of MULalpha / DIValpha are loaded by compiler-scheduled (hoisted) code: not compared."""
    if algo == "snow3g_uea2" and uea2_is_c_path(ln, off):
        return [list(r) for r in runs if r[0] not in (11, 12)], True
    return [list(r) for r in runs], False


# ----------------------------------------------------------------------------------------------
# running valgrind
# ----------------------------------------------------------------------------------------------
def vg_env():
    e = dict(common.lib_env())
    e["LD_BIND_NOW"] = "1"
    return e


def parse_cases(stdout):
    out = []
    for l in stdout.splitlines():
        if l.startswith("CASE "):
            kv = dict(t.split("=", 1) for t in l.split()[1:])
            out.append(kv)
    return out


def run_memcheck(arch, lines, tag, batch=1, exe=None, timeout=900):
    """returns dict(cases=[...], errors=[{kind, what, stack:[(fn,file,line,obj,ip)]}], crashed, stderr)"""
    wd = WORK()
    sp = os.path.join(wd, "mc_%s.txt" % tag)
    xp = os.path.join(wd, "mc_%s.xml" % tag)
    with open(sp, "w") as f:
        f.write("\n".join(lines) + "\n")
    cmd = ["valgrind", "--tool=memcheck", "--error-limit=no", "--num-callers=24", "--xml=yes", "--xml-file=" + xp,
           "--undef-value-errors=yes", "--track-origins=no", exe, arch, sp, "--batch", str(batch)]
    try:
        p = common.run(cmd, env=vg_env(), timeout=timeout)
        crashed, out, err = p.returncode != 0, p.stdout, p.stderr
    except subprocess.TimeoutExpired as ex:
        crashed, out, err = True, (ex.stdout or b"").decode(errors="replace") if isinstance(ex.stdout, bytes) else (ex.stdout or ""), "timeout (hang)"
    errors = []
    try:
        root = ET.parse(xp).getroot()
        for e in root.iter("error"):
            kind = e.findtext("kind")
            what = e.findtext("what") or e.findtext("xwhat/text") or ""
            st = []
            stack = e.find("stack")
            if stack is not None:
                for fr in stack.iter("frame"):
                    st.append((fr.findtext("fn") or "?", fr.findtext("file") or "", fr.findtext("line") or "",
                               os.path.basename(fr.findtext("obj") or ""), fr.findtext("ip") or ""))
            errors.append({"kind": kind, "what": what, "stack": st})
    except Exception as ex:  # incomplete XML after a crash
        err += "\nxml: %s" % ex
    return {"cases": parse_cases(out), "errors": errors, "crashed": crashed, "stderr": err[-800:], "script": sp}


def lib_frame(err):
    """innermost library frame that is not an inlined compiler intrinsic (_mm_insert_epi8 (smmintrin.h:401) ...)"""
    first = None
    for fr in err["stack"]:
        if fr[3].startswith("libIPSec_MB"):
            first = first or fr
            if not re.search(r"intrin\.h$", fr[1]):
                return fr
    return first


def entry_frame(err):
    """outermost library frame = the entry point the harness called (kasumi_f8_2_buffer_sse, snow3g_f8_n_buffer_avx2, ...)"""
    last = None
    for fr in err["stack"]:
        if fr[3].startswith("libIPSec_MB"):
            last = fr
    return last


def err_signature(arch, err, direct=False):
    fr = lib_frame(err)
    sig = "%s:%s:%s:%s:%s" % (arch, err["kind"], fr[0], os.path.basename(fr[1]), fr[2]) if fr else "%s:%s:?" % (arch, err["kind"])
    if direct:
        en = entry_frame(err)
        sig = "%s:direct:%s:%s" % (arch, en[0] if en else "?", sig.split(":", 1)[1])
    return sig


def run_lackey(arch, lines, tag, symfile, exe, flt, dumps=(), timeout=1500):
    """returns dict(cases, segs=[{ni,nl,ns,nm,ihash,dhash,ntab,thash,mtab:[[id,off,size,count,stride]..]}])"""
    wd = WORK()
    sp = os.path.join(wd, "lk_%s.txt" % tag)
    op = os.path.join(wd, "lk_%s.out" % tag)
    gp = os.path.join(wd, "lk_%s.seg" % tag)
    with open(sp, "w") as f:
        f.write("\n".join(lines) + "\n")
    dargs = " ".join("--dump %d %s" % (i, path) for i, path in dumps)
    sh = ("valgrind --tool=lackey --trace-mem=yes --log-fd=9 %s %s %s --no-taint 9>&1 1>%s | %s %s %s > %s"
          % (exe, arch, sp, op, flt, symfile, dargs, gp))
    try:
        p = common.run(["sh", "-c", sh], env=vg_env(), timeout=timeout)
        err = p.stderr
    except subprocess.TimeoutExpired:
        err = "timeout (hang)"
    segs = []
    cur = None
    if os.path.exists(gp):
        for l in open(gp):
            if l.startswith("SEG "):
                kv = dict(t.split("=", 1) for t in l.split()[2:])
                cur = {k: (v if "hash" in k else int(v)) for k, v in kv.items()}
                segs.append(cur)
            elif l.startswith("MTAB ") and cur is not None:
                runs = []
                for t in l.split()[2:]:
                    m = re.match(r"(\d+):(\d+)/(\d+)\*(\d+)@(-?\d+)", t)
                    runs.append([int(x) for x in m.groups()])
                cur["mtab"] = runs
            elif l.startswith("TAB ") and cur is not None:
                cur["tab"] = l.split(None, 2)[2].strip() if len(l.split(None, 2)) > 2 else ""
    cases = parse_cases(open(op).read()) if os.path.exists(op) else []
    return {"cases": cases, "segs": segs, "stderr": err[-500:], "script": sp}


def first_divergence(arch, line_a, line_b, symfile, exe, flt, tag):
    """re-run two cases with full dumps; return a description of the first differing event."""
    wd = WORK()
    da, db = os.path.join(wd, "dump_%s_a.txt" % tag), os.path.join(wd, "dump_%s_b.txt" % tag)
    run_lackey(arch, [line_a, line_b], "div_" + tag, symfile, exe, flt, dumps=((0, da), (1, db)))
    try:
        fa, fb = open(da), open(db)
    except OSError:
        return {"note": "dump failed"}
    n = 0
    last_i = None
    for la, lb in zip(fa, fb):
        n += 1
        if la.startswith("I "):
            last_i = la.split()[1]
        if la != lb:
            where = ""
            if last_i:
                where = "%s %s" % c19_step.source_of(os.path.realpath(SO()), int(last_i, 16))
            return {"event_index": n, "key_a": la.strip(), "key_b": lb.strip(), "last_common_instruction": last_i,
                    "source": where}
    return {"note": "traces differ in length only", "common_prefix_events": n}


# ----------------------------------------------------------------------------------------------
def build_tools():
    exe = common.build_harness("k7_leak")
    flt = os.path.join(common.BUILD, "bin", "k7_trace")
    src = os.path.join(common.HARNESS, "k7_trace.c")
    if not os.path.exists(flt) or os.path.getmtime(flt) < os.path.getmtime(src):
        common.run(["gcc", "-O2", "-Wall", "-o", flt, src], check=True)
    return exe, flt


def build_step_tool():
    exe = os.path.join(common.BUILD, "bin", "k7_step")
    inc = os.path.join(common.HARNESS, "k7_leak.c")      # #included by k7_step.c
    if os.path.exists(exe) and os.path.getmtime(exe) < os.path.getmtime(inc):
        os.remove(exe)
    return common.build_harness("k7_step")


def step_images(sexe):
    """operand tables of the images whose instructions are decoded: the library (image 0), libc (memcpy /
    memset called by the library), the harness itself.  Cached on (path, mtime, size)."""
    wd = WORK()
    ldd = common.run(["ldd", sexe], env=common.lib_env(), check=True).stdout
    m = re.search(r"libc\.so\.6 => (\S+)", ldd)
    if not m:
        raise RuntimeError("cannot locate libc: " + ldd)
    info = {}
    info["lib"] = c19_step.build_optab(SO(), os.path.join(wd, "optab_lib.bin"))
    info["libc"] = c19_step.build_optab(m.group(1), os.path.join(wd, "optab_libc.bin"))
    info["self"] = c19_step.build_optab(sexe, os.path.join(wd, "optab_self.bin"))
    images = [("libIPSec_MB.so", os.path.join(wd, "optab_lib.bin")), ("libc.so.6", os.path.join(wd, "optab_libc.bin")),
              ("SELF", os.path.join(wd, "optab_self.bin"))]
    return images, info


def step_violation(res, sexe, images, t, ev, seed, is_known):
    """a task whose groups (same public class, different keys) gave different digests"""
    ga, gb, fields = ev["diff"]
    tag = c19_step.task_tag(t)
    div = c19_step.first_divergence(sexe, os.path.realpath(SO()), t, ga, gb, images, WORK(), tag)
    src = os.path.basename(str(div.get("source", "?")))
    sig = "step:%s:%s:%s" % (t["variant"], t["algo"], src)
    if is_known(sig):
        return False
    rp = {"property": PID, "tie": "d", "kind": "native single-step trace differs between two keys: key-dependent %s"
          % {"branch": "branch", "address": "memory address"}.get(div.get("kind"), "trace"),
          "variant": t["variant"], "algo": t["algo"], "dir": t["dir"], "len": t["len"], "off": t["off"], "batch": t["batch"],
          "api": ("direct:%s = %s(mgr, ...), %d buffer(s), lengths %s" % (t["api"], c19_direct.macro(t["api"]), len(t["lens"]), t["lens"]))
          if t.get("direct") else "job (IMB_SUBMIT_JOB / IMB_FLUSH_JOB)",
          "lines_a": div.get("lines_a"), "lines_b": div.get("lines_b"), "differing_fields": fields,
          "first_divergence": {k: v for k, v in div.items() if k not in ("lines_a", "lines_b")},
          "signature": sig, "seed": seed}
    res.violation(rp, note="%s %s" % (sig, div.get("kind", "")), name="step_%s" % tag)
    return True


def rle_eq(a, b):
    return [list(x) for x in a] == [list(x) for x in b]


def main(tier, seed):
    res = Result(PID, tier, seed, "proof")
    t_start = time.time()
    tb = common.build_lib()
    os.makedirs(WORK(), exist_ok=True)
    cache = open(os.path.join(common.LIBDIR, "CMakeCache.txt")).read()
    safe_lookup = "SAFE_LOOKUP:BOOL=ON" in cache
    sys.path.insert(0, os.path.join(common.VERIF, "translators"))
    import t7_lookup_sizes
    t7_lookup_sizes.REPO = common.REPO
    lookup_sizes = t7_lookup_sizes.main()
    pres = common.props_check(PID, extra_targets=["Props/Examples_C19.vo"])
    common.proof_coverage(res, pres, "make -k Props/Properties_C19.vo Props/Examples_C19.vo (coqc 8.16.1) + Print Assumptions",
                          ["Coq 8.16.1 kernel incl. vm_compute (finite table checks: 3^8 index shapes, 256 nibble cases, table lengths)",
                           "Spec/DES.v, Spec/KASUMI.v, Spec/SNOW3G.v (validated against the library under C01/C02)",
                           "Struct/Leak.v is a hand-written source-shaped model; its correspondence with the BINARY is only sampled (K7): "
                           "valgrind 3.19 memcheck definedness tracking + lackey traces, harness/k7_leak.c, harness/k7_trace.c, nm/readelf/addr2line",
                           "tie (d), all 7 host variants incl. AVX512 and the SHANI/GFNI types: Linux ptrace (PTRACE_SINGLESTEP, GETREGS, "
                           "GETREGSET NT_X86_XSTATE), harness/k7_step.c, checks/c19_step.py (operand table from GNU objdump 2.40 -D -M intel: "
                           "base/index/scale/disp, rip-relative, string, implicit stack, VSIB, opmask); effective addresses are COMPUTED from "
                           "the registers, not observed on the bus",
                           "not modelled in Coq: stack/register traffic, job manager, the AVX512 / GFNI / VAES kernels (their binary is covered "
                           "by tie (d) on sampled keys only)",
                           "not seen by any tie: micro-architectural leakage beyond branch outcomes and addresses (instruction latencies that "
                           "depend on operand values, port contention, speculative execution), executed instructions whose memory operand the "
                           "table could not decode (counted: step_undecoded_operand_steps, step_unknown_instruction_steps)"])
    exe, flt = build_tools()
    sexe = build_step_tool()
    sy = lib_symbols()
    symfile = os.path.join(WORK(), "syms.txt")
    for j in range(8):   # the scans cover <size argument> elements of 4 resp. 2 bytes
        REGIONS[j] = (REGIONS[j][0], max(256, 4 * lookup_sizes["des_lookup_elems"]))
    REGIONS[8] = (REGIONS[8][0], max(512, 2 * lookup_sizes["kasumi_S7_lookup_elems"]))
    REGIONS[9] = (REGIONS[9][0], max(1024, 2 * lookup_sizes["kasumi_S9_lookup_elems"]))
    missing = write_symfile(sy, symfile)
    rng = Rng(seed)

    # ---- (a) memcheck ---------------------------------------------------------------------
    mcases = memcheck_cases(rng, tier)
    mlines = [case_line("m%d" % i, *c) for i, c in enumerate(mcases)]
    jobs = []
    nchunk = 4 if tier == "quick" else 8
    for arch in ARCHS:
        for batch in (1, 4):
            for k in range(nchunk):
                part = mlines[k::nchunk]
                jobs.append(("mc", arch, batch, k, part))
    # direct (non-job) entry points: own processes, one call per group (--batch 1)
    dmlines = c19_direct.memcheck_lines(rng, tier)
    ndchunk = 2 if tier == "quick" else 4
    for arch in ARCHS:
        for k in range(ndchunk):
            jobs.append(("mcd", arch, 1, k, dmlines[k::ndchunk]))
    # ---- (b) traces -----------------------------------------------------------------------
    classes = trace_classes(tier)
    tjobs = []
    class_keys = {}
    for ci, (algo, d, ln, off) in enumerate(classes):
        keys = key_variants(rng, algo)
        iv = rng.bytes(IVLEN[algo])
        mseed = rng.below(1 << 30)
        class_keys[ci] = [case_line("c%dk%d" % (ci, ki), algo, d, ln, off, k, iv, mseed) for ki, k in enumerate(keys)]
    # group classes into processes: by (algo, dir), split further for the heavy DES family
    groups = {}
    for ci, c in enumerate(classes):
        g = (c[0], c[1]) if FAMILY[c[0]] == "des" else (c[0], 0)
        groups.setdefault(g, []).append(ci)
    for arch in ARCHS:
        for g, cis in groups.items():
            lines = [l for ci in cis for l in class_keys[ci]]
            jobs.append(("lk", arch, g, cis, lines))
    # direct entry points: classes -(len(classes)+i) .. kept apart from the model-tied job classes
    dclasses = c19_direct.trace_classes(tier)
    dclass_keys = {}
    for di, (api, lens, off) in enumerate(dclasses):
        keys9 = key_variants(rng, c19_direct.API[api][5])
        iv = rng.bytes(c19_direct.API[api][3])
        mseed = rng.below(1 << 30)
        order = c19_direct.KEY_PRIORITY[:c19_direct.trace_nkeys(api, tier)]
        dclass_keys[di] = [c19_direct.line("d%dk%d" % (di, ki), api, lens, off, c19_direct.group_keys(api, len(lens), keys9, ki), iv, mseed)
                           for ki in order]
    dgroups = {}
    kas_seen = 0
    for di, c in enumerate(dclasses):
        if c19_direct.family(c[0]) == "kasumi":          # expensive under lackey: two processes
            g = ("direct_kasumi", kas_seen % 2)
            kas_seen += 1
        else:
            g = ("direct_snow3g", 0)
        dgroups.setdefault(g, []).append(di)
    for arch in ARCHS:
        for g, dis in dgroups.items():
            jobs.append(("lkd", arch, g, dis, [l for di in dis for l in dclass_keys[di]]))

    # ---- (d) native single-step traces ------------------------------------------------------
    stasks = c19_step.plan(rng, tier, common.EXPECTED_VARIANTS, key_variants, KEYLEN, IVLEN)
    stasks += c19_direct.step_plan(rng, tier, common.EXPECTED_VARIANTS, key_variants, IVLEN)

    # The library build directory is shared with other checks: if the .so is relinked while
    # valgrind runs, the symbol addresses no longer describe the executed image -> run again.
    def so_stamp():
        st = os.stat(os.path.realpath(SO()))
        return (st.st_mtime_ns, st.st_size)
    for attempt in range(3):
        stamp = so_stamp()
        sy = lib_symbols()
        missing = write_symfile(sy, symfile)
        t_model0 = time.time()
        results = []
        sresults = []
        step_err = None
        t_step = [None, None]
        with cf.ThreadPoolExecutor(max_workers=common.NCPU) as ex:
            futs = {}
            # operand tables (cached unless an image changed) and model expectations are computed while valgrind runs
            fimg = ex.submit(step_images, sexe)
            fexp = ex.submit(model_expectations, classes)

            def run_step_task(t):
                images, _ = fimg.result()
                if t_step[0] is None:
                    t_step[0] = time.time()
                r = c19_step.run_step(sexe, t["variant"], c19_step.task_lines(t), c19_step.task_tag(t), images, WORK(),
                                      batch=t["batch"], timeout=1500 if tier == "quick" else 3000)
                t_step[1] = time.time()
                return r
            for j in sorted(jobs, key=lambda j: -len(j[4])):
                if j[0] in ("mc", "mcd"):
                    _, arch, batch, k, part = j
                    futs[ex.submit(run_memcheck, arch, part, "%s_%sb%d_%d" % (arch, "direct_" if j[0] == "mcd" else "", batch, k),
                                   batch, exe)] = j
                else:
                    _, arch, g, cis, lines = j
                    futs[ex.submit(run_lackey, arch, lines, "%s_%s_%d" % (arch, g[0], g[1]), symfile, exe, flt)] = j
            sfuts = {ex.submit(run_step_task, t): t for t in sorted(stasks, key=lambda t: -t["cost"])}
            for fu in cf.as_completed(futs):
                results.append((futs[fu], fu.result()))
            for fu in cf.as_completed(sfuts):
                try:
                    sresults.append((sfuts[fu], fu.result()))
                except Exception as e:
                    step_err = "%s: %s" % (type(e).__name__, e)
            try:
                images, optab_info = fimg.result()
            except Exception as e:
                images, optab_info, step_err = [], {}, "%s: %s" % (type(e).__name__, e)
            try:
                expect, t_coq = fexp.result()
                expect_err = None
            except Exception as e:
                expect, t_coq, expect_err = {}, 0.0, str(e)

        if so_stamp() == stamp:
            break
        log("C19: the library was relinked during the run, repeating the valgrind phase")

    known = [l for (kind, l) in common.known_findings(PID) if kind == "known"]

    def is_known(sig):
        for l in known:
            if ("key=%s " % sig) in l + " ":
                txt = l.split("key=%s" % sig, 1)[1].strip()
                if txt not in res.known:
                    res.known.append(txt)
                return True
        return False

    # ---- evaluate memcheck ------------------------------------------------------------------
    mc_cases = mc_err = mc_notaint = mc_nontrivial = mcd_cases = 0
    viol_mc = {}
    harness_fail = []
    direct_fn = {}        # entry point -> {variant: function offset} as dispatched by the manager
    mcd_by_api = {}
    for (j, r) in results:
        if j[0] not in ("mc", "mcd"):
            continue
        _, arch, batch, k, part = j
        is_direct = j[0] == "mcd"
        mc_cases += len(r["cases"])
        if is_direct:
            mcd_cases += len(r["cases"])
            mc_nontrivial += sum(1 for l in part if "," in l.split()[3] or int(l.split()[3]) > 8)
            for c in r["cases"]:
                if c.get("api") and c.get("status") == "3":
                    a = c["api"].split(":", 1)[1]
                    mcd_by_api.setdefault(a, {}).setdefault(arch, 0)
                    mcd_by_api[a][arch] += 1
                    direct_fn.setdefault(a, {})["%s:f3 (valgrind)" % arch] = c.get("fn")
        else:
            mc_nontrivial += sum(1 for l in part if int(l.split()[3]) > 8)
        if r["crashed"] or len(r["cases"]) != len(part):
            harness_fail.append({"arch": arch, "batch": batch, "stderr": r["stderr"], "script": r["script"],
                                 "cases_returned": len(r["cases"]), "cases_sent": len(part)})
        bad_status = [c for c in r["cases"] if c.get("status") != "3"]
        if bad_status:
            harness_fail.append({"arch": arch, "batch": batch, "note": "job not completed", "case": bad_status[0]})
        mc_notaint += sum(1 for c in r["cases"] if c.get("taint") != "1" and c.get("status") == "3")
        errs = [e for e in r["errors"] if e["kind"] in ("UninitCondition", "UninitValue") and lib_frame(e)]
        mc_err += len(errs)
        if errs:
            ids = [c["id"] for c in r["cases"] if c.get("errs", "0") != "0"]
            for e in errs:
                sig = err_signature(arch, e, is_direct)
                if is_known(sig):
                    continue
                viol_mc.setdefault(sig, {"arch": arch, "batch": batch, "error": e, "case_ids": ids, "lines": part})

    # ---- evaluate traces --------------------------------------------------------------------
    cmp_classes = cmp_pairs = 0
    viol_tr = []
    tie_fail = []
    tie_ok = 0
    seg_events = 0
    samples = []
    dtr_classes = dtr_pairs = 0
    dtr_by_api = {}
    for (j, r) in results:
        if j[0] not in ("lk", "lkd"):
            continue
        _, arch, g, cis, lines = j
        is_direct = j[0] == "lkd"
        ckeys, clist = (dclass_keys, dclasses) if is_direct else (class_keys, classes)
        if len(r["segs"]) != len(lines) or len(r["cases"]) != len(lines):
            harness_fail.append({"arch": arch, "group": list(g), "note": "lackey run incomplete",
                                 "segments": len(r["segs"]), "expected": len(lines), "stderr": r["stderr"]})
            continue
        pos = 0
        for ci in cis:
            n = len(ckeys[ci])
            segs = r["segs"][pos:pos + n]
            cs = r["cases"][pos:pos + n]
            cl = ckeys[ci]
            pos += n
            c = clist[ci]
            if is_direct:
                bad = [x for x in cs if x.get("status") != "3"]
                if bad:
                    harness_fail.append({"arch": arch, "note": "direct call did not complete", "case": bad[0], "line": cl[0]})
                    continue
                if len(set(x.get("out") for x in cs)) < 2:
                    harness_fail.append({"arch": arch, "note": "all keys gave the same output (direct call)", "line": cl[0]})
                dtr_classes += 1
                dtr_pairs += n - 1
                dtr_by_api.setdefault(c[0], set()).add(arch)
                c = ("direct:" + c[0], list(c[1]), c[2])
                tsig = "trace:%s:%s:%d" % (arch, c[0], len(c[1]))
                tname = "trace_%s_direct_%s_%s_%d" % (arch, clist[ci][0], "x".join(str(x) for x in c[1]), c[2])
            else:
                tsig = "trace:%s:%s:%d" % (arch, c[0], c[1])
                tname = "trace_%s_%s_%d_%d" % (arch, c[0], c[1], c[2])
            cmp_classes += 1
            seg_events += sum(s["ni"] + s["nl"] + s["ns"] + s["nm"] for s in segs)
            ref = segs[0]
            for ki in range(1, n):
                cmp_pairs += 1
                s = segs[ki]
                diff = [k for k in ("ni", "nl", "ns", "nm", "ihash", "dhash") if s[k] != ref[k]]
                if diff:
                    viol_tr.append({"arch": arch, "class": list(c), "differs": diff, "line_a": cl[0], "line_b": cl[ki],
                                    "sig": tsig, "name": tname,
                                    "seg_a": {k: ref[k] for k in ("ni", "nl", "ns", "nm", "ihash", "dhash")},
                                    "seg_b": {k: s[k] for k in ("ni", "nl", "ns", "nm", "ihash", "dhash")}})
                    break
            outs = set(x.get("out") for x in cs)
            if len(samples) < 4:
                samples.append({"arch": arch, "class": list(c), "instructions": ref["ni"], "loads": ref["nl"],
                                "stores": ref["ns"], "distinct_outputs_for_9_keys": len(outs)})
            # model tie (job classes only: the direct API has no Coq model)
            key = None if is_direct else "%s/%d/%d/%d" % c
            if key in expect:
                want, partial = expected_for_binary(c[0], c[2], c[3], expect[key])
                got = ref.get("mtab", [])
                if partial:
                    got = [x for x in got if x[0] not in (11, 12)]
                if rle_eq(want, got):
                    tie_ok += 1
                else:
                    k = 0
                    while k < min(len(want), len(got)) and list(want[k]) == list(got[k]):
                        k += 1
                    tie_fail.append({"arch": arch, "class": list(c), "first_diff_run": k,
                                     "model": want[k:k + 4], "binary": got[k:k + 4],
                                     "model_runs": len(want), "binary_runs": len(got)})

    # ---- evaluate native single-step traces ------------------------------------------------
    st = {"tasks": 0, "pairs": 0, "steps": 0, "lib_steps": 0, "mem": 0, "undec": 0, "unk": 0, "out_steps": 0, "xst": 0,
          "same_output_tasks": 0}
    step_diffs, step_harness = [], []
    dst = {"tasks": 0, "pairs": 0, "steps": 0}
    dstep_by_api = {}
    step_by_variant = {}
    step_samples = []
    for t, r in sresults:
        ev = c19_step.evaluate(t, r)
        st["tasks"] += 1
        for k in ("pairs", "steps", "lib_steps", "mem", "undec", "unk", "out_steps", "xst"):
            st[k] += ev[k]
        bv = step_by_variant.setdefault(t["variant"], {"tasks": 0, "pairs": 0, "steps": 0, "algos": set()})
        bv["tasks"] += 1
        bv["pairs"] += ev["pairs"]
        bv["steps"] += ev["steps"]
        bv["algos"].add(t["algo"])
        if t.get("direct"):
            dst["tasks"] += 1
            dst["pairs"] += ev["pairs"]
            dst["steps"] += ev["steps"]
            if not ev["harness"]:
                dstep_by_api.setdefault(t["api"], set()).add(t["variant"])
                for c in r["cases"][:1]:
                    direct_fn.setdefault(t["api"], {})[t["variant"]] = c.get("fn")
        if ev["harness"]:
            step_harness.append({"variant": t["variant"], "class": [t["algo"], t["dir"], t["len"], t["off"]], "batch": t["batch"],
                                 "problem": ev["harness"], "script": r.get("script")})
            continue
        if ev["distinct_outputs"] < 2:
            st["same_output_tasks"] += 1       # the key did not influence the output: the comparison would be vacuous
        if ev["diff"] is not None:
            step_diffs.append((t, ev))
        if len(step_samples) < 6 and t["variant"].startswith("avx512") and t["algo"] not in [x["class"][0] for x in step_samples]:
            step_samples.append({"variant": t["variant"], "class": [t["algo"], t["dir"], t["len"], t["off"]], "batch": t["batch"],
                                 "groups": len(r["segs"]), "steps_per_group": r["segs"][0]["steps"],
                                 "addresses_per_group": r["segs"][0]["mem"], "distinct_outputs": ev["distinct_outputs"]})
    for bv in step_by_variant.values():
        bv["algos"] = sorted(bv["algos"])
    step_missing = [v for v in common.EXPECTED_VARIANTS if step_by_variant.get(v, {}).get("pairs", 0) == 0]

    # which function each direct entry point of each variant dispatches to (symbol of imb_get_version + reported offset)
    addr2name = {}
    for a, n in sy["syms"]:
        addr2name.setdefault(a, n)
    direct_dispatch = {}
    for a, per in sorted(direct_fn.items()):
        d = {}
        for v, off in sorted(per.items()):
            try:
                o = int(off, 16)
                o = o - (1 << 64) if o >= 1 << 63 else o
                nm = addr2name.get(sy["ref"] + o, "?+%x" % (sy["ref"] + o))
            except (TypeError, ValueError):
                nm = "?"
            d.setdefault(nm, []).append(v)
        direct_dispatch[c19_direct.macro(a)] = d
    dm_hist = {}
    for l in dmlines:
        a = l.split()[1].split(":", 1)[1]
        dm_hist[c19_direct.macro(a)] = dm_hist.get(c19_direct.macro(a), 0) + 1
    direct_uncovered = [a for a in c19_direct.API if a not in mcd_by_api or a not in dtr_by_api or a not in dstep_by_api]
    # ---- verdicts ---------------------------------------------------------------------------
    for f in pres["failed"]:
        log("proof obligation failed:", f)
    broken_proof = pres["discharged"] != pres["obligations"] or pres["failed"] or pres["obligations"] == 0
    reported = False
    if not safe_lookup:
        res.violation({"property": PID, "kind": "the library under test was not built with SAFE_LOOKUP",
                       "cmake_cache": os.path.join(common.LIBDIR, "CMakeCache.txt")}, name="no_safe_lookup")
        reported = True
    for sig, v in list(viol_mc.items())[:4]:
        # attribute to one input: re-run the cases that raised errors one at a time
        culprit = None
        cand = [l for l in v["lines"] if l.split()[0] in v["case_ids"]] or v["lines"]
        for l in cand[:6]:
            rr = run_memcheck(v["arch"], [l], "replay", 1, exe)
            ee = [e for e in rr["errors"] if e["kind"] in ("UninitCondition", "UninitValue") and lib_frame(e)]
            if ee:
                culprit = (l, ee)
                break
        e0 = (culprit[1][0] if culprit else v["error"])
        fr = lib_frame(e0)
        res.violation({"property": PID, "kind": "secret-dependent %s inside the library (memcheck, secrets marked undefined)"
                       % ("branch" if e0["kind"] == "UninitCondition" else "address / value use"),
                       "arch": v["arch"], "batch": 1 if culprit else v["batch"],
                       "case": culprit[0] if culprit else None, "cases": None if culprit else v["lines"][:8],
                       "signature": sig, "valgrind_what": e0["what"],
                       "source": "%s:%s (%s)" % (fr[1], fr[2], fr[0]) if fr else "?",
                       "valgrind_stack": ["%s (%s:%s) %s %s" % f for f in e0["stack"][:16]], "seed": seed},
                      note="memcheck %s" % sig, name="memcheck_" + re.sub(r"[^A-Za-z0-9]+", "_", sig)[:110])
        reported = True
    n_tr = 0
    for v in viol_tr:
        if n_tr >= 4:
            break
        sig = v.pop("sig")
        name = v.pop("name")
        if is_known(sig):
            continue
        n_tr += 1
        v["first_divergence"] = first_divergence(v["arch"], v["line_a"], v["line_b"], symfile, exe, flt,
                                                 "%s_%s" % (v["arch"], v["class"][0].replace(":", "_")))
        v.update({"property": PID, "kind": "instruction / data address trace differs between two keys (lackey)", "seed": seed,
                  "signature": sig})
        res.violation(v, note=sig, name=name)
        reported = True
    seen_sig = set()
    for t, ev in step_diffs:
        if len(seen_sig) >= 6:
            break
        k = (t["variant"], t["algo"], t["dir"])
        if k in seen_sig:
            continue
        seen_sig.add(k)
        if step_violation(res, sexe, images, t, ev, seed, is_known):
            reported = True
    if step_harness or step_err or step_missing or st["same_output_tasks"]:
        res.violation({"property": PID, "tie": "d-harness",
                       "kind": "native single-step tie: a job did not complete, crashed or hung inside the traced region, a host "
                               "variant could not be executed, or the key did not reach the output",
                       "details": step_harness[:4], "error": step_err, "variants_without_comparison": step_missing,
                       "tasks_where_all_keys_gave_the_same_output": st["same_output_tasks"], "seed": seed},
                      note="step-harness", name="step_harness")
        reported = True
    if direct_uncovered and not harness_fail and not step_harness and not step_err:
        harness_fail.append({"note": "direct entry points without a completed comparison in ties (a)/(b)/(d)", "apis": direct_uncovered})
    if harness_fail:
        res.violation({"property": PID, "kind": "the library job did not complete / the harness crashed or hung under valgrind",
                       "details": harness_fail[:4], "seed": seed}, note="harness", name="harness")
        reported = True
    corr_broken = bool(tie_fail) or bool(expect_err) or bool(missing) or mc_notaint > 0
    if (broken_proof or corr_broken) and not reported:
        # (a) and (b) above ARE the search for a failing input on the real library and found nothing
        res.violation({"property": PID, "seed": seed, "broken_obligations": pres["failed"],
                       "proof_log_tail": pres["log"][-2000:] if broken_proof else "",
                       "model_vs_binary_table_accesses": tie_fail[:4], "model_expectation_error": expect_err,
                       "table_symbols_missing_in_library": missing,
                       "cases_where_the_secret_did_not_reach_the_output_under_memcheck": mc_notaint,
                       "note": "the model (Struct/Leak.v) / the theorems of Props/Properties_C19.v no longer check against this "
                               "tree; memcheck (%d jobs) and the trace comparison (%d key pairs) found no secret-dependent "
                               "branch or address" % (mc_cases, cmp_pairs)},
                      note="no-failing-input-found", name="unproved")

    lenhist = {}
    for c in mcases:
        lenhist[c[0]] = lenhist.get(c[0], 0) + 1
    res.coverage.update({
        "evaluations": mc_cases + cmp_pairs + st["pairs"],
        "distinct_nontrivial": cmp_pairs + mc_nontrivial + st["pairs"],
        "rule": "one evaluation = one job run under memcheck with its key schedule undefined on one (variant, batch size), or "
                "one (variant, class, base key, other key) pair whose complete instruction- and data-address sequences were "
                "compared (lackey: SSE/AVX2 type 1; native single-step: all 7 host variants, a group of 3 jobs in flight counts "
                "as one pair); non-trivial = a key pair, or a memcheck job with length > 8 (bytes or bits as the algorithm counts)",
        "memcheck_jobs": mc_cases, "memcheck_secret_dependent_reports": mc_err,
        "memcheck_jobs_where_taint_did_not_reach_output": mc_notaint,
        "trace_classes": cmp_classes, "trace_key_pairs_compared": cmp_pairs, "trace_events_compared": seg_events,
        "model_tie_classes_ok": tie_ok, "model_tie_classes_failed": len(tie_fail),
        "algo_histogram_memcheck": lenhist, "classes": [list(c) for c in classes],
        "variants": ["sse:f3 (type 1)", "avx2:f3 (type 1)"], "batch_sizes": [1, 4],
        "variants_valgrind": ["sse:f3 (type 1)", "avx2:f3 (type 1)"],
        "variants_covered_natively": sorted(v for v in step_by_variant if step_by_variant[v]["pairs"] > 0),
        "step_by_variant": step_by_variant, "step_tasks": st["tasks"], "step_key_pairs_compared": st["pairs"],
        "step_single_steps_traced": st["steps"], "step_steps_inside_library": st["lib_steps"],
        "step_addresses_recorded": st["mem"], "step_opmask_or_vector_register_reads": st["xst"],
        "step_undecoded_operand_steps": st["undec"], "step_unknown_instruction_steps": st["unk"],
        "step_steps_outside_decoded_images": st["out_steps"],
        "step_classes": sorted(set(c19_step.class_str(t) for t in stasks)),
        "direct_entry_points": {
            "a_memcheck": {c19_direct.macro(a): sorted("%s:f3" % x for x in v) for a, v in sorted(mcd_by_api.items())},
            "b_lackey": {c19_direct.macro(a): sorted("%s:f3" % x for x in v) for a, v in sorted(dtr_by_api.items())},
            "d_single_step": {c19_direct.macro(a): sorted(v) for a, v in sorted(dstep_by_api.items())}},
        "direct_entry_points_not_covered": {"a": sorted(c19_direct.macro(a) for a in c19_direct.API if a not in mcd_by_api),
                                            "b": sorted(c19_direct.macro(a) for a in c19_direct.API if a not in dtr_by_api),
                                            "d": sorted(c19_direct.macro(a) for a in c19_direct.API if a not in dstep_by_api)},
        "direct_memcheck_calls": mcd_cases, "direct_trace_classes": dtr_classes, "direct_trace_key_pairs": dtr_pairs,
        "direct_step_tasks": dst["tasks"], "direct_step_key_pairs": dst["pairs"], "direct_step_single_steps": dst["steps"],
        "direct_dispatch": direct_dispatch,
        "direct_classes_memcheck_histogram": dm_hist,
        "direct_classes_trace": [c19_direct.class_str(*c) for c in dclasses],
        "step_cases": len(stasks), "step_samples": step_samples,
        "step_operand_tables": {k: v.get("stats") for k, v in optab_info.items()},
        "step_s": round((t_step[1] or 0) - (t_step[0] or 0), 1),
        "samples": samples, "safe_lookup": safe_lookup, "lookup_sizes_from_source": lookup_sizes, "lib_build_s": round(tb, 1),
        "coq_expectation_s": round(t_coq, 1), "valgrind_s": round(time.time() - t_model0, 1),
        "traces_validated_against_impl": tie_ok,
    })
    res.assumptions = ["valgrind's memcheck propagates definedness precisely enough that every branch on / address from key-derived "
                       "data inside the job call is reported (vector compares, pshufb, aesenc, pclmulqdq are data flow, not addresses)",
                       "ties (a)-(c) execute only SSE type 1 and AVX2 type 1 (valgrind 3.19 has no AVX512/GFNI/SHANI); the other host "
                       "variants (sse:f0, sse:f2, avx2:f0, avx512:f0, avx512:f1) are covered by tie (d) alone: exact traces, but for the "
                       "sampled keys only (2..9 keys per public class; no taint tracking: a dependence that none of the sampled keys "
                       "exercises is not seen)",
                       "tie (d) sees architectural control flow and computed effective addresses; it does not see micro-architectural "
                       "effects, and instructions whose memory operand could not be decoded are only counted (%d steps this run; %d steps "
                       "at addresses objdump did not list as instructions)" % (st["undec"], st["unk"]),
                       "in the quick tier the 64-row-scan C paths (DES/3DES/DOCSIS-DES on SSE/AVX2, KASUMI everywhere: the same kernel "
                       "functions for every variant) are sub-sampled per variant for tie (d) (rotating with variant and seed); the "
                       "thorough tier runs every class on every variant",
                       "des_key_schedule() (key preparation helper, indexes tables by key bytes) is outside the property; the IV is public",
                       "the direct (non-job) entry points IMB_KASUMI_F8_{1_BUFFER,1_BUFFER_BIT,2_BUFFER,3_BUFFER,4_BUFFER,N_BUFFER}, "
                       "IMB_KASUMI_F9_{1_BUFFER,1_BUFFER_USER}, IMB_SNOW3G_F8_{1_BUFFER,1_BUFFER_BIT,2_BUFFER,4_BUFFER,8_BUFFER,"
                       "8_BUFFER_MULTIKEY,N_BUFFER,N_BUFFER_MULTIKEY}, IMB_SNOW3G_F9_1_BUFFER are beyond the literal wording of the "
                       "property (\"processing a job\"); they are included in ties (a), (b), (d) because they run the multi-buffer forms "
                       "of the same kernels (kasumi_2/3/4/8_blocks, the 4- and 8-lane SNOW3G clocks) which no job reaches. The key "
                       "schedule computation (IMB_KASUMI_INIT_F8/F9_KEY_SCHED, IMB_SNOW3G_INIT_KEY_SCHED) is outside the marked "
                       "region exactly as for jobs; lengths, counts, IVs, pointers are public and identical across the key "
                       "variants; one key schedule per call, different keys per buffer for the *_MULTIKEY calls. No Coq model: "
                       "tie (c) does not apply. DES has no direct API besides des_key_schedule()",
                       "direct calls go through one function pointer of the manager: all 7 variants dispatch KASUMI to the same "
                       "kasumi_*_sse functions and SNOW3G to one function per architecture (evidence: direct_dispatch); in the quick "
                       "tier tie (d) therefore traces every KASUMI entry point on one variant (rotating) with 2 keys and every SNOW3G "
                       "entry point on one variant per architecture with 3..5 keys; tie (a) (taint tracking, not sampling) runs every "
                       "direct class on both valgrind variants"]
    log("C19: memcheck jobs=%d reports=%d | trace classes=%d pairs=%d | tie ok=%d fail=%d | native: %d variants %d tasks %d pairs "
        "%d steps undecoded=%d unknown=%d diffs=%d | direct API: %d entry points, memcheck %d calls, lackey %d classes %d pairs, "
        "native %d tasks %d pairs %d steps | %.0fs"
        % (mc_cases, mc_err, cmp_classes, cmp_pairs, tie_ok, len(tie_fail), len(step_by_variant) - len(step_missing), st["tasks"],
           st["pairs"], st["steps"], st["undec"], st["unk"], len(step_diffs), len(c19_direct.API) - len(direct_uncovered),
           mcd_cases, dtr_classes, dtr_pairs, dst["tasks"], dst["pairs"], dst["steps"], time.time() - t_start))
    return res.finish()


def replay(path):
    rp = json.load(open(path))
    common.build_lib()
    os.makedirs(WORK(), exist_ok=True)
    exe, flt = build_tools()
    if rp.get("tie") == "d":
        sexe = build_step_tool()
        images, _ = step_images(sexe)
        b = rp.get("batch", 1)
        t = {"variant": rp["variant"], "algo": rp["algo"], "dir": rp["dir"], "len": rp["len"], "off": rp["off"], "batch": b}
        pair = list(rp["lines_a"]) + list(rp["lines_b"])
        wd = WORK()
        da, db = os.path.join(wd, "replay_a.txt"), os.path.join(wd, "replay_b.txt")
        r = c19_step.run_step(sexe, rp["variant"], pair, "replay", images, wd, batch=b, dumps=((0, da), (1, db)))
        segs = r["segs"]
        same = len(segs) == 2 and "crash" not in segs[0] and "crash" not in segs[1] and \
            c19_step.seg_key(segs[0]) == c19_step.seg_key(segs[1])
        out = {"variant": r.get("variant"), "segments": segs, "cases": r["cases"], "equal": same, "dumps": [da, db]}
        if not same and len(segs) == 2:
            out["first_divergence"] = c19_step.divergence_from_dumps(os.path.realpath(SO()), da, db)
        print(json.dumps(out, indent=1))
        return 0 if same else 1
    if rp.get("case") or rp.get("cases"):
        lines = [rp["case"]] if rp.get("case") else rp["cases"]
        r = run_memcheck(rp["arch"], lines, "replay", rp.get("batch", 1), exe)
        errs = [e for e in r["errors"] if e["kind"] in ("UninitCondition", "UninitValue") and lib_frame(e)]
        print(json.dumps({"cases": r["cases"], "errors": [{"kind": e["kind"], "what": e["what"],
                                                            "stack": ["%s (%s:%s)" % f[:3] for f in e["stack"][:12]]} for e in errs[:6]]}, indent=1))
        return 1 if errs or r["crashed"] else 0
    if rp.get("line_a"):
        sy = lib_symbols()
        symfile = os.path.join(WORK(), "syms.txt")
        write_symfile(sy, symfile)
        r = run_lackey(rp["arch"], [rp["line_a"], rp["line_b"]], "replay", symfile, exe, flt)
        segs = r["segs"]
        same = len(segs) == 2 and all(segs[0][k] == segs[1][k] for k in ("ni", "nl", "ns", "nm", "ihash", "dhash"))
        print(json.dumps({"segments": [{k: s[k] for k in ("ni", "nl", "ns", "nm", "ihash", "dhash")} for s in segs], "equal": same}, indent=1))
        return 0 if same else 1
    # unproved / harness replays: re-run the whole check
    return main("quick", rp.get("seed", 1))
