"""Case generator for C07 (used by checks/c07.py): K1 work items (harness/K1_FORMAT.md) for every
cipher mode / hash algorithm / AEAD pair the K1 harness supports.

The message buffer of every item is exactly the caller object: its first byte is the first byte
any range of the job uses and its last byte is the last byte any range uses, so that placing the
buffer against a guard page tests the first and the last access of the kernels.

Whether the library accepts an item is decided by the library (reference run of k3_place); the
tables below only have to be close.  Every suite must end up with accepted items (c07.py checks)."""

ENC, DEC = 1, 2
CIPHER_HASH, HASH_CIPHER = 1, 2

DENSE = list(range(1, 131))
BOUNDS = [255, 256, 257, 1023, 1024, 1025, 4095, 4096, 4097]

# ---- cipher-only suites (hash NULL = 8) ----
CIPHERS = [
    dict(c=1, name="AES-CBC", keys=[16, 24, 32], iv=[16], mult=16),
    dict(c=2, name="AES-CNTR", keys=[16, 24, 32], iv=[16, 12], mult=1),
    dict(c=4, name="DOCSIS-SEC-BPI", keys=[16, 32], iv=[16], mult=1),
    dict(c=7, name="DES-CBC", keys=[8], iv=[8], mult=8),
    dict(c=8, name="DOCSIS-DES", keys=[8], iv=[8], mult=1),
    dict(c=10, name="3DES-CBC", keys=[24], iv=[8], mult=8),
    dict(c=12, name="AES-ECB", keys=[16, 24, 32], iv=[0], mult=16),
    dict(c=13, name="AES-CNTR-BITLEN", keys=[16, 24, 32], iv=[16], bits=True),
    dict(c=14, name="ZUC-EEA3", keys=[16, 32], iv=[16], iv32=[25, 23], mult=1),
    dict(c=15, name="SNOW3G-UEA2-BITLEN", keys=[16], iv=[16], bits=True, bitoff=True),
    dict(c=16, name="KASUMI-UEA1-BITLEN", keys=[16], iv=[8], bits=True, bitoff=True),
    dict(c=17, name="AES-CBCS-1-9", keys=[16], iv=[16], mult=16),
    dict(c=18, name="CHACHA20", keys=[32], iv=[12], mult=1),
    dict(c=21, name="SNOW-V", keys=[32], iv=[16], mult=1),
    dict(c=24, name="SM4-ECB", keys=[16], iv=[0], mult=16),
    dict(c=25, name="SM4-CBC", keys=[16], iv=[16], mult=16),
    dict(c=26, name="AES-CFB", keys=[16, 24, 32], iv=[16], mult=16, small=list(range(1, 16))),
    dict(c=27, name="SM4-CNTR", keys=[16], iv=[16], mult=1),
]

# ---- hash-only suites (cipher NULL = 3); tags: candidates, the library decides ----
HASHES = [
    dict(h=1, name="HMAC-SHA1", tags=[12, 20], akey=[20, 64, 65, 1]),
    dict(h=2, name="HMAC-SHA224", tags=[14, 28], akey=[28, 64, 100]),
    dict(h=3, name="HMAC-SHA256", tags=[16, 32], akey=[32, 64, 65]),
    dict(h=4, name="HMAC-SHA384", tags=[24, 48], akey=[48, 128, 129]),
    dict(h=5, name="HMAC-SHA512", tags=[32, 64], akey=[64, 128, 200]),
    dict(h=6, name="AES-XCBC", tags=[12], akey=[16]),
    dict(h=7, name="HMAC-MD5", tags=[12, 16], akey=[16, 64]),
    dict(h=12, name="AES-CMAC", tags=[4, 8, 12, 16, 15], akey=[16]),
    dict(h=13, name="SHA1", tags=[20], akey=[0]),
    dict(h=14, name="SHA224", tags=[28], akey=[0]),
    dict(h=15, name="SHA256", tags=[32], akey=[0]),
    dict(h=16, name="SHA384", tags=[48], akey=[0]),
    dict(h=17, name="SHA512", tags=[64], akey=[0]),
    dict(h=18, name="AES-CMAC-BITLEN", tags=[4, 8, 16], akey=[16], bits=True),
    dict(h=20, name="ZUC-EIA3-BITLEN", tags=[4], akey=[16], aiv=[16], bits=True),
    dict(h=22, name="SNOW3G-UIA2-BITLEN", tags=[4], akey=[16], aiv=[16], bits=True),
    dict(h=23, name="KASUMI-UIA1", tags=[4], akey=[16]),
    dict(h=24, name="AES-GMAC-128", tags=[16, 12, 8, 4, 1], akey=[16], aiv=[12, 16, 8, 1]),
    dict(h=25, name="AES-GMAC-192", tags=[16, 12, 8], akey=[24], aiv=[12, 13]),
    dict(h=26, name="AES-GMAC-256", tags=[16, 12, 4], akey=[32], aiv=[12, 60]),
    dict(h=27, name="AES-CMAC-256", tags=[4, 12, 16], akey=[32]),
    dict(h=28, name="POLY1305", tags=[16], akey=[32]),
    dict(h=31, name="ZUC256-EIA3-BITLEN", tags=[4, 8, 16], akey=[32], aiv=[25, 23], bits=True),
    dict(h=46, name="GHASH", tags=[16, 12, 8, 4, 1], akey=[16], aiv_is_tag=True),
    dict(h=47, name="SM3", tags=[32, 16, 1], akey=[0]),
    dict(h=48, name="HMAC-SM3", tags=[32, 16, 1], akey=[32, 64, 65]),
]
for _h, _n in zip(range(34, 46), ["CRC32-ETHERNET-FCS", "CRC32-SCTP", "CRC32-WIMAX-OFDMA-DATA", "CRC24-LTE-A",
                                  "CRC24-LTE-B", "CRC16-X25", "CRC16-FP-DATA", "CRC11-FP-HEADER",
                                  "CRC10-IUUP-DATA", "CRC8-WIMAX-OFDMA-HCS", "CRC7-FP-HEADER",
                                  "CRC6-IUUP-HEADER"]):
    HASHES.append(dict(h=_h, name=_n, tags=[4], akey=[0]))

# ---- AEAD / combined pairs ----
AEADS = [
    dict(c=5, h=9, name="AES-GCM", keys=[16, 24, 32], iv=[12, 12, 16, 8, 1], tags=[16, 12, 8, 4, 13, 1],
         aad=[0, 1, 8, 12, 16, 17, 20, 31, 32, 33, 48, 63, 64, 65, 100]),
    dict(c=9, h=11, name="AES-CCM", keys=[16, 32], iv=[13, 12, 11, 7, 8], tags=[8, 16, 4, 6, 10, 12, 14],
         aad=[0, 1, 8, 13, 14, 15, 16, 22, 30, 31, 32, 45, 46]),
    dict(c=19, h=29, name="CHACHA20-POLY1305", keys=[32], iv=[12], tags=[16],
         aad=[0, 1, 12, 15, 16, 17, 32, 63, 64, 65]),
    dict(c=22, h=32, name="SNOW-V-AEAD", keys=[32], iv=[16], tags=[16], aad=[0, 1, 15, 16, 17, 33]),
    dict(c=28, h=49, name="SM4-GCM", keys=[16], iv=[12], tags=[16, 12, 8, 4], aad=[0, 1, 12, 16, 17, 33, 64]),
]

# ---- chained cipher + hash (IPsec-like layout: header, IV, payload) ----
CHAINS = [
    dict(c=1, h=1, name="AES-CBC+HMAC-SHA1", key=16, iv=16, mult=16, tag=12, akey=20),
    dict(c=1, h=3, name="AES-CBC+HMAC-SHA256", key=32, iv=16, mult=16, tag=16, akey=32),
    dict(c=2, h=6, name="AES-CNTR+AES-XCBC", key=16, iv=16, mult=1, tag=12, akey=16),
    dict(c=2, h=12, name="AES-CNTR+AES-CMAC", key=24, iv=16, mult=1, tag=16, akey=16),
    dict(c=7, h=7, name="DES-CBC+HMAC-MD5", key=8, iv=8, mult=8, tag=12, akey=16),
    dict(c=10, h=5, name="3DES-CBC+HMAC-SHA512", key=24, iv=8, mult=8, tag=32, akey=64),
    dict(c=14, h=20, name="ZUC-EEA3+ZUC-EIA3", key=16, iv=16, mult=1, tag=4, akey=16, aiv=16, hbits=True),
    dict(c=12, h=15, name="AES-ECB+SHA256", key=16, iv=0, mult=16, tag=32, akey=0),
    dict(c=18, h=28, name="CHACHA20+POLY1305", key=32, iv=12, mult=1, tag=16, akey=32),
    dict(c=25, h=48, name="SM4-CBC+HMAC-SM3", key=16, iv=16, mult=16, tag=32, akey=32),
]


def hx(b):
    return b.hex() if b else "-"


class Gen:
    def __init__(self, rng, tier):
        self.rng, self.tier = rng, tier
        self.items = []          # (line, meta)
        self.next_id = 1
        self.groups = []         # (first index, last index+1, suite name)

    def lengths(self, k, mult=1):
        """message lengths for the k-th parameter combination of a suite"""
        if self.tier == "quick":
            ls = [l for l in DENSE if (l + k) % 2 == 0 or l <= 17] + [BOUNDS[(3 * k + i) % len(BOUNDS)] for i in range(3)]
        else:
            ls = DENSE + BOUNDS
        if mult > 1:
            ls = sorted(set(((l + mult - 1) // mult) * mult for l in ls))
            if self.tier == "quick":
                ls = [l for i, l in enumerate(ls) if (i + k) % 2 == 0 or l > 200]
        return ls

    def add(self, suite, **kw):
        i = self.next_id
        self.next_id += 1
        toks = ["id=%d" % i]
        for k in ("cipher", "hash", "dir", "order"):
            toks.append("%s=%d" % (k, kw[k]))
        for k in ("key", "akey", "iv", "aiv", "aad", "msg"):
            toks.append("%s=%s" % (k, hx(kw.get(k, b""))))
        for k in ("coff", "clen", "hoff", "hlen", "tag"):
            toks.append("%s=%d" % (k, kw.get(k, 0)))
        toks.append("salign=%d" % self.rng.below(64))
        toks.append("dalign=%d" % self.rng.below(64))
        self.items.append((" ".join(toks), dict(id=i, suite=suite, cipher=kw["cipher"], hash=kw["hash"], dir=kw["dir"],
                                                key=len(kw.get("key", b"")), clen=kw.get("clen", 0), hlen=kw.get("hlen", 0),
                                                tag=kw.get("tag", 0), n=len(kw.get("msg", b"")))))

    # ------------------------------------------------------------------
    def cipher_suites(self):
        r = self.rng
        for s in CIPHERS:
            combos = [(k, d) for k in s["keys"] for d in (ENC, DEC)]
            if self.tier == "quick" and len(combos) > 2:
                # every key size once per direction pair, rotating
                combos = [(k, ENC if i % 2 == 0 else DEC) for i, k in enumerate(s["keys"])] + [(s["keys"][0], DEC)]
            for ci, (kl, d) in enumerate(combos):
                start = len(self.items)
                key = r.bytes(kl)
                ivs = s.get("iv32", s["iv"]) if (s["c"] == 14 and kl == 32) else s["iv"]
                for li, L in enumerate(self.lengths(ci, s.get("mult", 1))):
                    ivl = ivs[li % len(ivs)]
                    iv = r.bytes(ivl)
                    if s.get("bits"):
                        # bit lengths: every residue mod 8; SNOW3G/KASUMI also bit offsets
                        nbits = 8 * (L - 1) + 1 + (li % 8) if li % 3 else 8 * L
                        if s.get("bitoff"):
                            boff = [0, 0, 3, 8, 5, 1, 7, 13, 16][li % 9] if nbits % 8 or li % 2 else [0, 8, 24][li % 3]
                            n = (boff + nbits + 7) // 8
                            self.add(s["name"], cipher=s["c"], hash=8, dir=d, order=1, key=key, iv=iv, msg=r.bytes(n),
                                     coff=boff, clen=nbits)
                        else:
                            n = (nbits + 7) // 8
                            off = [0, 0, 4][li % 3]
                            self.add(s["name"], cipher=s["c"], hash=8, dir=d, order=1, key=key, iv=iv,
                                     msg=r.bytes(off + n), coff=off, clen=nbits)
                    else:
                        off = 0 if li % 4 else [4, 16, 1][li % 3]
                        # the buffer must start at the first used byte: offsets only when START-flush is not lost:
                        # use a leading offset on a minority of items
                        self.add(s["name"], cipher=s["c"], hash=8, dir=d, order=1, key=key, iv=iv, msg=r.bytes(off + L),
                                 coff=off, clen=L)
                for L in s.get("small", []):      # AES-CFB, one partial block: direct API only (IMB_AESxxx_CFB_ONE)
                    self.add(s["name"], cipher=s["c"], hash=8, dir=d, order=1, key=key, iv=r.bytes(16), msg=r.bytes(L), coff=0, clen=L)
                self.groups.append((start, len(self.items), s["name"]))

    def hash_suites(self):
        r = self.rng
        for s in HASHES:
            combos = [(t, ak) for t in s["tags"] for ak in s["akey"][:1]] + [(s["tags"][0], ak) for ak in s["akey"][1:]]
            if self.tier == "quick" and len(combos) > 3:
                combos = combos[:2] + [combos[2 + (s["h"] % (len(combos) - 2))]]
            for ci, (tag, akl) in enumerate(combos):
                start = len(self.items)
                akey = r.bytes(akl)
                for li, L in enumerate(self.lengths(ci + s["h"])):
                    aivl = tag if s.get("aiv_is_tag") else (s["aiv"][li % len(s["aiv"])] if "aiv" in s else 0)
                    if s.get("bits"):
                        nbits = 8 * (L - 1) + 1 + (li % 8) if li % 3 else 8 * L
                        n = (nbits + 7) // 8
                        hlen = nbits
                    else:
                        n, hlen = L, L
                    off = 0 if li % 4 else [4, 1, 16][li % 3]
                    self.add(s["name"], cipher=3, hash=s["h"], dir=ENC, order=1, akey=akey, aiv=r.bytes(aivl),
                             msg=r.bytes(off + n), hoff=off, hlen=hlen, tag=tag)
                self.groups.append((start, len(self.items), s["name"]))

    def aead_suites(self):
        r = self.rng
        for s in AEADS:
            combos = [(k, d) for k in s["keys"] for d in (ENC, DEC)]
            if self.tier == "quick" and len(combos) > 2:
                combos = [(k, ENC if i % 2 == 0 else DEC) for i, k in enumerate(s["keys"])] + [(s["keys"][0], DEC)]
            for ci, (kl, d) in enumerate(combos):
                start = len(self.items)
                key = r.bytes(kl)
                for li, L in enumerate([0] + self.lengths(ci)):
                    ivl = s["iv"][li % len(s["iv"])]
                    tag = s["tags"][(li // 2) % len(s["tags"])]
                    aadl = s["aad"][(li + ci) % len(s["aad"])]
                    self.add(s["name"], cipher=s["c"], hash=s["h"], dir=d, order=(1 if d == ENC else 2) if s["c"] != 9 else (2 if d == ENC else 1),
                             key=key, iv=r.bytes(ivl), aad=r.bytes(aadl), msg=r.bytes(L), coff=0, clen=L, hoff=0, hlen=L, tag=tag)
                self.groups.append((start, len(self.items), s["name"]))

    def chain_suites(self):
        r = self.rng
        for s in CHAINS:
            for d in (ENC, DEC):
                start = len(self.items)
                key, akey = r.bytes(s["key"]), r.bytes(s["akey"])
                for li, L in enumerate(self.lengths(s["h"] + d, s["mult"])):
                    hdr = [8, 0, 24][li % 3]              # ESP header + IV in front of the payload
                    trail = [0, 0, 5][li % 3] if s["mult"] == 1 else 0   # hashed bytes behind the cipher range
                    n = hdr + L + trail
                    hlen = n * 8 if s.get("hbits") else n
                    # encrypt: cipher then hash; decrypt: hash then cipher
                    self.add(s["name"], cipher=s["c"], hash=s["h"], dir=d, order=CIPHER_HASH if d == ENC else HASH_CIPHER,
                             key=key, akey=akey, iv=r.bytes(s["iv"]), aiv=r.bytes(s.get("aiv", 0)), msg=r.bytes(n),
                             coff=hdr, clen=L, hoff=0, hlen=hlen, tag=s["tag"])
                self.groups.append((start, len(self.items), s["name"]))

    def docsis_crc(self):
        """DOCSIS_SEC_BPI + DOCSIS_CRC32: Ethernet frame, CRC stored behind the hashed bytes, cipher from byte 12
        through the CRC; in place only."""
        r = self.rng
        for kl in (16, 32):
            for d in (ENC, DEC):
                start = len(self.items)
                key = r.bytes(kl)
                for li, L in enumerate(self.lengths(kl + d)):
                    hlen = L + 13                    # at least 14 bytes of frame
                    coff = 12 + [0, 0, 2, 7][li % 4]
                    if coff > hlen:
                        coff = 12
                    clen = hlen + 4 - coff
                    self.add("DOCSIS-SEC-BPI+CRC32", cipher=4, hash=21, dir=d, order=HASH_CIPHER if d == ENC else CIPHER_HASH,
                             key=key, iv=r.bytes(16), msg=r.bytes(hlen + 4), coff=coff, clen=clen, hoff=0, hlen=hlen, tag=4)
                # short frames: no CRC (hlen < 14), cipher only / nothing to cipher
                for hlen in (0, 1, 13):
                    self.add("DOCSIS-SEC-BPI+CRC32", cipher=4, hash=21, dir=d, order=HASH_CIPHER if d == ENC else CIPHER_HASH,
                             key=key, iv=r.bytes(16), msg=r.bytes(max(hlen, 1)), coff=0, clen=0, hoff=0, hlen=hlen, tag=4)
                self.groups.append((start, len(self.items), "DOCSIS-SEC-BPI+CRC32"))

    def pon(self, with_inconsistent_pli):
        """PON: 8-byte XGEM header (PLI = 14 MS bits), payload of PLI bytes whose last 4 are the CRC, padded to a
        multiple of 4; BIP over everything.  In place only (dst = src + 8)."""
        r = self.rng

        def frame(pli, paylen):
            hdr = bytearray(r.bytes(8))
            hdr[0] = (pli >> 6) & 0xFF
            hdr[1] = ((pli & 0x3F) << 2) | (hdr[1] & 3)
            return bytes(hdr) + r.bytes(paylen)

        for cipher_on in (True, False):
            for d in (ENC, DEC):
                start = len(self.items)
                key = r.bytes(16) if cipher_on else b""
                for li, L in enumerate(self.lengths(3 + d)):
                    pli = L
                    pad = (-pli) % 4 if li % 2 else (-pli) % 8
                    pay = pli + pad
                    if pay == 0:
                        continue
                    self.add("PON-AES-CNTR+CRC-BIP" if cipher_on else "PON-NO-CIPHER+CRC-BIP", cipher=11, hash=19, dir=d, order=1,
                             key=key, iv=r.bytes(16) if cipher_on else b"", msg=frame(pli, pay), coff=8,
                             clen=pay if cipher_on else 0, hoff=0, hlen=8 + pay, tag=8)
                self.groups.append((start, len(self.items), "PON"))
        if with_inconsistent_pli:
            # accepted by the job check (the PLI test is skipped when nothing is ciphered): PLI larger than the buffer
            for d in (ENC, DEC):
                start = len(self.items)
                for pli, pay in ((64, 8), (200, 16), (40, 4), (4000, 32), (16383, 8)):
                    self.add("PON-NO-CIPHER-PLI-BEYOND-BUFFER", cipher=11, hash=19, dir=d, order=1, key=b"", iv=b"",
                             msg=frame(pli, pay), coff=8, clen=0, hoff=0, hlen=8 + pay, tag=8)
                self.groups.append((start, len(self.items), "PON-PLI"))

    def all(self):
        self.cipher_suites()
        self.hash_suites()
        self.aead_suites()
        self.chain_suites()
        self.docsis_crc()
        self.pon(True)
        return self


def chunks(gen, nchunks):
    """Split the item list into nchunks lists of lines without cutting a group."""
    total = len(gen.items)
    target = (total + nchunks - 1) // nchunks
    out, cur = [], []
    for (a, b, _name) in gen.groups:
        cur.extend(range(a, b))
        if len(cur) >= target:
            out.append(cur)
            cur = []
    if cur:
        out.append(cur)
    return out
