"""C06 -- every permitted cipher x hash suite is dispatched to exactly the named cipher and hash.

Proof: coq/Props/Properties_C06.v over Mgr/Dispatch.v (index arithmetic for all values, stage machine
for all jobs, finite and complete theorems over the tables regenerated from the rebuilt objects
(translators/t1b_tables.py) and the validation regenerated from mb_mgr_job_check.h (t2_validate.py)).

Tie / search (EXHAUSTIVE over the same finite domain): for every cell
    cipher mode (28) x key length representative of each key-size class (8,16,24,32) x direction (2)
    x hash algorithm (49) x chain order (2)                                   = 21952 cells
one work item with valid parameters for that cipher and that hash (96-byte message, in place, cipher
range [16,80), hash range [8,88)) is run on every variant through the job API (ep 0) and the async
burst API (ep 2):
  * accepted <-> the generated validation accepts (Coq [accepted_full]/[accepted_light]);
  * rejected cells: IMB_STATUS_INVALID_ARGS, destination and tag untouched;
  * accepted cells: dst/tag == extracted Coq job model (Struct/JobSem.v) where it models the cell,
    AND == the library-composition oracle: cipher-only job and hash-only job run separately on the
    same variant, composed by chain order (the hash-only job of a cipher-first cell reads the
    cipher-only output);  cipher-only / hash-only rows are compared with each other (aliasing:
    a row giving the result of another named algorithm, or of the NULL cipher);
  * job API result == burst API result;
  * imb_set_session(): suite_id words == (calc_cipher_tab_index, hash_alg) of the model, equal for
    equal (mode, key class, direction, hash), accepted <-> light check (harness/c06_aux.c);
  * CUSTOM and SGL cells (not supported by k1_algo) run through harness/c06_aux.c: callbacks
    called once each in chain order; GCM-SGL / CHACHA20-POLY1305-SGL == their one-shot twins.
"""
import os, sys, json, time, re, hashlib, collections, concurrent.futures as cf
from . import common
from .common import Rng, Result, log

PID = "C06"
MSG_LEN = 96
KLENS = (8, 16, 24, 32)
C_NULL, H_NULL = 3, 8
C_CUSTOM, H_CUSTOM = 6, 10
C_CHACHA_SGL, C_GCM_SGL, H_CHACHA_SGL, H_GCM_SGL = 20, 23, 30, 33
AUX_CIPHERS = (C_CUSTOM, C_CHACHA_SGL, C_GCM_SGL)
AUX_HASHES = (H_CUSTOM, H_CHACHA_SGL, H_GCM_SGL)
# dedicated pairings (cipher, hash): one combined kernel
PAIRS = {5: 9, 23: 33, 9: 11, 19: 29, 20: 30, 22: 32, 28: 49, 11: 19}
PAIRED_HASHES = set(PAIRS.values()) | {21}
BIT_CIPHERS = (13, 15, 16)
BITOFF_CIPHERS = (15, 16)
BIT_HASHES = (18, 20, 22, 31)


def hx(b):
    return b.hex() if b else "-"


# ------------------------------------------------------------------------------------------------
# per-algorithm templates
# ------------------------------------------------------------------------------------------------
class Material:
    """all random material derives from the seed; the key of length k is a prefix of the 32-byte key,
    so that rows of different key sizes differ only in what the library does with the key"""

    def __init__(self, seed):
        r = Rng(seed)
        self.msg = r.bytes(MSG_LEN)
        self.key32 = r.bytes(32)
        self.akey = r.bytes(64)
        self.iv = r.bytes(32)
        self.aiv = r.bytes(32)
        self.aad = r.bytes(20)
        self.pon_hdr_rand = r.next()


def cipher_tpl(M, mode, klen):
    """(iv, coff, clen) in the units the mode wants; cipher range = bytes [16,80) or [16,77)"""
    blk = dict(iv=M.iv[:16], coff=16, clen=64)
    stream = dict(iv=M.iv[:16], coff=16, clen=61)
    t = {
        1: blk, 2: stream, 3: dict(iv=b"", coff=0, clen=0), 4: stream,
        5: dict(iv=M.iv[:12], coff=16, clen=64), 6: blk,
        7: dict(iv=M.iv[:8], coff=16, clen=64), 8: dict(iv=M.iv[:8], coff=16, clen=61),
        9: dict(iv=M.iv[:13], coff=16, clen=64), 10: dict(iv=M.iv[:8], coff=16, clen=64),
        11: dict(iv=M.iv[:16], coff=16, clen=64), 12: dict(iv=b"", coff=16, clen=64),
        13: dict(iv=M.iv[:16], coff=16, clen=61 * 8),
        14: dict(iv=M.iv[:25] if klen == 32 else M.iv[:16], coff=16, clen=61),
        15: dict(iv=M.iv[:16], coff=16 * 8, clen=61 * 8), 16: dict(iv=M.iv[:8], coff=16 * 8, clen=61 * 8),
        17: blk, 18: dict(iv=M.iv[:12], coff=16, clen=61), 19: dict(iv=M.iv[:12], coff=16, clen=64),
        20: dict(iv=M.iv[:12], coff=16, clen=64), 21: stream, 22: dict(iv=M.iv[:16], coff=16, clen=64),
        23: dict(iv=M.iv[:12], coff=16, clen=64), 24: dict(iv=b"", coff=16, clen=64), 25: blk, 26: blk,
        27: stream, 28: dict(iv=M.iv[:12], coff=16, clen=64),
    }[mode]
    return dict(t)


def hash_tpl(M, h):
    """(akey, aiv, tag, bits?) ; hashed range = bytes [8,88)"""
    t = {
        1: (20, 0, 12), 2: (28, 0, 14), 3: (32, 0, 16), 4: (48, 0, 24), 5: (64, 0, 32), 6: (16, 0, 12), 7: (16, 0, 12),
        8: (0, 0, 0), 9: (0, 0, 16), 10: (0, 0, 8), 11: (0, 0, 8), 12: (16, 0, 16), 13: (0, 0, 20), 14: (0, 0, 28),
        15: (0, 0, 32), 16: (0, 0, 48), 17: (0, 0, 64), 18: (16, 0, 16), 19: (0, 0, 8), 20: (16, 16, 4), 21: (0, 0, 4),
        22: (16, 16, 4), 23: (16, 0, 4), 24: (16, 12, 16), 25: (24, 12, 16), 26: (32, 12, 16), 27: (32, 0, 16),
        28: (32, 0, 16), 29: (0, 0, 16), 30: (0, 0, 16), 31: (32, 25, 8), 32: (0, 0, 16), 33: (0, 0, 16),
        46: (16, 16, 16), 47: (0, 0, 32), 48: (32, 0, 32), 49: (0, 0, 16),
    }.get(h)
    if t is None:
        if 34 <= h <= 45:
            t = (0, 0, 4)
        else:
            raise KeyError(h)
    akl, aivl, tag = t
    return dict(akey=M.akey[:akl], aiv=M.aiv[:aivl], tag=tag)


def cell_item(M, iid, mode, klen, d, h, order):
    """the K1 work item of a cell (dict with bytes fields)"""
    c = cipher_tpl(M, mode, klen)
    ht = hash_tpl(M, h)
    it = dict(id=iid, cipher=mode, hash=h, dir=d, order=order, key=M.key32[:klen], akey=ht["akey"], iv=c["iv"],
              aiv=ht["aiv"], aad=b"", msg=M.msg, coff=c["coff"], clen=c["clen"], hoff=8,
              hlen=80 * 8 if h in BIT_HASHES else 80, tag=ht["tag"], inplace=1, salign=0, dalign=0, doff=None, hdst=0)
    if h == H_NULL:
        it["hoff"], it["hlen"] = 0, 0
    if mode in (5, 9, 19, 20, 22, 23, 28) or h in (9, 11, 29, 30, 32, 33, 49):
        it["aad"] = M.aad
    if mode in PAIRS and mode != 11 and PAIRS[mode] == h:
        # AEAD: the hash range is the cipher range
        it["hoff"], it["hlen"] = it["coff"], it["clen"]
    if mode == 11 or h == 19:
        # PON frame at offset 8: XGEM header (PLI = 64) + 64 bytes of payload; ciphered with a 16-byte key only
        hdr = ((64 & 0x3fff) << 50) | (M.pon_hdr_rand & ((1 << 50) - 1))
        it["msg"] = M.msg[:8] + hdr.to_bytes(8, "big") + M.msg[16:]
        if mode == 11:
            it["hoff"], it["hlen"], it["coff"] = 8, 72, 16
            it["clen"] = 64 if klen == 16 else 0
            if h != 19:
                it["hoff"], it["hlen"] = 8, (80 * 8 if h in BIT_HASHES else 80)
                if h == H_NULL:
                    it["hoff"], it["hlen"] = 0, 0
        else:
            it["hoff"], it["hlen"] = 8, 72
    if h == 21:
        # DOCSIS frame: CRC over [8,68) stored at [68,72); ciphered [20,72)
        it["hoff"], it["hlen"] = 8, 60
        if mode == 4:
            it["coff"], it["clen"] = 20, 52
    return it


def canonical_order(it):
    """PON: the combined kernel is modelled for the order the direction implies"""
    return 2 if it["dir"] == 1 else 1


def item_line(it):
    from . import k1
    return k1.item_line(it)


def cell_id(mode, klen, d, h, order):
    return ((((mode * 4 + KLENS.index(klen)) * 2 + (d - 1)) * 64 + h) * 2 + (order - 1)) + 1


def cell_of_id(i):
    i -= 1
    order = i % 2 + 1; i //= 2
    h = i % 64; i //= 64
    d = i % 2 + 1; i //= 2
    k = KLENS[i % 4]; i //= 4
    return (i, k, d, h, order)


def all_cells(C):
    for mode in range(1, C["IMB_CIPHER_NUM"]):
        for klen in KLENS:
            for d in (1, 2):
                for h in range(1, C["IMB_AUTH_NUM"]):
                    for order in (1, 2):
                        yield (mode, klen, d, h, order)


# ------------------------------------------------------------------------------------------------
# CUSTOM / SGL cells (harness/c06_aux.c)
# ------------------------------------------------------------------------------------------------
PLACEHOLDER_C = {C_CUSTOM: C_NULL, C_GCM_SGL: 5, C_CHACHA_SGL: 19}
PLACEHOLDER_H = {H_CUSTOM: H_NULL, H_GCM_SGL: 9, H_CHACHA_SGL: 29}


def aux_line(it):
    from . import k1
    d = dict(it)
    d["cipher"] = PLACEHOLDER_C.get(it["cipher"], it["cipher"])
    d["hash"] = PLACEHOLDER_H.get(it["hash"], it["hash"])
    return k1.item_line(d) + " xcipher=%d xhash=%d" % (it["cipher"], it["hash"])


def custom_cipher_py(buf, coff, clen):
    b = bytearray(buf)
    for i in range(coff, coff + clen):
        b[i] ^= 0x5A
    return bytes(b)


def custom_hash_py(buf, hoff, hlen, tl):
    if tl == 0:
        return b""
    t = [(0x11 * (j + 1)) & 255 for j in range(tl)]
    for i in range(hlen):
        t[i % tl] = (t[i % tl] * 31 + buf[hoff + i] + i) & 255
    return bytes(t)


# ------------------------------------------------------------------------------------------------
# running the harnesses
# ------------------------------------------------------------------------------------------------
def parse_result_lines(txt, out):
    """{(id, var, ep): dict(status, errno, dst, tag, canary, src, niv, calls) | dict(crash=sig)}"""
    for l in txt.splitlines():
        if not l.startswith("id="):
            continue
        kv = dict(x.split("=", 1) for x in l.split() if "=" in x)
        try:
            key = (int(kv["id"]), kv["var"], int(kv["ep"]))
        except (KeyError, ValueError):
            continue
        if " CRASH" in l:
            out[key] = dict(crash=kv.get("sig", "?"))
        elif "skip" in kv:
            out[key] = dict(skip=kv["skip"])
        else:
            nd = lambda x: "" if x in (None, "-") else x
            out[key] = dict(status=int(kv["status"]), errno=int(kv["errno"]), dst=nd(kv.get("dst")), tag=nd(kv.get("tag")),
                            canary=kv.get("canary", "?"), src=kv.get("src", "?"), niv=kv.get("niv"), calls=kv.get("calls"))
    return out


def run_k1(k1exe, casefile, eps="0,2", batch=1, variants="all", timeout=900):
    cmd = [k1exe, casefile, "--variants", variants, "--eps", eps, "--batch", str(batch)]
    try:
        p = common.run(cmd, env=common.lib_env(), timeout=timeout)
        if p.returncode != 0 and "id=" not in p.stdout:
            # the harness died before producing anything: the library crashes while managers are created
            # (init_mb_mgr_* runs the power-up self test through the very tables under test)
            return "HARNESS-DIED rc=%d\n" % p.returncode, p.stderr, False
        return p.stdout, p.stderr, False
    except Exception as ex:     # timeout: a hang inside the library
        out = getattr(ex, "stdout", "") or ""
        if isinstance(out, bytes):
            out = out.decode(errors="replace")
        return out, "TIMEOUT", True


def run_k1_sharded(k1exe, workdir, name, lines, eps="0,2", batch=1, nshard=None):
    """split the case file so that the variants x items product runs on all cores"""
    nshard = nshard or max(1, min(common.NCPU, len(lines) // 200 + 1))
    files = []
    for s in range(nshard):
        p = os.path.join(workdir, "%s_%02d.txt" % (name, s))
        with open(p, "w") as f:
            f.write("\n".join(lines[s::nshard]) + "\n")
        files.append(p)
    res, hung, variant_table = {}, False, None
    with cf.ThreadPoolExecutor(max_workers=nshard) as ex:
        for out, err, to in ex.map(lambda p: run_k1(k1exe, p, eps, batch), files):
            if out.startswith("HARNESS-DIED"):
                res[(0, "-", -1)] = dict(died=out.strip() + " " + err[-300:].replace("\n", " | "))
            parse_result_lines(out, res)
            hung = hung or to
            if variant_table is None:
                variant_table = [l for l in err.splitlines() if l.startswith("variant=")]
    return res, hung, variant_table or []


def run_aux(auxexe, mode, workdir, name, lines, nshard=None):
    nshard = nshard or max(1, min(common.NCPU, len(lines) // 50 + 1))
    files = []
    for s in range(nshard):
        p = os.path.join(workdir, "%s_%02d.txt" % (name, s))
        with open(p, "w") as f:
            f.write("\n".join(lines[s::nshard]) + "\n")
        files.append(p)

    def one(p):
        try:
            return common.run([auxexe, mode, p], env=common.lib_env(), timeout=1200).stdout
        except Exception as ex:
            o = getattr(ex, "stdout", "") or ""
            return (o.decode(errors="replace") if isinstance(o, bytes) else o) + "\nAUX-TIMEOUT\n"
    with cf.ThreadPoolExecutor(max_workers=nshard) as ex:
        return "\n".join(ex.map(one, files))


# ------------------------------------------------------------------------------------------------
# the accepted sets of the generated validation, evaluated by Coq
# ------------------------------------------------------------------------------------------------
DUMP_V = """From Coq Require Import NArith List Bool String.
From IMB Require Import Lib.Bytes Gen.GenEnums Mgr.JobView Gen.GenValidate Gen.GenTables Gen.GenKnownC06 Mgr.Dispatch.
Import ListNotations.
Local Open Scope N_scope.
Definition enc (c : cell) : N := ((((c_mode c * 64 + c_klen c) * 4 + c_dir c) * 64 + c_hash c) * 4 + c_order c) * 8
   + (if accepted_light c then 1 else 0) + (if accepted_full c then 2 else 0) + (if excepted c then 4 else 0).
Eval vm_compute in (List.length all_cells, map enc (filter (fun c => accepted c || excepted c) all_cells)).
Eval vm_compute in map (fun '(m, k) => (m, k, calc_cipher_tab_index m k 1, calc_cipher_tab_index m k 2))
   (flat_map (fun m => map (fun k => (m, k)) [0; 1; 8; 9; 15; 16; 17; 24; 25; 32; 33; 64]) (0 :: all_modes)).
"""


def coq_accepted(workdir):
    """-> (ncells, {cell: flags(1 light, 2 full, 4 excepted)}, {(mode, klen): (idx enc, idx dec)})  (cached on the inputs)"""
    h = hashlib.sha256()
    for f in ("Gen/GenValidate.v", "Gen/GenEnums.v", "Gen/GenKnownC06.v", "Mgr/Dispatch.v", "Mgr/JobView.v"):
        h.update(open(os.path.join(common.COQDIR, f), "rb").read())
    h.update(DUMP_V.encode())
    cache = os.path.join(workdir, "accepted_%s.json" % h.hexdigest()[:16])
    if os.path.exists(cache):
        d = json.load(open(cache))
    else:
        ok, out = common.coq_make(["Mgr/Dispatch.vo"])
        if not ok:
            raise RuntimeError("Mgr/Dispatch.vo does not build:\n" + out[-3000:])
        vf = os.path.join(workdir, "DumpC06.v")
        open(vf, "w").write(DUMP_V)
        p = common.run(["timeout", "900", "coqc", "-Q", common.COQDIR, "IMB", vf], cwd=workdir, timeout=930)
        if p.returncode != 0:
            raise RuntimeError("evaluation of the accepted set failed:\n" + p.stdout[-2000:] + p.stderr[-2000:])
        parts = p.stdout.split("     = ")
        m = re.search(r"\((\d+)%nat,\s*\[(.*?)\]\)", parts[1], re.S)
        ncells = int(m.group(1))
        nums = [int(x) for x in re.findall(r"\d+", m.group(2))]
        idx = [[int(x) for x in t] for t in re.findall(r"\(\s*(\d+)\s*,\s*(\d+)\s*,\s*(\d+)\s*,\s*(\d+)\s*\)", parts[2])]
        d = dict(ncells=ncells, nums=nums, idx=idx)
        if len(idx) != 12 * 29:
            raise RuntimeError("cannot parse the index table printed by Coq (%d entries)" % len(idx))
        json.dump(d, open(cache, "w"))
    acc = {}
    for v in d["nums"]:
        fl = v % 8; v //= 8
        o = v % 4; v //= 4
        hh = v % 64; v //= 64
        dd = v % 4; v //= 4
        k = v % 64; v //= 64
        acc[(v, k, dd, hh, o)] = fl
    idx = {(m, k): (e, dcr) for (m, k, e, dcr) in d["idx"]}
    return d["ncells"], acc, idx


DIAG_V = """From Coq Require Import NArith List Bool String.
From IMB Require Import Lib.Bytes Gen.GenEnums Mgr.JobView Gen.GenValidate Gen.GenTables Gen.GenKnownC06 Mgr.Dispatch.
Import ListNotations.
Local Open Scope N_scope.
Definition needed : list (N * N * N) := [%s].
Definition needed_h : list N := [%s].
Definition show (o : option wrapper) := match o with Some w => (w_name w, w_calls w, w_mgrs w) | None => (\"NULL\"%%string, [], []) end.
(* cipher side: (variant, (mode, klen, dir), index, submit entry, flush entry) of every needed algorithm whose entry is not the named one *)
Eval vm_compute in flat_map (fun vt => flat_map (fun '(m, k, d) =>
   if cipher_side_ok vt m k d then [] else
   [(vt_name vt, (m, k, d), calc_cipher_tab_index m k d, show (tab_get (vt_submit_cipher vt) (calc_cipher_tab_index m k d)),
     show (tab_get (vt_flush_cipher vt) (calc_cipher_tab_index m k d)))]) needed) all_variant_tables.
(* hash side *)
Eval vm_compute in flat_map (fun vt => flat_map (fun h =>
   if hash_side_ok vt h then [] else [(vt_name vt, h, show (tab_get (vt_submit_hash vt) h), show (tab_get (vt_flush_hash vt) h))]) needed_h) all_variant_tables.
(* index function: machine translation of the C expression vs the model, and the table geometry *)
Eval vm_compute in (ENCRYPT_DECRYPT_GAP, IMB_CIPHER_NUM,
   filter (fun '(m, k, d) => negb (gen_calc_cipher_tab_index IMB_DIR_ENCRYPT IMB_DIR_DECRYPT m k d =? calc_cipher_tab_index m k d)) needed,
   map (fun vt => (vt_name vt, List.length (vt_submit_cipher vt), List.length (vt_flush_cipher vt),
                   List.length (vt_submit_hash vt), List.length (vt_flush_hash vt))) all_variant_tables).
"""


def coq_diagnose(workdir, acc):
    """when the theorems no longer check: which table entries / which part of the index function are off"""
    needed = sorted({(c[0], c[1], c[2]) for c, fl in acc.items() if (fl & 3) and not (fl & 4)})
    needed_h = sorted({c[3] for c, fl in acc.items() if (fl & 3) and not (fl & 4)})
    vf = os.path.join(workdir, "DiagC06.v")
    open(vf, "w").write(DIAG_V % ("; ".join("(%d, %d, %d)" % t for t in needed), "; ".join(str(h) for h in needed_h)))
    try:
        p = common.run(["timeout", "600", "coqc", "-Q", common.COQDIR, "IMB", vf], cwd=workdir, timeout=630)
    except Exception as ex:
        return "diagnosis failed: %s" % ex
    txt = p.stdout if p.returncode == 0 else (p.stdout + p.stderr)
    return re.sub(r"[ \t]+", " ", txt)[-6000:]


# ------------------------------------------------------------------------------------------------
# known findings
# ------------------------------------------------------------------------------------------------
def load_known():
    sys.path.insert(0, os.path.join(common.VERIF, "translators"))
    import t1b_tables
    return t1b_tables.parse_known_c06()


def known_match(known, mode, klen, d, h):
    for e in known:
        if (e["cipher"] is None or mode in e["cipher"]) and (e["klen"] is None or klen in e["klen"]) and \
           (e.get("dir") is None or d in e["dir"]) and (e["hash"] is None or h in e["hash"]):
            return e
    return None


# ------------------------------------------------------------------------------------------------
# one pass over the whole domain with one set of material / one placement
# ------------------------------------------------------------------------------------------------
class Pass:
    def __init__(self, env, seed, inplace, batch=1, mix=None):
        self.env, self.seed, self.inplace, self.batch, self.mix = env, seed, inplace, batch, mix
        self.M = Material(seed)
        self.dis = []          # disagreements
        self.stats = collections.Counter()
        self.per_variant = collections.defaultdict(collections.Counter)    # var -> measured accepted / rejected per entry point

    def item(self, cell):
        it = cell_item(self.M, cell_id(*cell), *cell)
        mode, klen, d, h, order = cell
        if not self.inplace and mode not in (11, 4, C_NULL) and h not in (19, 21) and mode not in AUX_CIPHERS and h not in AUX_HASHES:
            it["inplace"] = 0
            # generic chained cells, cipher first: the hash reads the cipher output from the destination area;
            # the dedicated pairs take one offset for both stages
            generic = mode not in PAIRS and h not in PAIRED_HASHES
            it["hdst"] = 1 if (order == 1 and generic) else 0
        return it

    def note(self, cell, var, ep, kind, **detail):
        self.dis.append(dict(cell=list(cell), var=var, ep=ep, kind=kind, seed=self.seed, inplace=self.inplace, **detail))

    def run(self):
        env = self.env
        from . import k1
        t0 = time.time()
        C, acc = env["C"], env["acc"]
        cells = list(all_cells(C))
        items = {c: self.item(c) for c in cells}
        k1cells = [c for c in cells if c[0] not in AUX_CIPHERS and c[3] not in AUX_HASHES]
        auxcells = [c for c in cells if c[0] in AUX_CIPHERS or c[3] in AUX_HASHES]
        if self.mix:
            # jobs in flight together share one scheduler (mix="hash": same hash algorithm, random cipher / key size /
            # direction / chain order; mix="cipher": the converse), so that a job handed back by the shared scheduler
            # inside another suite's submit call still has a stage to run, with different dispatch-table indices
            import hashlib
            rk = lambda c: hashlib.sha256(("%d:%s" % (self.seed, c)).encode()).digest()
            k1cells.sort(key=(lambda c: (c[3], rk(c))) if self.mix == "hash" else (lambda c: (c[0], c[1], c[2], rk(c))))
        tagname = "s%d_%s" % (self.seed, "ip" if self.inplace else "oop")
        # ---- pre-flight: the cipher-only and hash-only rows alone, one process per variant.  A row that crashes or
        # hangs (60 s watchdog of k1_algo per job) is reported and its cells are left out of the full sweep, which
        # would otherwise spend a watchdog period on every one of its ~100 cells x 14 paths.
        base = [c for c in k1cells if (acc.get(c, 0) & 2) and c[4] == 1 and
                ((c[3] == H_NULL and c[0] != C_NULL) or (c[0] == C_NULL and c[1] == 16 and c[2] == 1 and c[3] != H_NULL))]
        bad_c, bad_h = set(), set()
        vnames = env.get("variant_names") or []
        if vnames:
            pf = os.path.join(env["work"], "pre_" + tagname + ".txt")
            with open(pf, "w") as f:
                f.write("\n".join(k1.item_line(items[c]) for c in base) + "\n")
            pres_ = {}
            with cf.ThreadPoolExecutor(max_workers=len(vnames)) as ex:
                for out, err, to in ex.map(lambda v: run_k1(env["k1"], pf, "0", 1, v, 900), vnames):
                    parse_result_lines(out, pres_)
                    if to:
                        self.note((0, 0, 0, 0, 0), "-", -1, "hang", detail="pre-flight run did not finish")
            for (iid, var, ep), o in pres_.items():
                c = cell_of_id(iid)
                if "crash" in o:
                    self.note(c, var, ep, "hang" if str(o["crash"]) == "14" else "crash", sig=o["crash"],
                              detail="base row (cipher-only / hash-only job) %s" % ("never completes" if str(o["crash"]) == "14" else "crashes"))
                    (bad_h if c[0] == C_NULL else bad_c).add((c[0], c[1], c[2]) if c[0] != C_NULL else c[3])
            self.stats["preflight_rows"] += len(base)
        if bad_c or bad_h:
            before = len(k1cells)
            k1cells = [c for c in k1cells if (c[0], c[1], c[2]) not in bad_c and c[3] not in bad_h]
            auxcells = [c for c in auxcells if (c[0], c[1], c[2]) not in bad_c and c[3] not in bad_h]
            self.stats["cells_skipped_after_preflight"] += before - len(k1cells)
        # ---- round 1: every k1 cell on every variant, job API and burst API
        res, hung, vtab = run_k1_sharded(env["k1"], env["work"], "r1_" + tagname, [k1.item_line(items[c]) for c in k1cells],
                                         batch=self.batch)
        self.stats["k1_results"] += len(res)
        if hung:
            self.note((0, 0, 0, 0, 0), "-", -1, "hang", detail="k1_algo did not finish: a job hung inside the library")
        died = res.pop((0, "-", -1), None)
        if died:
            self.note((0, 0, 0, 0, 0), "-", -1, "no-usable-manager",
                      detail="k1_algo produced nothing: no manager could be created (power-up self test fails or crashes on every variant): " + died["died"],
                      replay_cmd="LD_LIBRARY_PATH=<build>/lib/lib <build>/bin/k1_algo --list-variants")
            self.stats["pass_s"] += time.time() - t0
            return self
        variants = sorted({k[1] for k in res})
        env["variants"] = variants
        env["variant_table"] = vtab
        R = collections.defaultdict(dict)      # cell -> {(var, ep): outcome}
        for (iid, var, ep), o in res.items():
            R[cell_of_id(iid)][(var, ep)] = o
        # ---- model on the accepted cells
        want_model = [items[c] for c in k1cells if acc.get(c, 0) & 2]
        tm = time.time()
        for it in want_model:
            it.update(_valid=True)
        model = k1.run_model(env["mtools"], want_model, tag="c06" + tagname)
        # PON in the order the direction does not imply: the single combined kernel -> model of the canonical order
        for c in k1cells:
            if c[0] == 11 and c[3] == 19 and (acc.get(c, 0) & 2) and model.get(cell_id(*c)) is None:
                cc = (c[0], c[1], c[2], c[3], canonical_order(items[c]))
                model[cell_id(*c)] = model.get(cell_id(*cc))
        self.stats["model_s"] += time.time() - tm
        self.stats["modelled"] += sum(1 for v in model.values() if v is not None)
        # ---- round 2: hash-only jobs over the cipher-only output, for the cipher-first chained cells
        ref = variants[0] if variants else None
        r2_items, r2_of = [], {}
        for c in k1cells:
            mode, klen, d, h, order = c
            if not (acc.get(c, 0) & 2) or order != 1 or mode == C_NULL or h == H_NULL:
                continue
            if mode in PAIRS or h in PAIRED_HASHES:
                continue
            crow = R.get((mode, klen, d, H_NULL, 1), {}).get((ref, 0))
            if not crow or crow.get("status") != 3:
                continue
            it = dict(items[c])
            buf = bytes.fromhex(crow["dst"])
            iid = 10_000_000 + cell_id(*c)
            it.update(id=iid, cipher=C_NULL, key=b"", iv=b"", coff=0, clen=0, msg=buf, inplace=1, hdst=0, order=1, aad=b"")
            r2_items.append(it)
            r2_of[c] = iid
        res2, hung2, _ = run_k1_sharded(env["k1"], env["work"], "r2_" + tagname, [k1.item_line(it) for it in r2_items], eps="0")
        self.stats["k1_results"] += len(res2)
        if hung2:
            self.note((0, 0, 0, 0, 0), "-", -1, "hang", detail="k1_algo (hash-only round) did not finish")
        self.stats["composition_items"] += len(r2_items)
        # ---- evaluate
        prefill_tag = lambda n: bytes((0x3C ^ (i & 255)) for i in range(n)).hex()
        prefill_dst = bytes((0xC3 ^ (i & 255)) for i in range(MSG_LEN)).hex()
        for c in k1cells:
            mode, klen, d, h, order = c
            it = items[c]
            fl = acc.get(c, 0)
            outs = R.get(c, {})
            m = model.get(cell_id(*c)) if (fl & 2) else None
            if mode == 9 and h == 11 and order != canonical_order(it):
                # CCM is two separate stages (CTR cipher, CBC-MAC hash): the MAC is over the plaintext only in the order the
                # direction implies (documented); the other order runs the same two stages and is not CCM -- no oracle
                m = None
                self.stats["ccm_noncanonical_order"] += 1
            untouched_dst = it["msg"].hex() if it["inplace"] else prefill_dst
            for var in variants:
                for ep in (0, 2):
                    o = outs.get((var, ep))
                    self.stats["evaluations"] += 1
                    if o is None or "skip" in o:
                        self.note(c, var, ep, "missing", detail="no result line / skipped")
                        continue
                    if "crash" in o:
                        self.note(c, var, ep, "crash", sig=o["crash"])
                        continue
                    exp = 3 if ((fl & 2) and (ep == 0 or (fl & 1))) else 4
                    self.per_variant[var]["ep%d_%s" % (ep, {3: "accepted", 4: "rejected"}.get(o["status"], "status%d" % o["status"]))] += 1
                    if o["status"] != exp:
                        self.note(c, var, ep, "status", expected=exp, got=o["status"], errno=o["errno"])
                        continue
                    if o["canary"] != "ok":
                        self.note(c, var, ep, "canary", got=o["canary"])
                    if exp == 4:
                        self.stats["rejected_checked"] += 1
                        if o["dst"] != untouched_dst or o["tag"] != prefill_tag(it["tag"]):
                            self.note(c, var, ep, "rejected-but-written", dst=o["dst"][:64], tag=o["tag"][:64])
                        continue
                    self.stats["accepted_checked"] += 1
                    # a dedicated pairing accepted with a foreign partner: the named hash (or cipher) cannot have run
                    if (mode in PAIRS and PAIRS[mode] != h) or (h in PAIRED_HASHES and {9: 5, 33: 23, 11: 9, 29: 19, 30: 20, 32: 22, 49: 28, 19: 11, 21: 4}[h] != mode):
                        self.note(c, var, ep, "unpaired-aead-accepted", tag=o["tag"][:64],
                                  detail="accepted although the cipher mode / hash algorithm only exists as one half of a dedicated pair")
                    # (i) the extracted Coq job model
                    if m is not None:
                        bad = k1.compare_outcome(o, m, it)
                        bad = [b for b in bad if b not in ("dst-loose",)]
                        if bad:
                            self.note(c, var, ep, "model", fields=bad, model_dst=m["dst"][:96], lib_dst=o["dst"][:96],
                                      model_tag=m["tag"][:64], lib_tag=o["tag"][:64])
                        self.stats["model_compared"] += 1
                    # (ii) composition of the library's own parts
                    if mode != C_NULL and h != H_NULL and mode not in PAIRS and h not in PAIRED_HASHES:
                        crow = R.get((mode, klen, d, H_NULL, order), {}).get((var, ep))
                        if order == 2:
                            hrow = R.get((C_NULL, klen, d, h, 2), {}).get((var, ep))
                            if it["inplace"] == 0:
                                hrow = R.get((C_NULL, klen, d, h, 2), {}).get((var, ep))
                        else:
                            hrow = res2.get((r2_of.get(c), var, 0))
                        if crow is None or hrow is None or crow.get("status") != 3 or hrow.get("status") != 3:
                            self.note(c, var, ep, "composition-parts-missing",
                                      cipher_only=(crow or {}).get("status"), hash_only=(hrow or {}).get("status"))
                        else:
                            self.stats["composition_compared"] += 1
                            if o["dst"] != crow["dst"] or o["tag"] != hrow["tag"] or o.get("niv") != crow.get("niv"):
                                self.note(c, var, ep, "composition", chained_dst=o["dst"][:96], cipher_only_dst=crow["dst"][:96],
                                          chained_tag=o["tag"][:64], hash_only_tag=hrow["tag"][:64])
                    # a cipher that left the buffer untouched ran the NULL cipher
                    if mode != C_NULL and it["clen"] and o["dst"] == untouched_dst and mode != 17:
                        self.note(c, var, ep, "null-cipher-ran", detail="status COMPLETED but the destination is untouched")
                # job API == burst API
                a, b = outs.get((var, 0)), outs.get((var, 2))
                if a and b and "status" in a and "status" in b and (fl & 3) == 3:
                    self.stats["job_vs_burst"] += 1
                    if (a["status"], a["dst"], a["tag"], a.get("niv")) != (b["status"], b["dst"], b["tag"], b.get("niv")):
                        self.note(c, var, 2, "job-vs-burst", job=dict(status=a["status"], dst=a["dst"][:96], tag=a["tag"][:64]),
                                  burst=dict(status=b["status"], dst=b["dst"][:96], tag=b["tag"][:64]))
            # combined AEAD kernels: the result does not depend on the chain order
            if mode in PAIRS and mode != 9 and PAIRS[mode] == h and order == 1 and (fl & 2) and (acc.get((mode, klen, d, h, 2), 0) & 2):
                for key, o in outs.items():
                    o2 = R.get((mode, klen, d, h, 2), {}).get(key)
                    if o2 and "status" in o and "status" in o2 and (o["dst"], o["tag"]) != (o2["dst"], o2["tag"]):
                        self.note(c, key[0], key[1], "order-dependent-aead", order1=o["tag"][:32], order2=o2["tag"][:32])
        self.aliasing(R, items, acc, variants)
        if self.inplace:
            # CUSTOM / SGL cells: compared with rows of this pass, which must be in place like them
            self.run_aux(auxcells, items, acc, R, variants)
        self.stats["pass_s"] += time.time() - t0
        return self

    # rows of different named algorithms must not coincide (a transposed row / wrong key-size slot shows up as
    # a row that gives the output of ANOTHER algorithm); documented coincidences excepted
    def aliasing(self, R, items, acc, variants):
        same_alg = lambda a, b: (a[0] in (2, 13) and b[0] in (2, 13) and a[1] == b[1])
        for var in variants:
            for d in (1, 2):
                seen = {}
                for mode in range(1, self.env["C"]["IMB_CIPHER_NUM"]):
                    if mode in AUX_CIPHERS or mode in PAIRS or mode == C_NULL:
                        continue
                    for klen in KLENS:
                        c = (mode, klen, d, H_NULL, 1)
                        o = R.get(c, {}).get((var, 0))
                        if not (acc.get(c, 0) & 2) or not o or o.get("status") != 3:
                            continue
                        self.stats["alias_rows"] += 1
                        # compare the ciphered bytes only
                        it = items[c]
                        nb = it["clen"] // 8 if mode in BIT_CIPHERS else it["clen"]
                        key = o["dst"][32:32 + 2 * min(nb, 61)]
                        if key in seen and not same_alg(seen[key], (mode, klen)):
                            self.note(c, var, 0, "alias", same_output_as=list(seen[key]))
                        seen.setdefault(key, (mode, klen))
            seen = {}
            for h in range(1, self.env["C"]["IMB_AUTH_NUM"]):
                if h in AUX_HASHES or h in PAIRED_HASHES or h == H_NULL:
                    continue
                c = (C_NULL, 16, 1, h, 1)
                o = R.get(c, {}).get((var, 0))
                if not (acc.get(c, 0) & 2) or not o or o.get("status") != 3:
                    continue
                self.stats["alias_rows"] += 1
                if o["tag"] in seen and {seen[o["tag"]], h} != {12, 18}:
                    self.note(c, var, 0, "alias", same_tag_as=seen[o["tag"]])
                seen.setdefault(o["tag"], h)

    def run_aux(self, auxcells, items, acc, R, variants):
        env = self.env
        lines = [aux_line(items[c]) for c in auxcells]
        txt = run_aux(env["aux"], "cells", env["work"], "aux_s%d" % self.seed, lines)
        res = parse_result_lines(txt, {})
        if "AUX-TIMEOUT" in txt:
            self.note((0, 0, 0, 0, 0), "-", -1, "hang", detail="c06_aux did not finish")
        A = collections.defaultdict(dict)
        for (iid, var, ep), o in res.items():
            A[cell_of_id(iid)][(var, ep)] = o
        self.stats["aux_results"] += len(res)
        prefill_tag = lambda n: bytes((0x3C ^ (i & 255)) for i in range(n)).hex()
        twin = {C_GCM_SGL: (5, 9), C_CHACHA_SGL: (19, 29)}
        hash_rows = {}          # (h, buffer hex) -> expected tag, from the library's hash-only rows of round 1
        for c in auxcells:
            mode, klen, d, h, order = c
            it = items[c]
            fl = acc.get(c, 0)
            for var in variants:
                for ep in (0, 2):
                    o = A.get(c, {}).get((var, ep))
                    self.stats["evaluations"] += 1
                    if o is None:
                        self.note(c, var, ep, "missing", detail="no result line from c06_aux")
                        continue
                    if "crash" in o:
                        self.note(c, var, ep, "crash", sig=o["crash"])
                        continue
                    exp = 3 if ((fl & 2) and (ep == 0 or (fl & 1))) else 4
                    self.per_variant[var]["ep%d_%s" % (ep, {3: "accepted", 4: "rejected"}.get(o["status"], "status%d" % o["status"]))] += 1
                    if o["status"] != exp:
                        self.note(c, var, ep, "status", expected=exp, got=o["status"], errno=o["errno"])
                        continue
                    if exp == 4:
                        self.stats["rejected_checked"] += 1
                        if o["dst"] != it["msg"].hex() or o["tag"] != prefill_tag(it["tag"]) or (o.get("calls") or "-") != "-":
                            self.note(c, var, ep, "rejected-but-written", dst=o["dst"][:64], tag=o["tag"][:64], calls=o.get("calls"))
                        continue
                    self.stats["accepted_checked"] += 1
                    # expected result
                    exp_dst = exp_tag = exp_calls = None
                    if mode in twin and h == PAIRS[mode]:
                        t = R.get((twin[mode][0], klen, d, twin[mode][1], order), {}).get((var, ep))
                        if t and t.get("status") == 3:
                            exp_dst, exp_tag, exp_calls = t["dst"], t["tag"], "-"
                    elif mode == C_CUSTOM or h == H_CUSTOM:
                        if mode in PAIRS or h in PAIRED_HASHES:
                            pass
                        else:
                            msg = it["msg"]
                            # buffer after the cipher stage
                            if mode == C_CUSTOM:
                                after = custom_cipher_py(msg, it["coff"], it["clen"])
                            elif mode == C_NULL:
                                after = msg
                            else:
                                crow = R.get((mode, klen, d, H_NULL, order), {}).get((var, ep))
                                after = bytes.fromhex(crow["dst"]) if crow and crow.get("status") == 3 else None
                            hbuf = after if order == 1 else msg
                            if after is not None:
                                exp_dst = after.hex()
                                if h == H_CUSTOM:
                                    exp_tag = custom_hash_py(hbuf, it["hoff"], it["hlen"], it["tag"]).hex()
                                elif h == H_NULL:
                                    exp_tag = prefill_tag(it["tag"])
                                else:
                                    exp_tag = ("hash-only", hbuf)
                                exp_calls = "".join(x for x in (("CH" if order == 1 else "HC")) if (x == "C" and mode == C_CUSTOM) or (x == "H" and h == H_CUSTOM)) or "-"
                    if exp_dst is None:
                        self.stats["aux_no_oracle"] += 1
                        continue
                    if isinstance(exp_tag, tuple):
                        k = (h, exp_tag[1])
                        if k not in hash_rows:
                            hash_rows[k] = None
                        self.stats["aux_deferred"] += 1
                        env.setdefault("_aux_deferred", []).append((self, c, var, ep, o, exp_dst, k, exp_calls))
                        continue
                    self.stats["aux_compared"] += 1
                    if (o["dst"], o["tag"], o.get("calls") or "-") != (exp_dst, exp_tag, exp_calls):
                        self.note(c, var, ep, "aux-result", lib=dict(dst=o["dst"][:96], tag=o["tag"][:64], calls=o.get("calls")),
                                  expected=dict(dst=exp_dst[:96], tag=exp_tag[:64], calls=exp_calls))
        # custom cipher + real hash: the expected tag is the library's own hash-only job over the buffer
        if hash_rows:
            from . import k1
            its, ids = [], {}
            for n, (h, buf) in enumerate(hash_rows):
                it = cell_item(self.M, 20_000_000 + n, C_NULL, 16, 1, h, 1)
                it.update(msg=buf, inplace=1)
                its.append(it)
                ids[(h, buf)] = it["id"]
            r3, hung3, _ = run_k1_sharded(env["k1"], env["work"], "r3_s%d" % self.seed, [k1.item_line(it) for it in its], eps="0")
            for (ps, c, var, ep, o, exp_dst, k, exp_calls) in env.pop("_aux_deferred", []):
                hrow = r3.get((ids[k], var, 0))
                if not hrow or hrow.get("status") != 3:
                    self.note(c, var, ep, "composition-parts-missing", hash_only=(hrow or {}).get("status"))
                    continue
                self.stats["aux_compared"] += 1
                if (o["dst"], o["tag"], o.get("calls") or "-") != (exp_dst, hrow["tag"], exp_calls):
                    self.note(c, var, ep, "aux-result", lib=dict(dst=o["dst"][:96], tag=o["tag"][:64], calls=o.get("calls")),
                              expected=dict(dst=exp_dst[:96], tag=hrow["tag"][:64], calls=exp_calls))


# ------------------------------------------------------------------------------------------------
# imb_set_session(): suite ids
# ------------------------------------------------------------------------------------------------
SUITE_KLENS = (0, 1, 8, 9, 15, 16, 17, 24, 25, 32, 33, 64)


def suite_sweep(env, dis, stats):
    C, acc, idx = env["C"], env["acc"], env["idx"]
    lines = []
    for m in range(0, C["IMB_CIPHER_NUM"]):
        for k in SUITE_KLENS:
            for d in (1, 2):
                for h in range(1, C["IMB_AUTH_NUM"]):
                    lines.append("%d %d %d %d" % (m, k, d, h))
    txt = run_aux(env["aux"], "suite", env["work"], "suite", lines, nshard=1)
    ids = collections.defaultdict(dict)     # var -> (m, kclass, dbit, h) -> set of id pairs
    n = 0
    for l in txt.splitlines():
        if not l.startswith("S "):
            continue
        kv = dict(x.split("=", 1) for x in l.split()[1:])
        var, m, k, d, h = kv["var"], int(kv["mode"]), int(kv["klen"]), int(kv["dir"]), int(kv["hash"])
        ret, id0, id1 = int(kv["ret"]), int(kv["id0"]), int(kv["id1"])
        n += 1
        cell = (m, k, d, h, 0)
        if k in KLENS and m >= 1:
            # acceptance == light check of the generated validation (any chain order: the light check ignores it)
            light = bool(acc.get((m, k, d, h, 1), 0) & 1)
            if light != bool(ret):
                dis.append(dict(cell=list(cell), var=var, ep=-1, kind="session-accept", expected=int(light), got=ret, errno=int(kv["errno"])))
                continue
        if not ret:
            if (id0, id1) != (0xdeadbeef, 0xdeadbeef):
                dis.append(dict(cell=list(cell), var=var, ep=-1, kind="session-rejected-but-written", id0=id0, id1=id1))
            continue
        exp0 = idx[(m, k)][0 if d == 1 else 1]
        if (id0, id1) != (exp0, h):
            dis.append(dict(cell=list(cell), var=var, ep=-1, kind="suite-id", expected=[exp0, h], got=[id0, id1]))
        kc = ((k - 1) >> 3) & 3 if k else 3
        ids[var].setdefault((m, kc, d & 1, h), set()).add((id0, id1))
    for var, dd in ids.items():
        inv = {}
        for key, s in dd.items():
            if len(s) != 1:
                dis.append(dict(cell=[key[0], 0, key[2], key[3], 0], var=var, ep=-1, kind="suite-id-congruence", ids=sorted(s)))
            for p in s:
                if p in inv and inv[p] != key:
                    dis.append(dict(cell=[key[0], 0, key[2], key[3], 0], var=var, ep=-1, kind="suite-id-collision", other=list(inv[p])))
                inv[p] = key
    stats["session_calls"] += n
    if n != len(lines) * max(1, len(env.get("variants", []))):
        dis.append(dict(cell=[0, 0, 0, 0, 0], var="-", ep=-1, kind="missing", detail="suite sweep returned %d lines, expected %d" % (n, len(lines) * len(env.get("variants", [])))))


# ------------------------------------------------------------------------------------------------
# main
# ------------------------------------------------------------------------------------------------
def bit_geometry_pass(env, acc, seed, budget_s=150):
    """every accepted cell with a bit-length cipher or hash, with lengths (and bit offsets) that are NOT whole bytes:
    the wrappers of these modes switch to other code for such jobs (e.g. the single-buffer C path of SNOW3G-UEA2).
    Results are compared with the extracted job model and between variants / entry points; acknowledged findings of
    C01-C03 are set aside."""
    from . import k1
    t0 = time.time()
    M = Material(seed + 91)
    cells = sorted(c for c, fl in acc.items() if (fl & 2) and (c[0] in BIT_CIPHERS or c[3] in BIT_HASHES)
                   and c[0] not in AUX_CIPHERS and c[3] not in AUX_HASHES)
    items = []
    for k, c in enumerate(cells):
        it = cell_item(M, k + 1, *c)
        mode, h = c[0], c[3]
        if mode in BIT_CIPHERS and it["clen"] > 16:
            it["clen"] -= 3
            if mode in (15, 16):
                it["coff"] += 5
        if h in BIT_HASHES and it["hlen"] > 16 and not (mode in PAIRS and PAIRS[mode] == h):
            it["hlen"] -= 5
        it["_stream"], it["_valid"], it["_iv"] = "c06-bits", True, "rnd"
        items.append(it)
    eng = k1.Engine(PID, "quick", seed, env["mtools"])
    known = k1.parse_known("C01") + k1.parse_known("C02") + k1.parse_known("C03")
    out, n = [], 0
    for lo in range(0, len(items), 250):
        if time.time() - t0 > budget_s:
            break
        chunk = items[lo:lo + 250]
        try:
            model, pr, dis = eng.eval_items(chunk, 1, None, None)
        except Exception as ex:
            log("bit-geometry pass: chunk failed: %r" % (ex,))
            continue
        n += len(chunk)
        byid = {it["id"]: it for it in chunk}
        for d in dis:
            if any(k1.known_match(cons, d["attrs"]) for cons, _ in known):
                continue
            it = byid[d["id"]]
            out.append(dict(work_item=k1.item_line(it), attrs=dict(d["attrs"]), paths=[list(p) for p in d["paths"]][:12],
                            outcome=d.get("outcome"), model=model.get(d["id"])))
    return out, n, len(cells)


def targeted_search(env, acc, diag, seed, budget_s=240):
    """failing-input search when a table/wrapper obligation breaks: the wrappers named by the diagnosis may differ
    from the named algorithm only on part of their input space (a fallback branch inside the wrapper).  Every cell of
    the diagnosed (cipher mode, key length, direction) rows is run with many geometries (cipher / hash lengths 0, 1,
    around the block and CRC thresholds, shifted offsets, in and out of place, both chain orders) on all variants and
    entry points; a result that differs from the extracted job model or between variants, and that is not an
    acknowledged finding of C01-C03, is the failing input."""
    from . import k1
    rows = sorted({(int(a), int(b), int(c)) for a, b, c in re.findall(r'"%string,\s*\((\d+),\s*(\d+),\s*(\d+)\)', diag or "")})
    hrows = sorted({int(h) for h in re.findall(r'\("[a-z0-9_]+"%string,\s*(\d+),\s*\("', diag or "")})
    if not rows and not hrows:
        return None, 0
    t0 = time.time()
    M = Material(seed + 77)
    rng = Rng(seed + 78)
    cells = [c for c, fl in acc.items() if (fl & 2) and ((c[0], c[1], c[2]) in rows or c[3] in hrows)
             and c[0] not in AUX_CIPHERS and c[3] not in AUX_HASHES]
    # diagnosed rows first with their paired / NULL hashes, then the rest, bounded
    cells.sort(key=lambda c: (0 if (c[0], c[1], c[2]) in rows else 1, 0 if (c[3] == H_NULL or PAIRS.get(c[0]) == c[3]) else 1, c))
    cells = cells[:160]
    items, iid = [], 1
    lens = [0, 1, 4, 5, 8, 13, 14, 15, 16, 17, 31, 32, 33, 43, 48, 52, 60, 61, 64]
    for c in cells:
        base = cell_item(M, 0, *c)
        bitc, bith = base["cipher"] in (13, 15, 16), base["hash"] in BIT_HASHES
        for k in range(10):
            it = dict(base)
            it["id"] = iid
            iid += 1
            if k:
                bcl, bhl = base["clen"] // (8 if bitc else 1), base["hlen"] // (8 if bith else 1)
                # systematic part: one stage switched off or at its thresholds while the other keeps its length
                cl, hl = [(bcl, 0), (0, bhl), (bcl, 1), (bcl, 13), (bcl, 14), (1, bhl), (16, bhl),
                          (rng.choice(lens), rng.choice(lens)), (rng.choice(lens), bhl)][k - 1]
                it["clen"] = cl * (8 if bitc else 1)
                it["hlen"] = hl * (8 if bith else 1)
                if base["cipher"] == C_NULL:
                    it["clen"] = 0
                if base["hash"] == H_NULL:
                    it["hlen"] = 0
                if PAIRS.get(base["cipher"]) == base["hash"] and base["cipher"] != 4 and base["cipher"] != 11:
                    it["hoff"], it["hlen"] = it["coff"], it["clen"]
                it["inplace"] = k & 1
            it["_stream"], it["_valid"], it["_iv"] = "c06-search", True, "rnd"
            items.append(it)
    eng = k1.Engine(PID, "quick", seed, env["mtools"])
    known = k1.parse_known("C01") + k1.parse_known("C02") + k1.parse_known("C03")
    found, n = None, 0
    for lo in range(0, len(items), 200):
        if time.time() - t0 > budget_s:
            break
        chunk = items[lo:lo + 200]
        try:
            model, pr, dis = eng.eval_items(chunk, 1, None, None)
        except Exception as ex:
            log("targeted search: chunk failed: %r" % (ex,))
            continue
        n += len(chunk)
        byid = {it["id"]: it for it in chunk}
        for d in dis:
            if any(k1.known_match(cons, d["attrs"]) for cons, _ in known):
                continue
            # perturbed geometries may be outside what the job model defines (class a = every path agrees with every
            # other one): only a difference BETWEEN variants / entry points counts as a failing input here
            if d["attrs"]["class"] == "a" or str(d["attrs"]["field"]).startswith("status"):
                continue
            it = byid[d["id"]]
            found = dict(work_item=k1.item_line(it), attrs={k: v for k, v in d["attrs"].items()}, paths=[list(p) for p in d["paths"]][:12],
                         outcome=d.get("outcome"), model=model.get(d["id"]))
            return found, n
    return found, n



def consts():
    sys.path.insert(0, os.path.join(common.VERIF, "translators"))
    import t0_consts
    return t0_consts.main()


def run_translators():
    """T1 (enums), T2 (validation), T1b (tables + acknowledged findings): regenerate from the current tree"""
    errs = []
    for t in ("t1_enums.py", "t2_validate.py", "t1b_tables.py"):
        p = common.run([sys.executable, os.path.join(common.VERIF, "translators", t)], timeout=900)
        if p.returncode != 0:
            errs.append("%s: %s" % (t, (p.stderr or p.stdout)[-1500:]))
    return errs


class MTools:
    pass


def setup(res=None):
    from . import k1
    env = {}
    env["lib_build_s"] = common.build_lib()
    env["translator_errors"] = run_translators()
    env["C"] = consts()
    env["k1"] = common.build_harness("k1_algo", extra_src=["imbh.c"])
    env["aux"] = common.build_harness("c06_aux", extra_src=["imbh.c"])
    env["work"] = os.path.join(common.BUILD, "c06")
    os.makedirs(env["work"], exist_ok=True)
    env["init_failure"] = None
    try:
        p = common.run([env["k1"], "--list-variants"], env=common.lib_env(), timeout=120)
        env["variant_names"] = [l.split()[0][8:] for l in p.stdout.splitlines() if l.startswith("variant=")]
        if not env["variant_names"]:
            env["init_failure"] = "no manager can be created (rc=%d): %s" % (p.returncode, (p.stderr or "")[-400:].replace("\n", " | "))
    except Exception as ex:
        env["variant_names"] = []
        env["init_failure"] = "creating the managers does not finish within 120 s (init_mb_mgr_* hangs in the power-up self test): %s" % type(ex).__name__
    mt = MTools()
    mt.drv = k1.build_model_driver()
    mt.work = env["work"]
    mt.k1 = env["k1"]
    mt.variants = env["variant_names"]
    mt.variant_table = []
    mt.lib_build_s = env["lib_build_s"]
    env["mtools"] = mt
    return env


CELL_NAMES = None


def cell_name(cell):
    from . import k1
    mode, klen, d, h, order = cell
    return "%s/%d/%s+%s/%s" % (k1.CIPHER_NAMES.get(mode, {6: "CUSTOM", 20: "CHACHA20_POLY1305_SGL", 23: "GCM_SGL"}.get(mode, "c%d" % mode)), klen,
                               {1: "enc", 2: "dec"}.get(d, "d%d" % d),
                               k1.HASH_NAMES.get(h, {10: "CUSTOM", 30: "CHACHA20_POLY1305_SGL", 33: "GCM_SGL"}.get(h, "h%d" % h)),
                               {1: "cipher-hash", 2: "hash-cipher"}.get(order, "o%d" % order))


def group_key(d):
    c = d["cell"]
    return (d["kind"], c[0], c[1] if d["kind"] in ("status", "model", "null-cipher-ran", "composition", "alias", "job-vs-burst") else 0,
            c[3] if (c[0] in (19, 20) or d["kind"] in ("crash",)) and c[3] not in (29, 30) else 0)


def main(tier, seed):
    res = Result(PID, tier, seed, "proof")
    t_start = time.time()
    try:
        env = setup()
    except Exception as ex:
        res.violation(dict(property=PID, error=str(ex)[-3000:], note="build of library / harness / model failed"),
                      note="build-failed no-failing-input-found", name="build")
        return res.finish()
    pres = common.props_check(PID, extra_targets=["Props/Examples_C06.vo"])
    if env["translator_errors"]:
        pres["failed"] = list(pres["failed"]) + ["translator: " + e for e in env["translator_errors"]]
    common.proof_coverage(res, pres, "make -k Props/Properties_C06.vo Props/Examples_C06.vo (coqc 8.16.1, full .vo) + Print Assumptions",
                          ["Coq 8.16.1 kernel (vm_compute for the finite-domain theorems)",
                           "translators t1_enums.py, t2_validate.py (validation image), t1b_tables.py (tables + wrapper call sets from "
                           "nm/readelf/objdump of the rebuilt objects; must-analysis of which register holds `state`)",
                           "naming relation names_alg/names_hash of Mgr/Dispatch.v: hand-written image of the library's symbol naming "
                           "convention -- backed by the exhaustive dynamic correspondence below",
                           "stage machine of Mgr/Dispatch.v: hand model of submit_new_job/RESUBMIT_JOB/complete_job (shape of the dispatch "
                           "sites checked textually by t1b_tables.py)",
                           "harness/k1_algo.c, imbh.c, c06_aux.c, extracted model coq/Struct/JobSem.v + ocaml/k1_driver.ml, this driver"])
    known = load_known()
    try:
        ncells, acc, idx = coq_accepted(env["work"])
    except Exception as ex:
        res.violation(dict(property=PID, error=str(ex)[-3000:], note="Mgr/Dispatch.v or the generated validation no longer builds"),
                      note="no-failing-input-found", name="coq_accepted")
        return res.finish()
    env["acc"], env["idx"] = acc, idx
    C = env["C"]
    domain = list(all_cells(C))
    # the batched passes put consecutive cells (same cipher and hash, both chain orders, then the next hash) into one
    # manager at the same time: jobs of different suites are in flight together and come back through the
    # resubmit path of another suite's submit call
    passes = [Pass(env, seed, True), Pass(env, seed + 1, True, batch=16, mix="hash")]
    if tier != "quick":
        passes += [Pass(env, seed, False), Pass(env, seed + 2, False, batch=7, mix="cipher"), Pass(env, seed + 3, True, batch=40, mix="hash"),
                   Pass(env, seed + 4, True, batch=16)]
    dis, stats = [], collections.Counter()
    if env["init_failure"]:
        # nothing can be run: every init_mb_mgr_* goes through the power-up self test, i.e. through the tables under test
        dis.append(dict(cell=[0, 0, 0, 0, 0], var="-", ep=-1, kind="no-usable-manager", detail=env["init_failure"],
                        replay_cmd="LD_LIBRARY_PATH=<build>/lib/lib <build>/bin/k1_algo --list-variants"))
        passes = []
    for p in passes:
        p.run()
        dis += p.dis
        stats.update(p.stats)
    if not env["init_failure"]:
        suite_sweep(env, dis, stats)
    bitfind, nbit, nbitcells = [], 0, 0
    if not env["init_failure"]:
        try:
            bitfind, nbit, nbitcells = bit_geometry_pass(env, acc, seed)
        except Exception as ex:
            log("bit-geometry pass failed: %r" % (ex,))
        stats["bit_geometry_items"] = nbit
    json.dump(dis, open(os.path.join(env["work"], "disagreements.json"), "w"))
    # ---- triage: acknowledged findings are set aside by cell
    unexplained, hits = [], collections.Counter()
    for d in dis:
        c = d["cell"]
        e = known_match(known, c[0], c[1], c[2], c[3]) if c[0] else None
        if e is not None:
            hits[e["line"]] += 1
        else:
            unexplained.append(d)
    for line, n in hits.items():
        txt = line.split(" ", 2)[2] if line.count(" ") >= 2 else line
        res.known.append("key=%s %s [%d disagreeing results]" % (re.search(r"key=(\S+)", line).group(1), txt, n))
    # acknowledged findings that no longer show: tell the lead (not a failure)
    for e in known:
        if hits[e["line"]] == 0:
            log("note: known finding no longer reproduces: " + e["line"][:160])
    # ---- evidence
    nacc_full = sum(1 for c in domain if acc.get(c, 0) & 2)
    nacc_light = sum(1 for c in domain if acc.get(c, 0) & 1)
    per_variant = {}
    kinds = collections.Counter(d["kind"] for d in dis)
    res.coverage.update({
        "exhaustive": True,
        "domain": "cipher_mode(%d) x key length {8,16,24,32} x direction(2) x hash_alg(%d) x chain order(2)" % (C["IMB_CIPHER_NUM"] - 1, C["IMB_AUTH_NUM"] - 1),
        "cells": len(domain), "cells_in_coq_domain": ncells,
        "accepted_by_full_check": nacc_full, "accepted_by_light_check": nacc_light,
        "rejected_cells": len(domain) - sum(1 for c in domain if acc.get(c, 0) & 3),
        "variants": env.get("variants", []), "variant_table": env.get("variant_table", []), "entry_points": [0, 2],
        "accepted_rejected_per_variant": {v: dict(passes[0].per_variant[v]) for v in env.get("variants", [])} if passes else {},
        "evaluations": stats["evaluations"], "distinct_nontrivial": nacc_full,
        "rule": "one evaluation = one (cell, variant, entry point, pass) result checked against validation, model, composition of the "
                "library's own cipher-only and hash-only jobs, job-vs-burst; distinct non-trivial = cells the full check accepts "
                "(each executes at least one real kernel or the documented NULL/NULL pass-through)",
        "passes": [dict(seed=p.seed, inplace=p.inplace, batch=p.batch, mix=p.mix) for p in passes],
        "counters": dict(stats), "disagreement_kinds": dict(kinds),
        "known_finding_hits": {re.search(r"key=(\S+)", k).group(1): v for k, v in hits.items()},
        "samples": [item_line(Pass(env, seed, True).item(c))[:260] for c in ((1, 24, 2, 4, 2), (14, 32, 1, 22, 1), (5, 16, 1, 9, 1))],
        "hash_histogram": dict(collections.Counter(c[3] for c in domain if acc.get(c, 0) & 2)),
        "cipher_histogram": dict(collections.Counter(c[0] for c in domain if acc.get(c, 0) & 2)),
        "traces_validated_against_impl": stats["accepted_checked"] + stats["rejected_checked"],
        "lib_build_s": round(env["lib_build_s"], 1), "wall_s": round(time.time() - t_start, 1),
    })
    res.assumptions = ["names_alg/names_hash encode the symbol naming convention by hand (Mgr/Dispatch.v section 6)",
                       "the combined AEAD kernels set both status bits from the cipher entry (combined_cipher): not visible in the wrappers",
                       "kernel correctness itself is C01-C03; here only WHICH kernel runs"]
    # ---- violations: one replay per cluster of unexplained disagreements.  A cluster is a cipher mode whose
    # disagreements spread over several hash algorithms (a cipher-side defect) or else a hash algorithm.
    by_mode, by_hash = collections.defaultdict(set), collections.defaultdict(set)
    for d in unexplained:
        by_mode[d["cell"][0]].add(d["cell"][3]); by_hash[d["cell"][3]].add(d["cell"][0])
    clusters = {}
    for d in unexplained:
        m, h = d["cell"][0], d["cell"][3]
        if m == 0:
            key = ("harness", d["kind"])
        elif d["ep"] == -1:
            key = ("session", m)
        elif len(by_mode[m]) >= len(by_hash[h]) or m in (C_CUSTOM,):
            key = ("cipher", m)
        else:
            key = ("hash", h)
        clusters.setdefault(key, []).append(d)
    prio = ["null-cipher-ran", "model", "composition", "unpaired-aead-accepted", "aux-result", "alias", "status", "job-vs-burst", "rejected-but-written",
            "order-dependent-aead", "canary", "crash", "hang"]
    pr = lambda d: (prio.index(d["kind"]) if d["kind"] in prio else 50, 0 if d["cell"][3] == H_NULL else 1, d["cell"], d["var"], d["ep"])
    cl = sorted(clusters.items(), key=lambda kv: (-len(kv[1]), kv[0]))
    for key, ds in cl[:12]:
        d = min(ds, key=pr)
        cell = tuple(d["cell"])
        rp = dict(property=PID, what=d["kind"], cluster="%s %s" % key,
                  cell=dict(cipher_mode=cell[0], key_len=cell[1], direction=cell[2], hash_alg=cell[3], chain_order=cell[4]),
                  cell_name=cell_name(cell) if cell[0] else "-",
                  kinds=dict(collections.Counter(x["kind"] for x in ds)),
                  key_lengths=sorted({x["cell"][1] for x in ds}), directions=sorted({x["cell"][2] for x in ds}),
                  hashes=sorted({x["cell"][3] for x in ds})[:60], ciphers=sorted({x["cell"][0] for x in ds}),
                  variants=sorted({x["var"] for x in ds}), entry_points=sorted({x["ep"] for x in ds}),
                  results_in_cluster=len(ds), detail={k: v for k, v in d.items() if k not in ("cell",)}, seed=d.get("seed", seed),
                  inplace=d.get("inplace", True))
        if cell[0] and d["ep"] != -1:
            ps = [p for p in passes if p.seed == d.get("seed") and p.inplace == d.get("inplace")] or passes
            it = ps[0].item(cell)
            is_aux = cell[0] in AUX_CIPHERS or cell[3] in AUX_HASHES
            rp["work_item"] = aux_line(it) if is_aux else item_line(it)
            rp["harness"] = "c06_aux cells" if is_aux else "k1_algo"
            fl = acc.get(cell, 0)
            rp["validation"] = dict(light=bool(fl & 1), full=bool(fl & 2))
        res.violation(rp, note="%s: %s on %s (%d results; kinds %s)" % ("%s %s" % key, d["kind"], rp["cell_name"], len(ds),
                                                                        ",".join(sorted(rp["kinds"]))),
                      name="%s_%s" % key)
    bycell = {}
    for f in bitfind:
        a = f["attrs"]
        bycell.setdefault((a["cipher"], a["hash"], a["class"], a["field"]), f)
    for (cm, hh, cls, fld), f in list(bycell.items())[:8]:
        a = f["attrs"]
        cell = (a["cipher"], a["klen"], a["dir"], a["hash"], a["order"])
        res.violation(dict(property=PID, what="bit-geometry", cell=dict(cipher_mode=cell[0], key_len=cell[1], direction=cell[2], hash_alg=cell[3],
                                                                      chain_order=cell[4]), cell_name=cell_name(cell),
                           work_item=f["work_item"], harness="k1_algo", attrs=a, paths=f["paths"], library_outcome=f["outcome"],
                           model_outcome=f["model"], kinds={"model": 1}, validation=dict(light=True, full=True),
                           note="job with a bit length / bit offset that is not a whole number of bytes"),
                      note="%s: class %s on %s field %s (bit-geometry pass)" % (cell_name(cell), cls, a["vars"], fld),
                      name="bits_%d_%d_%s" % (cm, hh, re.sub(r"[^A-Za-z0-9]+", "_", str(fld))))
        clusters[("bits", "%d/%d" % (cm, hh))] = [f]
    groups = clusters
    if len(cl) > 12:
        log("note: %d more clusters of disagreements not written as replays" % (len(cl) - 12))
    broken = pres["discharged"] != pres["obligations"] or pres["failed"] or pres["obligations"] == 0
    diag = None
    if broken:
        diag = coq_diagnose(env["work"], acc)
        res.coverage["broken_obligations_diagnosis"] = diag[-3000:]
        log("diagnosis of the broken obligations (entries that are not the named algorithm):\n" + diag[-2500:])
    found = None
    if broken and not groups:
        try:
            found, nsearch = targeted_search(env, acc, diag, seed)
            res.coverage["targeted_search_items"] = nsearch
        except Exception as ex:
            log("targeted search failed: %r" % (ex,))
    if broken and not groups and found:
        a = found["attrs"]
        cell = (a["cipher"], a["klen"], a["dir"], a["hash"], a["order"])
        res.violation(dict(property=PID, what="targeted-search", found_by="geometry search over the cells named by the diagnosis of the broken obligations",
                           cell=dict(cipher_mode=cell[0], key_len=cell[1], direction=cell[2], hash_alg=cell[3], chain_order=cell[4]),
                           cell_name=cell_name(cell), work_item=found["work_item"], harness="k1_algo", attrs=a, paths=found["paths"],
                           library_outcome=found["outcome"], model_outcome=found["model"], broken_obligations=pres["failed"], diagnosis=diag,
                           kinds={"model": 1}, validation=dict(light=True, full=True)),
                      note="%s: class %s on %s field %s (found by the targeted search)" % (cell_name(cell), a["class"], a["vars"], a["field"]),
                      name="search_%d_%d" % (cell[0], cell[3]))
    elif broken and not groups:
        res.violation(dict(property=PID, broken_obligations=pres["failed"], log=pres["log"][-3000:], diagnosis=diag,
                           note="theorems of Props/Properties_C06.v no longer check; the exhaustive sweep found no cell on which the "
                                "library dispatches to anything but the named cipher and hash"),
                      note="no-failing-input-found", name="unproved")
    elif broken:
        log("proof obligations broken (%s); failing inputs reported above" % (pres["failed"][:3],))
        res.coverage["broken_obligations"] = pres["failed"][:10]
    return res.finish()


def replay(path):
    rp = json.load(open(path))
    env = setup()
    work = env["work"]
    if "work_item" not in rp:
        print("replay: this violation has no single work item (%s)" % rp.get("what"))
        return 1
    p = os.path.join(work, "replay.txt")
    open(p, "w").write(rp["work_item"] + "\n")
    if rp.get("harness") == "k1_algo":
        out, err, hung = run_k1(env["k1"], p)
    else:
        out = common.run([env["aux"], "cells", p], env=common.lib_env(), timeout=600).stdout
    r = parse_result_lines(out, {})
    from . import k1
    it = k1.item_from_line(re.sub(r" x(cipher|hash)=\d+", "", rp["work_item"]))
    it["_valid"] = True
    model = k1.run_model(env["mtools"], [it], tag="replay") if rp.get("harness") == "k1_algo" else {}
    m = model.get(it["id"])
    bad = 0
    v = rp.get("validation", {})
    for key, o in sorted(r.items()):
        exp = 3 if (v.get("full") and (key[2] == 0 or v.get("light"))) else 4
        line = "%s ep=%d: %s" % (key[1], key[2], {k: (x[:64] if isinstance(x, str) else x) for k, x in o.items()})
        wrong = "crash" in o or o.get("status") != exp
        if not wrong and m is not None and o.get("status") == 3:
            wrong = bool(k1.compare_outcome(o, m, it))
        if not wrong and o.get("status") == 3 and rp["what"] == "null-cipher-ran":
            wrong = o["dst"] == it["msg"].hex()
        if not wrong and o.get("status") == 3:
            kinds = rp.get("kinds", {})
            if o.get("canary") not in (None, "ok"):
                wrong = True
            if "unpaired-aead-accepted" in kinds:
                wrong = True          # the cell must not be accepted at all
            exp = rp.get("detail", {}).get("expected")
            if isinstance(exp, dict) and "dst" in exp:
                wrong = wrong or not o["dst"].startswith(exp["dst"]) or not o["tag"].startswith(exp.get("tag", "")) or \
                    (o.get("calls") or "-") != (exp.get("calls") or "-")
        print(("FAIL " if wrong else "ok   ") + line)
        bad += wrong
    if m is not None:
        print("model: dst=%s tag=%s" % (m["dst"][:96], m["tag"][:64]))
    return 1 if bad else 0
