"""C20 — the power-up self-test gates initialisation.

Proof : coq/Props/Properties_C20.v.  Finite part (vm_compute over the COMPLETE regenerated tables):
        every self-test vector passes under the Spec/ functions and detects the corruption the
        callback can cause.  Structural part (all callbacks, induction over vectors / loops /
        groups): pass bit set and errno 0 iff no vector was corrupted, FAIL for exactly the
        corrupted vectors, PASS for the others, in table order, each announced with START.
Tie   : T4 (translators/t4_selftest.py, two extraction routes) + K20: harness/k20_selftest.c runs
        every init function x flags with a callback corrupting a chosen set; the extracted model
        (ocaml/selftest_driver.ml) predicts the event stream, feature word and errno; compared
        event by event.  Singles are enumerated exhaustively, pairs within a group exhaustively
        (thorough) or sampled (quick), plus random subsets, re-initialisation sequences and
        adversarial return values outside the CORRUPT phase.
Search: the property's own oracle (no model involved) evaluated on every library trace:
        FAIL <=> the callback answered 0 to that vector's CORRUPT, pass bit <=> no such vector,
        errno 0 / IMB_ERR_SELFTEST accordingly, SELF_TEST bit set, stream well-formed and
        announcing the table in order."""
import os, sys, json, re, time, itertools, concurrent.futures as cf
from . import common
from .common import Rng, Result, log

PID = "C20"
INITS = ["sse", "avx2", "avx512", "auto"]
FLAGS = [0, 1, 2, 3]
COMBOS = [(i, f) for i in INITS for f in FLAGS]
FALLBACK_CONSTS = {"st": 1 << 19, "pass": 1 << 20, "err": 2051}


# ----------------------------------------------------------------------------- building
def run_translator():
    sys.path.insert(0, os.path.join(common.VERIF, "translators"))
    import importlib
    import t4_selftest
    importlib.reload(t4_selftest)
    try:
        return t4_selftest.main(), None
    except Exception as ex:   # T4Error or anything unexpected: a broken obligation, never a crash of the check
        return None, "%s: %s" % (type(ex).__name__, ex)


def props_with_retry():
    """other checks may run make in coq/ at the same time (shared .vo files of Spec/): a build failure is
    retried once; a genuine failure fails again"""
    pres = common.props_check(PID, extra_targets=["Props/Examples_C20.vo"])
    if any(f.startswith("build of") or f.startswith("expected") for f in pres["failed"]):
        log("C20: proof build failed, retrying once:", pres["log"][-600:])
        time.sleep(3)
        pres = common.props_check(PID, extra_targets=["Props/Examples_C20.vo"])
    return pres


def build_model_driver():
    """extract Mgr/SelfTest.v and build the OCaml predictor; returns exe or raises"""
    ok, out = common.coq_make(["Mgr/SelfTest.vo"])
    if not ok:
        raise RuntimeError("coq build of Mgr/SelfTest.vo failed:\n" + out[-2000:])
    od = os.path.join(common.BUILD, "ocaml")
    os.makedirs(od, exist_ok=True)
    os.makedirs(os.path.join(common.BUILD, "bin"), exist_ok=True)
    exe = os.path.join(common.BUILD, "bin", "selftest_driver")
    src = os.path.join(common.VERIF, "ocaml", "selftest_driver.ml")
    vo = os.path.join(common.COQDIR, "Mgr", "SelfTest.vo")
    ex = os.path.join(common.COQDIR, "Extract", "ExtractSelfTest.v")
    ml = os.path.join(od, "selftest_model.ml")
    if (not os.path.exists(ml)) or os.path.getmtime(ml) < max(os.path.getmtime(vo), os.path.getmtime(ex)):
        common.run(["timeout", "600", "coqc", "-Q", common.COQDIR, "IMB", ex], cwd=od, check=True, timeout=660)
    if (not os.path.exists(exe)) or os.path.getmtime(exe) < max(os.path.getmtime(ml), os.path.getmtime(src)):
        common.run("cp %s %s/ && cd %s && ocamlfind ocamlopt -w -a selftest_model.mli selftest_model.ml "
                   "selftest_driver.ml -o %s" % (src, od, od, exe), check=True, timeout=600)
    return exe


# ----------------------------------------------------------------------------- running the library
def case_line(c, order):
    sets = []
    for k, s in enumerate(c["sets"]):
        pre = (c.get("prefix") or [""] * len(c["sets"]))[k]
        if pre:
            body = "-" if not s else (",".join("%s:%s" % order[i] if i < len(order) else str(i) for i in s) if (c.get("by_name") and order)
                                      else ",".join(str(i) for i in s))
            sets.append(pre + body)
            continue
        if not s:
            sets.append("-")
        elif c.get("by_name") and order:
            sets.append(",".join("%s:%s" % order[i] if i < len(order) else str(i) for i in s))
        else:
            sets.append(",".join(str(i) for i in s))
    return "%s %d %s %s" % (c["init"], c["flags"], c["cbm"], ";".join(sets))


def parse_harness(text, ncases):
    """-> list (len ncases) of dict(complete, phases=[dict(pre, events, res)]) ; missing = None"""
    out = [None] * ncases
    cur = None
    for l in text.splitlines():
        w = l.split()
        if not w:
            continue
        if w[0] == "CASE":
            cur = {"n": int(w[1]), "complete": False, "phases": [], "notes": []}
            if 1 <= cur["n"] <= ncases:
                out[cur["n"] - 1] = cur
        elif cur is None:
            continue
        elif w[0] == "PRE":
            kv = dict(t.split("=", 1) for t in w[2:])
            cur["phases"].append({"pre_features": int(kv["features"], 16), "pre_errno": int(kv["errno"]),
                                  "events": [], "res": None})
        elif w[0] == "EV" and cur["phases"]:
            # EV <phase> <ph> <type> <descr> ret=<r>   (descr contains no blanks in this library; be tolerant)
            ret = int(w[-1].split("=")[1])
            cur["phases"][-1]["events"].append((w[2], w[3] if len(w) > 4 else "-", " ".join(w[4:-1]) or "-", ret))
        elif w[0] == "RES" and cur["phases"]:
            kv = dict(t.split("=", 1) for t in w[2:])
            cur["phases"][-1]["res"] = {"st": int(kv["st"]), "pass": int(kv["pass"]), "errno": int(kv["errno"]),
                                        "field": int(kv["field"]), "features": int(kv["features"], 16),
                                        "arch": int(kv["arch"]), "type": int(kv["type"]), "bad": int(kv["bad"])}
        elif w[0] == "END":
            cur["complete"] = True
            cur = None
        else:
            cur["notes"].append(l[:200])
    return out


def run_chunk(args):
    """run a list of cases in one harness process; a hang / crash is located case by case"""
    k20, cases, order, tag = args
    wd = os.path.join(common.BUILD, "c20")
    os.makedirs(wd, exist_ok=True)

    def once(cs, name, timeout):
        path = os.path.join(wd, name)
        with open(path, "w") as f:
            f.write("\n".join(case_line(c, order) for c in cs) + "\n")
        try:
            p = common.run([k20, path], env=common.lib_env(), timeout=timeout)
            return p.stdout, p.returncode, p.stderr[-300:]
        except Exception as ex:
            o = getattr(ex, "stdout", None) or ""
            if isinstance(o, bytes):
                o = o.decode(errors="replace")
            return o, -999, "harness did not terminate within %d s (hang)" % timeout

    text, rc, err = once(cases, "cases_%s.txt" % tag, 120 + len(cases))
    res = parse_harness(text, len(cases))
    bad = [i for i, r in enumerate(res) if r is None or not r["complete"]]
    if bad:
        # re-run the unfinished ones alone so that exactly the culprit is blamed
        for i in bad:
            t2, rc2, err2 = once([cases[i]], "case_%s_%d.txt" % (tag, i), 60)
            r2 = parse_harness(t2, 1)[0]
            if r2 is None:
                r2 = {"n": 1, "complete": False, "phases": [], "notes": []}
            if not r2["complete"]:
                r2["died"] = "exit code %d %s" % (rc2, err2)
            res[i] = r2
    return res


def run_cases(k20, cases, order):
    nchunks = min(common.NCPU, max(1, len(cases) // 8))
    chunks = [cases[i::nchunks] for i in range(nchunks)]
    out = {}
    with cf.ThreadPoolExecutor(max_workers=common.NCPU) as ex:
        for ci, rs in enumerate(ex.map(run_chunk, [(k20, ch, order, str(ci)) for ci, ch in enumerate(chunks)])):
            for c, r in zip(chunks[ci], rs):
                out[c["id"]] = r
    return out


# ----------------------------------------------------------------------------- the model
def run_model(drv, wanted):
    """wanted: set of (init, cbm, cpu, tuple(set)) -> dict key -> dict(events, features, errno, ret, corrupted)"""
    keys = sorted(wanted)
    if not keys:
        return {}, []
    nsh = min(common.NCPU, max(1, len(keys) // 4))
    shards = [keys[i::nsh] for i in range(nsh)]
    wd = os.path.join(common.BUILD, "c20")
    os.makedirs(wd, exist_ok=True)

    def one(a):
        si, ks = a
        path = os.path.join(wd, "model_%d.txt" % si)
        with open(path, "w") as f:
            for j, (init, cbm, cpu, st) in enumerate(ks):
                f.write("%d %s %s %x %s\n" % (j, init, cbm, cpu, ",".join(map(str, st)) if st else "-"))
        p = common.run([drv, path], timeout=1200)
        if p.returncode != 0:
            raise RuntimeError("model driver failed: " + p.stderr[-500:])
        res, items, cur = {}, [], None
        for l in p.stdout.splitlines():
            w = l.split(" ")
            if w[0] == "ITEM":
                items.append((w[2], " ".join(w[3:])))
            elif w[0] == "CASE":
                cur = {"events": []}
                res[ks[int(w[1])]] = cur
            elif w[0] == "EV":
                cur["events"].append((w[1], w[2], " ".join(w[3:])))
            elif w[0] == "RES":
                kv = dict(t.split("=", 1) for t in w[1:])
                cur.update(features=int(kv["features"], 16), errno=int(kv["errno"]), ret=int(kv["ret"]),
                           corrupted=kv["corrupted"])
        return res, items

    out, items = {}, []
    with cf.ThreadPoolExecutor(max_workers=common.NCPU) as ex:
        for r, it in ex.map(one, list(enumerate(shards))):
            out.update(r)
            items = it
    return out, items


# ----------------------------------------------------------------------------- the property's own oracle
def oracle(case, k, ph, order, consts):
    """violations of the PROPERTY visible in one initialisation of the real library.
    Returns list of (kind, relevant vector ordinals, text)."""
    bad = []
    res = ph["res"]
    if res is None:
        return [("crash", list(case["sets"][k]), "initialisation did not return")]
    ev = ph["events"]
    want = set(case["sets"][k]) if case["cbm"] != "nocb" else set()
    if case["cbm"] == "nocb":
        if ev:
            bad.append(("callback-after-unregister", [], "%d callbacks although none is registered" % len(ev)))
        answered0, failed, starts = set(), None, None
    else:
        starts, answered0, failed, passed, i = [], set(), set(), set(), 0
        cur = -1
        state = "idle"
        for (p, ty, de, ret) in ev:
            if p == "START":
                if state not in ("idle",):
                    bad.append(("malformed-stream", [cur], "START while vector %d has no verdict" % cur))
                cur += 1
                starts.append((ty, de))
                state = "started"
            elif p == "CORRUPT":
                if state != "started":
                    bad.append(("malformed-stream", [cur], "CORRUPT in state %s" % state))
                if ret == 0:
                    answered0.add(cur)
                state = "asked"
            elif p in ("PASS", "FAIL"):
                if state not in ("asked", "started"):
                    bad.append(("malformed-stream", [cur], "%s in state %s" % (p, state)))
                if state == "started" and cur in want:
                    bad.append(("no-corrupt-phase", [cur], "vector %d got a verdict without a CORRUPT callback" % cur))
                (failed if p == "FAIL" else passed).add(cur)
                state = "idle"
            else:
                bad.append(("malformed-stream", [cur], "unknown phase %r" % p))
        if state != "idle":
            bad.append(("malformed-stream", [cur], "stream ends in state %s" % state))
        if order and starts != list(order):
            d = [i for i, (a, b) in enumerate(itertools.zip_longest(starts, order)) if a != b][:3]
            bad.append(("announce-mismatch", d, "announced sequence differs from the table at positions %s "
                        "(announced %d, table %d)" % (d, len(starts), len(order))))
        n = len(starts)
        miss = sorted(x for x in want if x < n and x not in answered0)
        if miss:
            bad.append(("no-corrupt-phase", miss, "no CORRUPT callback reached vectors %s" % miss))
        for x in sorted(answered0 - failed):
            bad.append(("corrupted-not-failed", [x], "input of vector %d was corrupted but it is reported PASS" % x))
        for x in sorted(failed - answered0):
            bad.append(("uncorrupted-failed", [x], "vector %d reported FAIL although its input was not corrupted" % x))
        if res["bad"]:
            bad.append(("callback-bad-args", [], "%d callbacks with NULL data / phase or unknown phase" % res["bad"]))
    expect_fail = bool(answered0)
    rel = sorted(answered0)
    if not res["st"]:
        bad.append(("selftest-bit-missing", rel, "IMB_FEATURE_SELF_TEST not set after init"))
    if expect_fail and res["pass"]:
        bad.append(("pass-bit-set-after-failure", rel, "IMB_FEATURE_SELF_TEST_PASS set although vectors %s were corrupted" % rel))
    if not expect_fail and not res["pass"]:
        bad.append(("pass-bit-clear-without-failure", sorted(failed or []), "IMB_FEATURE_SELF_TEST_PASS cleared without any corruption"))
    werr = consts["err"] if expect_fail else 0
    if res["errno"] != werr or res["field"] != werr:
        bad.append(("errno-wrong", rel or sorted(failed or []), "imb_get_errno=%d mgr->imb_errno=%d, expected %d"
                    % (res["errno"], res["field"], werr)))
    return bad


def signature(kind, case, vecs, order):
    tys = sorted(set(order[i][0] for i in vecs if order and 0 <= i < len(order)))
    return "%s/%s/%s" % (kind, case["init"], "+".join(tys) if tys else "-")


def mcb(case):
    """callback mode as the model knows it: a NULL user argument (cbn) changes nothing"""
    return "cb" if case["cbm"] in ("cbn", "cbi") else case["cbm"]


def compare_model(case, k, ph, model):
    """model <-> code, event by event"""
    res = ph["res"]
    if res is None:
        return ["library did not return"]
    cpu = case["_cpu"]
    key = (case["init"] if False else case["_minit"], mcb(case), cpu, tuple(sorted(set(case["sets"][k]))) if case["cbm"] != "nocb" else ())
    m = model.get(key)
    if m is None:
        return ["no model prediction for %s" % (key,)]
    out = []
    lib_ev = [(p, ty, de) for (p, ty, de, _) in ph["events"]]
    mod_ev = m["events"] if case["cbm"] != "nocb" else []
    if lib_ev != mod_ev:
        for i, (a, b) in enumerate(itertools.zip_longest(lib_ev, mod_ev)):
            if a != b:
                out.append("event %d: library %s, model %s" % (i, a, b))
                break
    if res["features"] != m["features"]:
        out.append("features: library %x, model %x" % (res["features"], m["features"]))
    if res["errno"] != m["errno"] or res["field"] != m["errno"]:
        out.append("errno: library %d (field %d), model %d" % (res["errno"], res["field"], m["errno"]))
    return out


# ----------------------------------------------------------------------------- case generation
def groups_of(order, info):
    """ordinal ranges of the group functions (pairs are enumerated within a group)"""
    if info:
        gs, pos = [], 0
        for g, loops in info["groups"]:
            n = sum(info["tables"][t] for (t, _, _) in loops)
            gs.append(list(range(pos, pos + n)))
            pos += n
        return gs
    # translator unavailable: group by announced type
    gs = {}
    for i, (ty, _) in enumerate(order):
        gs.setdefault(ty, []).append(i)
    return list(gs.values())


def gen_cases(tier, rng, n, groups):
    cases = []

    def add(init, flags, cbm, sets, kind, by_name=False):
        cases.append({"id": len(cases), "init": init, "flags": flags, "cbm": cbm, "sets": [sorted(s) for s in sets],
                      "kind": kind, "by_name": by_name})

    for (i, f) in COMBOS:
        add(i, f, "nocb", [[]], "baseline")
        add(i, f, "cb", [[]], "baseline")
        add(i, f, "cb0", [[]], "baseline")
        add(i, f, "cbn", [[]], "baseline")
        add(i, f, "cbi", [[]], "nested-init")
        add(i, f, "cbi", [[rng.below(n)]], "nested-init")
    # exhaustive singles on every init function x flags
    for v in range(n):
        for ci, (i, f) in enumerate(COMBOS):
            add(i, f, "cb", [[v]], "single", by_name=(ci + v) % 5 == 0)
    # a callback registered with a NULL user argument behaves like any other (singles spread over the combos)
    for v in range(n):
        i, f = COMBOS[(v * 3 + 1) % len(COMBOS)]
        add(i, f, "cbn", [[v]], "single-null-arg")
    # pairs within a group
    pairs = [p for g in groups for p in itertools.combinations(g, 2)]
    if tier == "quick":
        chosen = [pairs[rng.below(len(pairs))] for _ in range(min(48, len(pairs)))] if pairs else []
        for j, p in enumerate(chosen):
            i, f = COMBOS[(j * 5 + 3) % len(COMBOS)]
            add(i, f, "cb", [list(p)], "pair-sampled")
    else:
        for j, p in enumerate(pairs):
            for (i, f) in COMBOS:
                add(i, f, "cb", [list(p)], "pair")
    # random subsets of the whole table (any size, including all)
    nrand = 40 if tier == "quick" else 400
    for j in range(nrand):
        style = j % 4
        if style == 0:
            s = [v for v in range(n) if rng.chance(1, 2)]
        elif style == 1:
            s = [v for v in range(n) if rng.chance(1, 8)]
        elif style == 2:
            s = [v for v in range(n) if not rng.chance(1, 8)]
        else:   # one vector of each group
            s = [g[rng.below(len(g))] for g in groups if g]
        i, f = COMBOS[rng.below(len(COMBOS))]
        add(i, f, "cb0" if j % 7 == 0 else "cb", [s], "subset", by_name=j % 9 == 0)
    add("auto", 0, "cb", [list(range(n))], "subset")
    add("sse", 0, "cb", [list(range(n)) + [n, n + 7]], "subset")     # ids beyond the table are inert
    # every initialisation runs the tests: re-initialise the same manager
    nre = 12 if tier == "quick" else 64
    for j in range(nre):
        i, f = COMBOS[(j * 7 + 1) % len(COMBOS)]
        a = [rng.below(n)]
        b = [rng.below(n), rng.below(n)]
        seqs = [[a, []], [[], a], [a, b], [a, [], b, []]][j % 4]
        add(i, f, "cb", seqs, "reinit")
    # re-initialisation of a manager that still carries an error: right after a failed self test (^: nothing in
    # between) and right after a rejected job (!); every init function x flags, with and without a new corruption
    for ci, (i, f) in enumerate(COMBOS):
        a = [rng.below(n)]
        b = [rng.below(n)]
        add(i, f, "cb", [a, [], b], "reinit-pending-error")
        cases[-1]["prefix"] = ["", "^", "^"]
        add(i, f, "cb", [[], [], b, []], "reinit-pending-error")
        cases[-1]["prefix"] = ["", "!", "!", "^!"]
    return cases


# ----------------------------------------------------------------------------- main
def evaluate(cases, outs, order, consts, model):
    """returns (prop_fail, corr_fail, stats)"""
    prop_fail, corr_fail = [], []
    ninit = nev = 0
    for c in cases:
        r = outs.get(c["id"])
        if r is None or not r["complete"] or len(r["phases"]) != len(c["sets"]) or any(p["res"] is None for p in r["phases"]):
            prop_fail.append((c, -1, [("crash", sorted(set(x for s in c["sets"] for x in s)),
                                        "harness died / hung during this case: %s" % ((r or {}).get("died", "no output")))], r))
            continue
        c["_cpu"] = r["phases"][0]["pre_features"]
        c["_minit"] = "auto"
        nest = [x for x in r.get("notes", []) if x.startswith("NEST ")]
        if nest:
            prop_fail.append((c, 0, [("nested-init-failed", [], "an independent manager initialised inside this manager's callback "
                                      "(nothing corrupted there) did not pass: " + "; ".join(nest[:3]))], r))
        for k, ph in enumerate(r["phases"]):
            ninit += 1
            nev += len(ph["events"])
            o = oracle(c, k, ph, order, consts)
            if o:
                prop_fail.append((c, k, o, r))
            if model is not None:
                d = compare_model(c, k, ph, model)
                if d:
                    corr_fail.append((c, k, d, r))
    return prop_fail, corr_fail, {"inits": ninit, "events": nev}


def wanted_model_keys(cases, outs):
    w = set()
    for c in cases:
        r = outs.get(c["id"])
        if r is None or not r["phases"]:
            continue
        cpu = r["phases"][0]["pre_features"]
        for s in c["sets"]:
            w.add(("auto", mcb(c), cpu, tuple(sorted(set(s))) if c["cbm"] != "nocb" else ()))
    return w


def main(tier, seed):
    res = Result(PID, tier, seed, "proof")
    t0 = time.time()
    tb = common.build_lib()
    info, terr = run_translator()
    pres = props_with_retry() if info else \
        {"obligations": len(common.coq_theorems("Props/Properties_C20.v")), "discharged": 0,
         "failed": ["translator T4 failed: " + terr], "axioms": {}, "log": terr, "theorems": common.coq_theorems("Props/Properties_C20.v")}
    common.proof_coverage(res, pres, "make -k Props/Properties_C20.vo Props/Examples_C20.vo (coqc 8.16.1, full .vo) + Print Assumptions",
                          ["Coq 8.16.1 kernel incl. vm_compute (finite sweeps over the complete generated tables)",
                           "translators/t4_selftest.py: clang JSON AST of lib/x86_64/self_test.c cross-checked against a C program "
                           "that #includes self_test.c and dumps the tables through the compiler",
                           "Spec/{AES,AESModes,DES,SHA,HMAC,CMAC,GCM,CCM}.v: transcription of FIPS-197/SP800-38A/B/C/D, FIPS 46-3, "
                           "FIPS 180-4, FIPS 198-1 (validated here by all 33 library vectors)",
                           "README.md self-test list transcribed by hand into Mgr/SelfTest.v (readme_documented)",
                           "extraction (ExtrOcamlBasic only) + ocaml/selftest_driver.ml + harness/k20_selftest.c (correspondence K20)",
                           "modelled, not verified: the loop bodies of self_test.c (hand transcription, K20-tied on every variant); "
                           "job validation and the kernels behind process_job(); init_mb_mgr_*_internal() success path only"])
    t_proof = time.time() - t0
    k20 = common.build_harness("k20_selftest")
    model_err = None
    drv = None
    if info:
        try:
            drv = build_model_driver()
        except Exception as ex:
            model_err = str(ex)[-1500:]
    # discover the announced sequence on the real library (needed when the translator is unavailable)
    probe = [{"id": 0, "init": "auto", "flags": 0, "cbm": "cb", "sets": [[]], "kind": "probe"}]
    pr = run_cases(k20, probe, None)[0]
    announced = [(ty, de) for (p, ty, de, _) in (pr["phases"][0]["events"] if pr and pr["phases"] else []) if p == "START"]
    order = [tuple(x) for x in info["order"]] if info else announced
    n = len(order)
    consts = {"st": info["consts"]["IMB_FEATURE_SELF_TEST"], "pass": info["consts"]["IMB_FEATURE_SELF_TEST_PASS"],
              "err": info["consts"]["IMB_ERR_SELFTEST"]} if info else dict(FALLBACK_CONSTS)
    rng = Rng(seed)
    groups = groups_of(order, info)
    cases = gen_cases(tier, rng, n, groups) if n else []
    t1 = time.time()
    outs = run_cases(k20, cases, order)
    t_lib = time.time() - t1
    model = None
    items = []
    t2 = time.time()
    if drv:
        try:
            model, items = run_model(drv, wanted_model_keys(cases, outs))
        except Exception as ex:
            model_err = str(ex)[-1500:]
    t_model = time.time() - t2
    prop_fail, corr_fail, st = evaluate(cases, outs, order, consts, model)
    if model is not None and items and [tuple(x) for x in items] != list(order):
        corr_fail.append(({"id": -1, "init": "-", "flags": 0, "cbm": "-", "sets": [[]], "kind": "items"}, 0,
                          ["model item list differs from the translator's announcement order"], None))
    if not n:
        prop_fail.append((probe[0], 0, [("announce-mismatch", [], "no self-test was announced during init_mb_mgr_auto")], pr))

    # ---- evidence
    kinds = {}
    sizes = {}
    for c in cases:
        kinds[c["kind"]] = kinds.get(c["kind"], 0) + 1
        for s in c["sets"]:
            b = "0" if not s else "1" if len(s) == 1 else "2" if len(s) == 2 else "3-8" if len(s) <= 8 else "9+"
            sizes[b] = sizes.get(b, 0) + 1
    singles_seen = set((c["init"], c["flags"], c["sets"][0][0]) for c in cases if c["kind"] == "single")
    pairs_all = [p for g in groups for p in itertools.combinations(g, 2)]
    pairs_seen = set(tuple(c["sets"][0]) for c in cases if c["kind"] in ("pair", "pair-sampled"))
    pairs_full = set((c["init"], c["flags"], tuple(c["sets"][0])) for c in cases if c["kind"] == "pair")
    pairs_exh = bool(pairs_all) and len(pairs_full) == len(pairs_all) * len(COMBOS)
    distinct = set((c["init"], c["flags"], c["cbm"], tuple(tuple(s) for s in c["sets"])) for c in cases if any(c["sets"]))
    variants = sorted(set("%s:f%d arch=%d type=%d" % (c["init"], c["flags"], outs[c["id"]]["phases"][0]["res"]["arch"],
                                                       outs[c["id"]]["phases"][0]["res"]["type"])
                          for c in cases if outs.get(c["id"]) and outs[c["id"]]["phases"] and outs[c["id"]]["phases"][0]["res"]))
    res.coverage.update({
        "evaluations": st["inits"], "distinct_nontrivial": len(distinct),
        "rule": "one evaluation = one init_mb_mgr_* call on the rebuilt library with a callback corrupting a chosen set of "
                "self-test vectors, its complete callback stream, feature word and errno compared with the extracted model and "
                "judged by the model-independent oracle; non-trivial = at least one vector corrupted; distinct = different "
                "(init function, flags, callback mode, sequence of sets)",
        "exhaustive": bool(n) and len(singles_seen) == n * len(COMBOS) and pairs_exh,
        "exhaustive_singles": bool(n) and len(singles_seen) == n * len(COMBOS),
        "exhaustive_pairs_within_group": pairs_exh,
        "finite_domain": {"vectors": n, "init_functions": INITS, "flags": FLAGS, "singles": n * len(COMBOS),
                          "pairs_within_group": len(pairs_all) * len(COMBOS),
                          "pairs_covered": len(pairs_full) if pairs_full else len(pairs_seen & set(pairs_all))},
        "callback_events_compared": st["events"], "case_kinds": kinds, "set_size_histogram": sizes,
        "variants": variants, "entry_points": ["init_mb_mgr_" + i for i in INITS],
        "vectors": ["%s:%s" % o for o in order],
        "samples": [case_line(c, order) for c in (cases[50:52] + cases[-3:])],
        "traces_validated_against_impl": st["inits"] if model is not None else 0,
        "translator": ({k: info[k] for k in ("tables", "groups", "dirs", "sha1")} if info else {"error": terr}),
        "timing_s": {"lib_build": round(tb, 1), "translator_and_proofs": round(t_proof, 1), "library_runs": round(t_lib, 1),
                     "model_runs": round(t_model, 1)},
    })

    # ---- verdicts
    known = [re.search(r"key=(\S+)", l).group(1) for (kd, l) in common.known_findings(PID) if kd == "known" and re.search(r"key=(\S+)", l)]
    known_txt = {re.search(r"key=(\S+)", l).group(1): l for (kd, l) in common.known_findings(PID) if kd == "known" and re.search(r"key=(\S+)", l)}
    for f in pres["failed"]:
        log("proof obligation failed:", f)
    broken_proof = pres["discharged"] != pres["obligations"] or pres["failed"] or pres["obligations"] == 0
    reported = False
    seen_sig = set()
    for (c, k, o, r) in prop_fail:
        sigs = [signature(kind, c, vecs, order) for (kind, vecs, _) in o]
        fresh = [s for s in sigs if s not in known]
        for s in sigs:
            if s in known and s not in seen_sig:
                res.known.append(known_txt[s])
                seen_sig.add(s)
        if not fresh:
            continue
        reported = True
        key = tuple(sorted(set(fresh)))
        if key in seen_sig:
            continue
        seen_sig.add(key)
        if len(res.violations) >= 8:
            continue
        res.violation({"property": PID, "kind": "library initialisation violates the self-test gate (oracle, no model involved)",
                       "init": c["init"], "flags": c["flags"], "cbm": c["cbm"], "sets": c["sets"], "phase": k,
                       "vectors": {str(i): "%s:%s" % order[i] for s in c["sets"] for i in s if i < n},
                       "oracle": [{"kind": kd, "vectors": v, "text": t, "signature": signature(kd, c, v, order)} for (kd, v, t) in o],
                       "library": (r or {}).get("phases", [{}])[k if k >= 0 else 0].get("res") if r and r.get("phases") else None,
                       "seed": seed},
                      note="; ".join(t for (_, _, t) in o[:2]),
                      name="gate_%s_f%d_%s_%s" % (c["init"], c["flags"], c["cbm"], "_".join(str(x) for x in (c["sets"][max(k, 0)] or ["none"])[:4])))
    # concurrency probe: "every manager initialisation runs the known-answer tests" also while another thread, on its own
    # manager, keeps ending calls with an error (the gate in front of self_test() must look at this manager's code only)
    cp = common.run([k20, "--conc", "1.5" if tier == "quick" else "12"], env=common.lib_env(), timeout=300)
    mc = re.search(r"^CONC inits=(\d+) bad=(\d+)", cp.stdout, re.M)
    res.coverage["concurrent_inits"] = int(mc.group(1)) if mc else 0
    if not mc or cp.returncode != 0:
        res.violation({"property": PID, "kind": "concurrency probe crashed", "rc": cp.returncode, "out": cp.stdout[-500:], "err": cp.stderr[-500:],
                       "replay": "harness/k20_selftest --conc 1.5"}, note="k20 --conc failed", name="conc_crash")
        reported = True
    elif int(mc.group(2)):
        res.violation({"property": PID, "kind": "an initialisation did not run the known-answer tests while another thread's call failed",
                       "inits": int(mc.group(1)), "bad": int(mc.group(2)), "examples": [l for l in cp.stdout.splitlines() if l.startswith("CONC-BAD")],
                       "replay": "harness/k20_selftest --conc 1.5"},
                      note="%s of %s concurrent initialisations announced fewer KATs than an undisturbed one" % (mc.group(2), mc.group(1)),
                      name="conc_kats_not_run")
        reported = True
    if (corr_fail or broken_proof or model is None) and not reported:
        # model != code or a broken obligation, and the exhaustive singles above ARE the failing-input search
        # (every vector alone on every init function x flags, judged by the oracle): nothing fails the property itself
        what = {"property": PID, "seed": seed, "broken_obligations": pres["failed"],
                "translator_error": terr, "model_error": model_err,
                "proof_log_tail": pres["log"][-2500:] if broken_proof else "",
                "correspondence": [{"case": case_line(c, order), "phase": k, "differences": d} for (c, k, d, _) in corr_fail[:5]],
                "replay_case": ({"init": corr_fail[0][0]["init"], "flags": corr_fail[0][0]["flags"], "cbm": corr_fail[0][0]["cbm"],
                                 "sets": corr_fail[0][0]["sets"]} if corr_fail and corr_fail[0][0]["id"] >= 0 else None),
                "note": "the theorems of Props/Properties_C20.v / the model Mgr/SelfTest.v no longer check against this tree; "
                        "the oracle found no initialisation that violates the gate (%d initialisations, all singles)" % st["inits"]}
        res.violation(what, note="no-failing-input-found", name="unproved")
    res.assumptions = ["init_mb_mgr_<arch>_internal() succeeds (CPU has the flags); the MISSING_CPUFLAGS path still calls self_test() "
                       "and is outside the model",
                       "every table entry is a job the library accepts (checked dynamically: the uncorrupted run passes on every variant)"]
    return res.finish()


def replay(path):
    rp = json.load(open(path))
    common.build_lib()
    if str(rp.get("replay", "")).startswith("harness/k20_selftest --conc"):
        k20 = common.build_harness("k20_selftest")
        cp = common.run([k20, "--conc", "3"], env=common.lib_env(), timeout=300)
        print(cp.stdout[-1500:])
        mc = re.search(r"^CONC inits=(\d+) bad=(\d+)", cp.stdout, re.M)
        return 1 if (not mc or int(mc.group(2)) or cp.returncode != 0) else 0
    info, terr = run_translator()
    k20 = common.build_harness("k20_selftest")
    c = rp.get("replay_case") or rp
    if not c or "init" not in c:
        print(json.dumps({"error": "replay file names no runnable case", "broken_obligations": rp.get("broken_obligations")}, indent=1))
        pres = common.props_check(PID) if info else {"failed": [terr], "discharged": 0, "obligations": 1}
        return 1 if (pres["failed"] or pres["discharged"] != pres["obligations"]) else 0
    case = {"id": 0, "init": c["init"], "flags": int(c["flags"]), "cbm": c["cbm"], "sets": [list(s) for s in c["sets"]], "kind": "replay"}
    order = [tuple(x) for x in info["order"]] if info else None
    consts = {"st": info["consts"]["IMB_FEATURE_SELF_TEST"], "pass": info["consts"]["IMB_FEATURE_SELF_TEST_PASS"],
              "err": info["consts"]["IMB_ERR_SELFTEST"]} if info else dict(FALLBACK_CONSTS)
    outs = run_cases(k20, [case], order)
    model = None
    try:
        if info:
            model, _ = run_model(build_model_driver(), wanted_model_keys([case], outs))
    except Exception as ex:
        print("model unavailable:", str(ex)[-300:])
    pf, cfail, st = evaluate([case], outs, order, consts, model)
    print(json.dumps({"case": case_line(case, order),
                      "oracle": [[t for (_, _, t) in o] for (_, _, o, _) in pf],
                      "model_differences": [d for (_, _, d, _) in cfail],
                      "library": [p["res"] for p in (outs[0]["phases"] if outs.get(0) else [])]}, indent=1))
    return 1 if (pf or cfail) else 0
