"""Generator of operation scripts for harness/k2_ring.c (ring / burst API histories).

Every choice derives from one Rng (splitmix64).  Histories are structured in phases aimed at
the case splits of the ring proofs: empty <-> non-empty transitions, ring wrap-around at every
phase, the full-queue condition (255 pending, forced completion), bursts of every size
0..128 and 129, bursts straddling the ring end, rejected bursts, polling with get-completed."""

VALID_KINDS = [0, 1, 2, 3, 5, 6, 7, 8, 10, 11, 12, 13, 14, 15]
PARKED = [1, 2, 3, 6, 7, 10, 11]
IMMEDIATE = [0, 5, 8, 12, 13, 14, 15]    # 12..15: zero-length DOCSIS + CRC32, completed by the submit wrapper itself
INVALID = [4, 9]


def job_history(rng, nops, style):
    """job API only.  style: 'mixed' | 'full' (drive the queue to 255 and over) | 'drain' | 'edge' (each kind of
    submit, incl. a rejected job, taking the last free slots)."""
    ops = []
    jid = [1]

    def sub(check=None, kind=None, late=False):
        if check is None:
            check = 1 if rng.chance(3, 4) else 0
        if kind is None:
            r = rng.below(100)
            if check and r < 8:
                kind = rng.choice(INVALID)
            elif r < 55:
                kind = rng.choice(PARKED)
            else:
                kind = rng.choice(IMMEDIATE)
        ln = rng.choice([16, 32, 48, 64, 128, 256, 512])
        ops.append("%s %d %d %d %d" % ("SN" if late else "S", check, kind, jid[0], ln))
        jid[0] += 1

    def late_submit():
        # the slot is taken with GET_NEXT_JOB, other calls follow (often until the queue is drained), then the slot
        # is filled and submitted without another GET_NEXT_JOB
        ops.append("N")
        for _ in range(rng.choice([0, 1, 2, 5, 40, 300])):
            ops.append(rng.choice(["F", "F", "F", "C", "Q"]))
        sub(late=True)

    if style == "full":
        # one parked job at the head blocks returns; immediate jobs pile up behind it
        pre = rng.below(40)
        for _ in range(pre):
            sub(kind=rng.choice(IMMEDIATE))
        for _ in range(rng.below(3)):
            ops.append("F")
        sub(kind=rng.choice([1, 2, 6]))
        n = 250 + rng.below(20)
        for i in range(n):
            sub(kind=rng.choice(IMMEDIATE) if rng.chance(9, 10) else rng.choice(PARKED))
            if rng.chance(1, 40):
                ops.append("Q")
            if rng.chance(1, 60):
                ops.append("C")
        ops.append("Q")
        for _ in range(rng.below(300)):
            r = rng.below(10)
            if r < 5:
                ops.append("F")
            elif r < 7:
                sub()
            elif r < 8:
                ops.append("C")
            else:
                ops.append("Q")
    if style == "edge":
        # the queue-full condition met by each kind of submit: a parked head blocks every return, exactly k jobs are
        # queued behind it, then the job that takes slot 255 / 256 is rejected (checked call), valid-immediate,
        # unchecked or parked; followed by the calls whose result depends on the bookkeeping, then a full drain.
        # Every combination is an episode of the same history (the ring phase differs from episode to episode).
        combos = [(k, w) for k in (253, 254) for w in range(4)]
        for i in range(len(combos) - 1, 0, -1):
            j = rng.below(i + 1)
            combos[i], combos[j] = combos[j], combos[i]
        for (k, what) in combos:
            sub(check=1, kind=rng.choice([1, 2, 6]))
            for i in range(k):
                sub(check=rng.choice([0, 1]), kind=rng.choice(IMMEDIATE))
            for rep in range(2):
                if what == 0:
                    sub(check=1, kind=rng.choice(INVALID))
                elif what == 1:
                    sub(check=1, kind=rng.choice(IMMEDIATE))
                elif what == 2:
                    sub(check=0, kind=rng.choice(IMMEDIATE))
                else:
                    sub(check=1, kind=rng.choice(PARKED))
                ops.append(rng.choice(["Q", "N", "C"]))
            ops.append("Q")
            for _ in range(rng.below(4)):
                ops.append(rng.choice(["N", "C", "Q"]))
                sub()
            for _ in range(262):
                ops.append("F")
            ops.append("Q")
    while len(ops) < nops:
        r = rng.below(100)
        if style == "drain" and rng.chance(1, 3):
            ops.append("F")
            continue
        if r < 46:
            sub()
        elif r < 50:
            late_submit()
        elif r < 65:
            ops.append("F")
        elif r < 80:
            ops.append("C")
        elif r < 90:
            ops.append("Q")
        elif r < 95:
            ops.append("N")
        else:
            # burst of flushes until empty-ish
            for _ in range(rng.below(20)):
                ops.append("F")
    for _ in range(rng.below(30)):
        ops.append("F")
    ops.append("Q")
    return ops


def burst_history(rng, nops, style):
    """burst API only.  style: 'mixed' | 'full' | 'sizes' (every size) | 'errors'."""
    ops = []
    jid = [1]

    def jobs(n, check, parked_bias, err=None):
        out = []
        for i in range(n):
            r = rng.below(100)
            kind = rng.choice(PARKED) if r < parked_bias else rng.choice(IMMEDIATE)
            fl = 0
            if err is not None and i == err[0]:
                if err[1] == "null":
                    fl = 1
                elif err[1] == "ooo":
                    fl = 2
                elif err[1] == "suite":
                    fl = 4
                elif err[1] == "invalid":
                    kind = rng.choice(INVALID)
            ln = rng.choice([16, 32, 64, 128, 256])
            out.append("%d:%d:%d:%d" % (kind, jid[0], fl, ln))
            jid[0] += 1
        return out

    def burst(n, check=None, parked_bias=50, err=None, null_arr=0):
        if check is None:
            check = 1 if rng.chance(3, 4) else 0
        ops.append("GB 0 %d" % n)
        if null_arr:
            ops.append("SB 1 %d 1" % n)
            return
        ops.append("SB %d %d 0 %s" % (check, n, " ".join(jobs(n, check, parked_bias, err))))

    if style == "sizes":
        order = list(range(0, 130))
        # deterministic shuffle
        for i in range(len(order) - 1, 0, -1):
            j = rng.below(i + 1)
            order[i], order[j] = order[j], order[i]
        for n in order:
            if n > 128:
                ops.append("GB 0 %d" % n)
                ops.append("SB 1 %d 0 %s" % (n, " ".join(jobs(3, 1, 50))))
            else:
                burst(n, parked_bias=rng.choice([0, 30, 90]))
            if rng.chance(1, 2):
                ops.append("FB 0 %d" % rng.choice([0, 1, 2, 7, 64, 128, 256, 300]))
            if rng.chance(1, 4):
                ops.append("Q")
    elif style == "full":
        # parked job first, then immediates until the ring is full, then one more burst
        burst(1, parked_bias=100)
        total = 1
        while total < 256:
            n = min(rng.choice([1, 5, 17, 64, 100, 128]), 256 - total)
            burst(n, parked_bias=rng.choice([0, 0, 10]))
            total += n
            if rng.chance(1, 5):
                ops.append("Q")
        ops.append("Q")
        burst(rng.choice([1, 4, 128]))   # no space: rejected by the checked call
        ops.append("FB 0 %d" % rng.choice([1, 3, 128]))
        ops.append("Q")
    elif style == "errors":
        for _ in range(30):
            n = 1 + rng.below(12)
            kind = rng.choice(["null", "ooo", "suite", "invalid", "nullarr", "size", "ok", "ok"])
            if kind == "nullarr":
                burst(n, null_arr=1)
            elif kind == "size":
                ops.append("GB 0 %d" % (129 + rng.below(3)))
                ops.append("SB 1 %d 0 %s" % (129 + rng.below(3), " ".join(jobs(2, 1, 50))))
            elif kind == "ok":
                burst(n)
            else:
                burst(n, check=1, err=(rng.below(n), kind))
            if rng.chance(1, 3):
                ops.append("FB %d %d" % (1 if rng.chance(1, 6) else 0, rng.below(20)))
            if rng.chance(1, 3):
                ops.append("Q")
    while len(ops) < nops:
        r = rng.below(100)
        if r < 55:
            burst(rng.choice([0, 1, 2, 3, 7, 8, 9, 15, 16, 17, 31, 33, 64, 100, 127, 128]),
                  parked_bias=rng.choice([10, 50, 90]))
        elif r < 85:
            ops.append("FB 0 %d" % rng.choice([0, 1, 2, 5, 16, 100, 128, 256]))
        elif r < 95:
            ops.append("Q")
        else:
            ops.append("GB %d %d" % (1 if rng.chance(1, 4) else 0, rng.below(140)))
    ops.append("FB 0 256")
    ops.append("FB 0 256")
    ops.append("Q")
    return ops


def mixed_history(rng, nops):
    """alternating job-API and burst-API episodes, switching only when the queue was flushed empty"""
    ops = []
    while len(ops) < nops:
        if rng.chance(1, 2):
            part = job_history(rng, 40 + rng.below(80), "mixed")
            ops += part
            for _ in range(70):
                ops.append("F")
        else:
            part = burst_history(rng, 20 + rng.below(40), "mixed")
            ops += part
            ops.append("FB 0 256")
            ops.append("FB 0 256")
    # job ids must stay unique across episodes: renumber
    out = []
    jid = 1
    for o in ops:
        t = o.split()
        if t[0] in ("S", "SN"):
            t[3] = str(jid)
            jid += 1
        elif t[0] == "SB":
            for i in range(4, len(t)):
                f = t[i].split(":")
                f[1] = str(jid)
                jid += 1
                t[i] = ":".join(f)
        out.append(" ".join(t))
    return out


def rotate_prefix(rng, k):
    """submit and flush k immediate jobs so that the history starts at ring phase +k"""
    ops = []
    for i in range(k):
        ops.append("S 1 0 %d 16" % (900000 + i))
        ops.append("F")
    return ops
