"""C17 — distinct managers are independent, also across threads.

Proof : coq/Props/Properties_C17.v over Gen/GenGlobals.v (t6: every symbol of every writable non-RELRO
        section of the rebuilt .so) and Gen/GenStrerror.v (t9: shape of imb_set_errno/imb_get_errno).
Tie   : harness/k6_threads.c
        (a) one thread, 2..4 managers of all variant combinations, different random histories
            (jobs of many suites, parked lanes, invalid jobs, bursts, direct calls incl. NULL-manager
            errors, re-init) interleaved at random: every manager's transcript (returns, job outputs,
            statuses, error field, imb_get_errno right after its own call) must equal its solo run;
        (b) 2..16 threads x private managers under barrier/yield/spin-randomised schedules against the
            same solo runs;
        (c) the library's writable memory before/after: only modelled globals change;
        (d) witness probes for the imb_get_errno() fall-back (A succeeds; B fails; imb_get_errno(A));
        (e) thorough: DRD on SSE/AVX2 managers, races on anything but the modelled globals.
Search: more and longer interleavings/schedules when an obligation or translator breaks."""
import os, re, sys, json, time, concurrent.futures as cf
from . import common
from .common import Rng, Result, log
from . import c14 as C14

PID = "C17"
VARIANTS = [("sse", 0), ("sse", 1), ("sse", 2), ("avx2", 0), ("avx2", 1), ("avx512", 0), ("avx512", 1)]
NDIRECT = 12
BENIGN = {"imb_errno", "cpuid_1_0", "cpuid_7_0", "cpuid_7_1", "counter.0", "imb_set_session.counter"}


# ----------------------------------------------------------------------------- generation
SUITE_OF = {}


def make_items(rng):
    """valid KAT items whose outputs are fully defined + a few invalid ones; returns (lines, valid_idx, invalid_idx)"""
    base = []
    p = os.path.join(common.HARNESS, "k1_selftest_cases.txt")
    for l in open(p):
        if l.startswith("#") or not l.strip() or "xstatus=" in l or "xloose=" in l:
            continue
        d = C14.parse_item(l)
        if "cipher" not in d:
            continue
        c, h = int(d["cipher"]), int(d["hash"])
        if c == 11 or h == 19:                       # PON: undefined CRC bytes for short frames
            continue
        if h == 21 and int(d.get("hlen", "0")) < 14:   # DOCSIS CRC32 below 14 bytes: tag untouched / zeroed
            continue
        if h == 46 and int(d.get("tag", "0")) < 16:    # GHASH short tag reads behind the tag buffer
            continue
        if c == 17:                                  # CBCS out of place leaves skipped blocks undefined
            d["inplace"] = "1"
        base.append(d)
    lines, valid, invalid = [], [], []
    SUITE_OF.clear()
    for i, d in enumerate(base):
        d = dict(d)
        d["id"] = str(1000 + i)
        lines.append(C14.fmt_item(d))
        valid.append(i)
        SUITE_OF[i] = (d["cipher"], d["hash"])
    # one more item per algorithm family from the template list of C04 (AEADs, chained suites, wireless algorithms, ...)
    try:
        from . import c04
        trng = Rng(20261002)
        for tn, tb in c04.templates(c04.consts()):
            d = tb(trng, 300)
            i = len(lines)
            lines.append(c04.item_line(5000 + i, d))
            valid.append(i)
            SUITE_OF[i] = ("t:" + tn, "")
    except Exception as ex:      # the corpus above still stands
        log("C04 templates not available for the C17 corpus: %r" % (ex,))
    simple = [d for d in base if d["cipher"] in ("1", "2", "12") and d["hash"] == "8"]
    for k, (tok, val) in enumerate([("null", "src"), ("null", "dst"), ("clen", "0"), ("null", "iv"), ("cipher", "99"), ("dir", "9")] * 3):
        d = dict(rng.choice(simple))
        d[tok] = val
        d["id"] = str(9000 + k)
        invalid.append(len(lines))
        lines.append(C14.fmt_item(d))
    return lines, valid, invalid


def history(rng, n, valid, invalid, style):
    """one manager's calls.  A manager uses either the job API or the burst API for its jobs (jobs parked through one
    must not be flushed through the other: the burst flush dispatches on the suite id set by imb_set_session)"""
    ops = []
    api = "burst" if rng.chance(1, 3) else "job"
    for _ in range(n):
        r = rng.below(100)
        if style == "errors":
            r = rng.choice([3, 45, 62, 66, 70, 91, 95, 20])
        if r < 64:
            if api == "job":
                if r < 40:
                    ops.append("J %d" % rng.choice(valid))
                elif r < 50:
                    ops.append("J %d" % rng.choice(invalid))
                else:
                    ops.append("N %d" % rng.choice(valid))
            else:
                k = 1 + rng.below(6)
                idx = [rng.choice(valid) for _ in range(k)]
                if rng.chance(1, 5):
                    idx[rng.below(k)] = rng.choice(invalid)
                ops.append("B %s" % ",".join(map(str, idx)))
        elif r < 77:
            ops.append(("F" if r < 72 else "C") if api == "job" else "FB %d" % (1 + rng.below(8)))
        elif r < 84:
            ops.append("Q")
        elif r < 96:
            ops.append("D %d" % rng.below(NDIRECT))
        elif r < 99:
            ops.append("S %d" % rng.choice(valid))
        else:
            ops.append("I")
    ops += (["F"] * 4 if api == "job" else ["FB 64", "FB 64"]) + ["Q"]
    return ops


def interleave(rng, hists):
    """random merge; run lengths vary from 1 call to long bursts"""
    pos = [0] * len(hists)
    out = []
    live = [i for i in range(len(hists)) if hists[i]]
    while live:
        m = rng.choice(live)
        run = 1 if rng.chance(1, 2) else 1 + rng.below(12)
        for _ in range(run):
            if pos[m] >= len(hists[m]):
                break
            out.append((m, hists[m][pos[m]]))
            pos[m] += 1
        live = [i for i in live if pos[i] < len(hists[i])]
    return out


def script_text(mgrs, merged):
    L = ["M %d %s %d" % (i, a, f) for i, (a, f) in enumerate(mgrs)]
    L += ["O %d %s" % (m, o) for m, o in merged]
    return "\n".join(L) + "\n"


# ----------------------------------------------------------------------------- running
def run(args, timeout=400, pre=()):
    try:
        p = common.run(list(pre) + args, env=C14.lib_env(), timeout=timeout)
        return p.returncode, p.stdout, p.stderr
    except Exception as ex:
        out = getattr(ex, "stdout", None) or ""
        if isinstance(out, bytes):
            out = out.decode(errors="replace")
        return -999, out, "did not terminate within %d s" % timeout


def transcripts(out):
    t = {}
    for l in out.splitlines():
        if l.startswith("P "):
            m = int(l.split()[1])
            t.setdefault(m, []).append(l)
    return t


def gl_of(out):
    g = {}
    for l in out.splitlines():
        if l.startswith("G "):
            d = dict(x.split("=", 1) for x in l.split()[1:])
            g[d["tag"]] = d
    return g


def changed_symbols(g, gj):
    """symbols whose bytes differ between the 'before' and 'after' dumps of the writable memory"""
    if "before" not in g or "after" not in g or "map" not in g:
        return None
    va = int(g["map"]["vaddr"], 16)
    a, b = bytes.fromhex(g["before"]["hex"]), bytes.fromhex(g["after"]["hex"])
    secs = {n: (ad, sz) for n, sz, ad in gj["writable_sections"]}
    names = set()
    for i in range(min(len(a), len(b))):
        if a[i] == b[i]:
            continue
        addr = va + i
        hit = None
        for s in gj["syms"]:
            ad, _ = secs[s["section"]]
            if s["size"] > 0 and ad + s["off"] <= addr < ad + s["off"] + s["size"]:
                hit = s["name"]
        names.add(hit or "unnamed@0x%x" % addr)
    return names


def cmp_transcripts(ta, tb, threads):
    """ta: together, tb: alone.  Returns (hard mismatches, fallback observations)"""
    hard, soft = [], []
    if len(ta) != len(tb):
        hard.append("call count %d together vs %d alone" % (len(ta), len(tb)))
    for x, y in zip(ta, tb):
        if x == y:
            continue
        if threads and " ret=prep" in x and " ret=prep" not in y:
            # the application-side key preparation (harness/imbh.c asks imb_get_errno(mgr) after imb_hmac_ipad_opad) was told
            # "failed" although it succeeded: the fall-back returned another thread's code.  Everything after this call differs
            # as a consequence; counted under the fall-back signature, not as a separate influence.
            soft.append((x, y))
            return hard, soft
        mx = re.match(r"(P \d+ \d+ \S+ ret=\S+ field=(-?\d+)) get=(-?\d+) (outs=.*)$", x)
        my = re.match(r"(P \d+ \d+ \S+ ret=\S+ field=(-?\d+)) get=(-?\d+) (outs=.*)$", y)
        if threads and mx and my and mx.group(1) == my.group(1) and mx.group(4) == my.group(4) and mx.group(2) == "0":
            soft.append((x, y))     # only the FUNCTION imb_get_errno differs, while the field is 0
        else:
            hard.append("together: %s | alone: %s" % (x[:300], y[:300]))
        if len(hard) > 5:
            break
    return hard, soft


def one_case(args):
    exe, workdir, name, mgrs, hists, merged, items_path, mode, seed = args
    sp = os.path.join(workdir, name + ".script")
    open(sp, "w").write(script_text(mgrs, merged))
    res = dict(name=name, mgrs=mgrs, mode=mode, seed=seed, hard=[], soft=0, calls=0, crashed=None, changed=set(), script=sp, first_soft=None)
    # "<mode>+reloc": every manager is used through a relocated copy of its idle block (k6_threads --reloc); the solo
    # runs use the plain managers, so a relocated manager must also behave exactly like one that never moved
    reloc = ["--reloc"] if mode.endswith("+reloc") else []
    if mode.startswith("interleave"):
        rc, out, err = run([exe, "--items", items_path, "--script", sp, "--mode", "interleave"] + reloc)
    else:
        rc, out, err = run([exe, "--items", items_path, "--script", sp, "--mode", "threads", "--seed", str(seed)] + reloc)
    if rc != 0:
        res["crashed"] = "together run (%s) exit %s: %s" % (mode, rc, err[-200:])
        return res
    tog = transcripts(out)
    res["changed"] = changed_symbols(gl_of(out), one_case.gj)
    for m in range(len(mgrs)):
        rc2, out2, err2 = run([exe, "--items", items_path, "--script", sp, "--mode", "solo", "--only", str(m)])
        if rc2 != 0:
            res["crashed"] = "solo run of manager %d exit %s: %s" % (m, rc2, err2[-200:])
            return res
        alone = transcripts(out2).get(m, [])
        h, s = cmp_transcripts(tog.get(m, []), alone, mode.startswith("threads"))
        res["calls"] += len(alone)
        res["hard"] += ["mgr %d (%s:f%d): %s" % (m, mgrs[m][0], mgrs[m][1], x) for x in h]
        res["soft"] += len(s)
        if s and not res["first_soft"]:
            res["first_soft"] = s[0]
    return res


def k6_exe():
    return common.build_harness("k6_threads", extra_src=["imbh.c"])


def cases(rng, tier, valid, invalid):
    out = []
    nops = 60 if tier == "quick" else 250
    # (a) all ordered pairs of variants, then triples / quadruples
    combos = [(a, b) for a in VARIANTS for b in VARIANTS]
    ntri = 14 if tier == "quick" else 120
    for _ in range(ntri):
        k = 3 + rng.below(2)
        combos.append(tuple(rng.choice(VARIANTS) for _ in range(k)))
    for ci, mg in enumerate(combos):
        hs = [history(rng, nops // 2 + rng.below(nops), valid, invalid, "errors" if (ci + i) % 5 == 4 else "mixed") for i in range(len(mg))]
        out.append(("il%d" % ci, list(mg), hs, interleave(rng, hs), "interleave+reloc" if ci % 3 == 1 else "interleave", 0))
    # (b) threads
    for ti in range(10 if tier == "quick" else 80):
        k = [2, 3, 4, 6, 8, 12, 16][ti % 7]
        mg = [rng.choice(VARIANTS) for _ in range(k)]
        hs = [history(rng, (nops if k <= 4 else nops // 2) + rng.below(20), valid, invalid, "errors" if (ti + i) % 4 == 3 else "mixed") for i in range(k)]
        # re-initialisation under concurrency is probed separately (witness W3): on a tree with the process-wide mirror a
        # spuriously failed self test leaves a job pointing into a dead stack frame queued, and flushing it corrupts memory
        hs = [[o for o in h if o != "I"] for h in hs]
        merged = [(m, o) for m in range(k) for o in hs[m]]
        out.append(("th%d" % ti, mg, hs, merged, "threads+reloc" if ti % 3 == 1 else "threads", rng.next() % 100000))
    # (c) the same algorithm on every thread at the same time: all threads run the same sequence of suites, one suite
    # after the other, many jobs each - a scratch buffer of an algorithm that is not reached through the manager or the
    # stack is then used by several threads at once
    by_suite = {}
    for i in valid:
        by_suite.setdefault(SUITE_OF.get(i), []).append(i)
    suites = sorted(k for k in by_suite if k is not None)
    per_case = 12
    reps = 25 if tier == "quick" else 120
    for ci in range(0, len(suites), per_case):
        chunk = suites[ci:ci + per_case]
        k = 8
        mg = [VARIANTS[(ci + j) % len(VARIANTS)] for j in range(k)]
        seq = []
        for su in chunk:
            it = by_suite[su][rng.below(len(by_suite[su]))]
            seq += ["J %d" % it] * reps + ["F"] * 18
        hs = [list(seq) for _ in range(k)]
        merged = [(m, o) for m in range(k) for o in hs[m]]
        out.append(("same%d" % (ci // per_case), mg, hs, merged, "threads+reloc" if (ci // per_case) % 2 else "threads", rng.next() % 100000))
    return out


def drd_run(exe, workdir, items_path, rng, valid, invalid, gj):
    """valgrind DRD on SSE/AVX2 managers: conflicting accesses to the library's data, by symbol"""
    mg = [("sse", 0), ("avx2", 0), ("sse", 1), ("avx2", 1)]
    small = [i for i in valid[:200]]
    # no failing call anywhere in these histories: with the process-wide mirror a failure in one thread can make the self test
    # of another thread's re-initialisation fail (witness W3), which is not what this run is about
    ok_direct = {0, 2, 3, 7, 9, 11}
    hs = []
    for _ in mg:
        h = history(rng, 25, small, small, "mixed")
        h = [o for o in h if o != "I" and not (o.startswith("D ") and int(o.split()[1]) not in ok_direct)]
        hs.append(["I"] + h)   # re-init first: concurrent CPUID cache refresh
    merged = [(m, o) for m in range(len(mg)) for o in hs[m]]
    sp = os.path.join(workdir, "drd.script")
    open(sp, "w").write(script_text(mg, merged))
    rc, out, err = run([exe, "--items", items_path, "--script", sp, "--mode", "threads", "--seed", "5"], timeout=800,
                       pre=["valgrind", "--tool=drd", "--check-stack-var=no", "--error-limit=no", "--read-var-info=yes", "-q"])
    g = gl_of(out)
    syms, other_lib, elsewhere = {}, 0, 0
    if "map" in g:
        va, base, ln = int(g["map"]["vaddr"], 16), int(g["map"]["addr"], 16), int(g["map"]["len"])
        secs = {n: (ad, sz) for n, sz, ad in gj["writable_sections"]}
        cur = None
        for l in err.splitlines():
            m = re.search(r"Conflicting (load|store) by thread \d+ at 0x([0-9A-Fa-f]+) size (\d+)", l)
            if m:
                a = int(m.group(2), 16)
                if base <= a < base + ln:
                    v = va + (a - base)
                    hit = None
                    for s in gj["syms"]:
                        ad, _ = secs[s["section"]]
                        if s["size"] > 0 and ad + s["off"] <= v < ad + s["off"] + s["size"]:
                            hit = s["name"]
                    hit = hit or "unnamed@0x%x" % v
                    syms[hit] = syms.get(hit, 0) + 1
                    cur = None
                else:
                    cur = a
                continue
            if cur is not None and l.startswith("==") and "Allocation context" in l:
                if "libIPSec_MB" in l:
                    other_lib += 1       # library memory outside the writable globals (cannot happen: the rest is read-only)
                else:
                    elsewhere += 1       # harness / heap / libc
                cur = None
    return rc, syms, dict(library_memory_outside_globals=other_lib, not_library=elsewhere), err[-1500:]


def known_keys():
    keys = {}
    for kind, line in common.known_findings(PID):
        if kind != "known":
            continue
        m = re.search(r"key=(\S+)", line)
        if m:
            keys[m.group(1)] = line.split("key=" + m.group(1), 1)[1].strip() or line
    return keys


def main(tier, seed):
    res = Result(PID, tier, seed, "proof")
    tb = common.build_lib()
    sys.path.insert(0, os.path.join(common.VERIF, "translators"))
    import t0_consts, t6_globals, t9_strerror
    terrs = []
    gj = None
    try:
        t0_consts.main()
    except Exception as ex:
        terrs.append("t0_consts: %s" % ex)
    try:
        libdir = C14.private_lib("c17")
        gj = t6_globals.main(os.path.join(libdir, "libIPSec_MB.so.2.0.0"))
        t6_globals.selftest(gj)
    except Exception as ex:
        terrs.append("t6_globals: %s" % ex)
    try:
        t9 = t9_strerror.main(need_strerror=False)
    except Exception as ex:
        terrs.append("t9_strerror: %s" % ex)
    try:
        # Proofs/ErrnoProofs.v (imported by the C17 proofs) sits on the descriptor layout / write census of C14
        import t14_job
        t14_job.main()
    except Exception as ex:
        terrs.append("t14_job: %s" % ex)
    pres = common.props_check(PID, extra_targets=["Props/Examples_C17.vo"])
    common.proof_coverage(res, pres, "make -k Props/Properties_C17.vo Props/Examples_C17.vo (coqc 8.16.1) + Print Assumptions",
                          ["Coq 8.16.1 kernel incl. vm_compute (finite check over the generated table of writable symbols)",
                           "translators t6_globals.py (readelf/objdump/nm on the rebuilt .so; nm is the second opinion), t9_strerror.py "
                           "(imb_set_errno/imb_get_errno translated statement by statement, cmini.py, and the mirror's storage class), t0_consts.py",
                           "harness/k6_threads.c + harness/imbh.c",
                           "modelled, not verified: API calls are atomic w.r.t. the globals (the CPUID cache is treated at word granularity "
                           "separately); per-manager state is the ring model plus a feature word; real data races are a run-time matter "
                           "(threads + DRD runs only sample schedules)"])
    if gj is None:
        gj = json.load(open(os.path.join(common.BUILD, "gen", "globals.json")))
    one_case.gj = gj
    try:
        exe = k6_exe()
    except Exception as ex:
        res.violation({"property": PID, "seed": seed, "broken_obligations": pres["failed"], "correspondence": terrs + ["k6_threads build: %s" % str(ex)[-1500:]],
                       "note": "the C17 harness cannot be built against this tree; nothing was run"}, note="no-failing-input-found", name="unproved")
        return res.finish()
    rng = Rng(seed)
    workdir = os.path.join(common.BUILD, "c17")
    os.makedirs(workdir, exist_ok=True)
    lines, valid, invalid = make_items(rng)
    items_path = os.path.join(workdir, "items.txt")
    open(items_path, "w").write("\n".join(lines) + "\n")
    cs = cases(rng, tier, valid, invalid)
    t1 = time.time()
    results = []
    with cf.ThreadPoolExecutor(max_workers=max(2, common.NCPU // 2)) as ex:
        for r in ex.map(one_case, [(exe, workdir, n, mg, hs, merged, items_path, mode, sd) for (n, mg, hs, merged, mode, sd) in cs]):
            results.append(r)
    # (d) witnesses
    rcw, outw, errw = run([exe, "--witness", "--iters", "1000000" if tier == "quick" else "5000000"], timeout=300)
    W = {}
    for l in outw.splitlines():
        if l.startswith("W"):
            W[l.split()[0]] = dict(x.split("=", 1) for x in l.split()[1:])
    wchanged = changed_symbols(gl_of(outw), gj) or set()
    V, corr = [], list(terrs)
    if rcw != 0 or "W1" not in W or "W2" not in W:
        V.append(dict(sig="witness-crash", what="witness probe exit %s %s" % (rcw, errw[-200:])))
    else:
        if int(W["W1"]["getA_after_B_failed"]) != int(W["W1solo"]["getA"]):
            V.append(dict(sig="get-errno-global-fallback:same-thread", replay_kind="witness",
                          what="one thread: A succeeds (imb_get_errno(A)=%s, field %s); B fails with %s; imb_get_errno(A) is now %s, alone it is %s"
                               % (W["W1"]["getA_after_own_call"], W["W1"]["fieldA"], W["W1"]["codeB"], W["W1"]["getA_after_B_failed"], W["W1solo"]["getA"])))
        if "W3" in W and int(W["W3"]["selftest_failed"]) != int(W["W3"]["solo_failed"]):
            V.append(dict(sig="get-errno-global-fallback:threads:selftest", replay_kind="witness",
                          what="thread 1 initialised its own manager %s times while thread 2 kept failing on another manager: the power-up self test "
                               "failed %s times (error %s; %s times a self-test job was left queued); alone it failed %s times of 20"
                               % (W["W3"]["inits"], W["W3"]["selftest_failed"], W["W3"]["code"], W["W3"]["left_job_queued"], W["W3"]["solo_failed"])))
        if int(W["W2"]["nonzero"]) != 0:
            V.append(dict(sig="get-errno-global-fallback:threads", replay_kind="witness",
                          what="two threads, one manager each: thread 1 only succeeds on A and reads imb_get_errno(A) right after its own call; "
                               "%s of %s reads returned %s (thread 2's failure on B); field of A stayed %s"
                               % (W["W2"]["nonzero"], W["W2"]["iterations"], W["W2"]["first_code"], W["W2"]["fieldA"])))
    # (e) concurrent creation / initialisation of private managers vs the same calls alone
    rci, outi, erri = run([exe, "--initrace", "8", "2.5" if tier == "quick" else "20"], timeout=200)
    IR = {}
    for l in outi.splitlines():
        if l.startswith("IR threads="):
            IR = dict(x.split("=", 1) for x in l.split(" first=")[0].split()[1:])
            IR["first"] = l.split(" first=", 1)[1]
        elif l.startswith("IR unstable-alone"):
            IR = {"unstable": l}
    if rci != 0 or not IR:
        V.append(dict(sig="initrace-crash", what="concurrent-creation probe exit %s %s" % (rci, erri[-200:])))
    elif "unstable" in IR:
        corr.append("concurrent-creation probe: the single-threaded reference is not reproducible: " + IR["unstable"])
    elif int(IR["mismatches"]) != 0:
        V.append(dict(sig="manager-influenced:concurrent-init", replay_kind="initrace",
                      what="%s threads creating and initialising their own managers: after %s rounds a manager differed from what the same "
                           "calls give alone: %s" % (IR["threads"], IR["rounds"], IR["first"])))
    # (f) concurrent imb_set_session() on private managers: ids must stay distinct (atomic session counter)
    rcs, outs_, errs_ = run([exe, "--sessrace", "8", "200000" if tier == "quick" else "1000000"], timeout=200)
    SR = {}
    for l in outs_.splitlines():
        if l.startswith("SR threads="):
            SR = dict(x.split("=", 1) for x in l.split()[1:])
    if rcs != 0 or not SR:
        V.append(dict(sig="sessrace-crash", what="concurrent imb_set_session probe exit %s %s" % (rcs, errs_[-200:])))
    elif int(SR["dup_alone"]) != 0:
        corr.append("session ids are not distinct even single-threaded (%s duplicates): the probe's assumption does not hold" % SR["dup_alone"])
    elif int(SR["dup_within_manager"]) != 0 or int(SR["dup_overall"]) != 0:
        V.append(dict(sig="manager-influenced:concurrent-set-session", replay_kind="sessrace",
                      what="%s threads, each calling imb_set_session %s times on its own manager: %s session ids were handed out twice within "
                           "one manager and %s overall; the same number of calls from one thread gives distinct ids"
                           % (SR["threads"], SR["calls_per_thread"], SR["dup_within_manager"], SR["dup_overall"])))
    allchanged = set(wchanged)
    soft_total = 0
    for r in results:
        if r["crashed"]:
            V.append(dict(sig="crash-or-hang", case=r["name"], mgrs=r["mgrs"], mode=r["mode"], seed=r["seed"], script=open(r["script"]).read()[:200000], what=r["crashed"]))
            continue
        allchanged |= (r["changed"] or set())
        if r["hard"]:
            V.append(dict(sig="manager-influenced:%s" % r["mode"], case=r["name"], mgrs=r["mgrs"], mode=r["mode"], seed=r["seed"],
                          script=open(r["script"]).read()[:200000], items_file=items_path, what=r["hard"][:4]))
        if r["soft"]:
            soft_total += r["soft"]
            V.append(dict(sig="get-errno-global-fallback:threads", case=r["name"], mgrs=r["mgrs"], mode=r["mode"], seed=r["seed"],
                          what="in a threaded run imb_get_errno() right after the manager's own call differed from the solo run while the field was 0 "
                               "(%d calls); first: %s" % (r["soft"], r["first_soft"])))
    bad_syms = sorted(s for s in allchanged if s not in BENIGN)
    if bad_syms:
        V.append(dict(sig="unmodelled-global-written:" + bad_syms[0], what="writable library memory outside the modelled globals changed during the runs: %s" % bad_syms))
    drd = None
    if tier != "quick":
        rcd, syms, unknown, tail = drd_run(exe, workdir, items_path, rng, valid, invalid, gj)
        drd = dict(exit=rcd, races_by_symbol=syms, other=unknown)
        if unknown.get("library_memory_outside_globals"):
            V.append(dict(sig="data-race:library-memory", what="DRD reports %d conflicting accesses to library memory outside the writable globals" % unknown["library_memory_outside_globals"]))
        for s in syms:
            if s not in BENIGN:
                V.append(dict(sig="data-race:" + s, what="DRD reports conflicting accesses to library symbol %s (%d reports)" % (s, syms[s])))
    ncalls = sum(r["calls"] for r in results)
    res.coverage.update({
        "evaluations": len(results), "distinct_nontrivial": len(set((tuple(map(tuple, r["mgrs"])), r["mode"]) for r in results)),
        "rule": "one evaluation = one multi-manager history (random interleaving in one thread, or one thread per manager under a randomised "
                "schedule) whose per-manager transcripts are compared call by call with the solo runs of the same managers; distinct = distinct "
                "(variant tuple, mode)",
        "api_calls_compared": ncalls, "interleaved_cases": sum(1 for r in results if r["mode"].startswith("interleave")),
        "threaded_cases": sum(1 for r in results if r["mode"].startswith("threads")),
        "relocated_manager_cases": sum(1 for r in results if r["mode"].endswith("+reloc")),
        "thread_counts": sorted(set(len(r["mgrs"]) for r in results if r["mode"].startswith("threads"))),
        "variant_pairs_covered": len(set(tuple(map(tuple, r["mgrs"])) for r in results if len(r["mgrs"]) == 2)),
        "variants": ["%s:f%d" % v for v in VARIANTS], "witness": W, "concurrent_creation": IR, "concurrent_set_session": SR, "globals_changed_at_runtime": sorted(allchanged),
        "writable_symbols": [(s["name"], s["section"], s["size"]) for s in gj["syms"]], "writable_gaps": gj["gaps"],
        "get_errno_differences_in_threaded_runs": soft_total, "drd": drd, "items": len(lines),
        "samples": [cs[0][3][:8], cs[-1][3][:8]], "traces_validated_against_impl": len(results),
        "lib_build_s": round(tb, 1), "run_s": round(time.time() - t1, 1),
    })
    keys = known_keys()
    by_sig = {}
    for x in V:
        by_sig.setdefault(x["sig"], []).append(x)
    reported = 0
    for sig, xs in sorted(by_sig.items()):
        k = C14.key_matches(sig, keys)
        if k:
            res.known.append("key=%s (%d occurrences this run) %s" % (k, len(xs), keys[k]))
            continue
        res.violation({"property": PID, "signature": sig, "occurrences": len(xs), "first": xs[0], "seed": seed}, note=sig,
                      name=re.sub(r"[^A-Za-z0-9_.-]+", "_", sig)[:60])
        reported += 1
    for f in pres["failed"]:
        log("proof obligation failed:", f)
    broken = pres["discharged"] != pres["obligations"] or pres["failed"] or pres["obligations"] == 0
    if (broken or corr) and reported == 0:
        found = None
        if tier == "quick":
            rng2 = Rng(seed + 7919)
            cs2 = cases(rng2, "thorough", valid, invalid)[:120]
            with cf.ThreadPoolExecutor(max_workers=max(2, common.NCPU // 2)) as ex:
                for r in ex.map(one_case, [(exe, workdir, "s" + n, mg, hs, merged, items_path, mode, sd) for (n, mg, hs, merged, mode, sd) in cs2]):
                    bad = [s for s in (r["changed"] or set()) if s not in BENIGN]
                    if r["hard"] or r["crashed"] or bad:
                        found = dict(sig="manager-influenced:%s" % r["mode"] if r["hard"] else ("unmodelled-global-written:" + bad[0] if bad else "crash-or-hang"),
                                     case=r["name"], mgrs=r["mgrs"], mode=r["mode"], seed=r["seed"], script=open(r["script"]).read()[:200000],
                                     items_file=items_path, what=r["hard"][:4] or r["crashed"] or bad)
                        break
        if found and not C14.key_matches(found["sig"], keys):
            res.violation({"property": PID, "signature": found["sig"], "first": found, "seed": seed, "found_by": "failing-input search",
                           "broken_obligations": pres["failed"], "correspondence": corr[:10]}, note=found["sig"], name="search")
        else:
            res.violation({"property": PID, "seed": seed, "broken_obligations": pres["failed"], "correspondence": corr[:20],
                           "proof_log_tail": pres["log"][-2500:] if broken else "",
                           "note": "the C17 model (Mgr/Globals.v) / the table of writable globals no longer check against this tree; no interleaving or "
                                   "schedule in which one manager influences another was found"},
                          note="no-failing-input-found", name="unproved")
    elif broken or corr:
        res.violation({"property": PID, "seed": seed, "broken_obligations": pres["failed"], "correspondence": corr[:20],
                       "proof_log_tail": pres["log"][-2500:] if broken else "",
                       "note": "a proof obligation / translator of C17 is broken on this tree; whether one of the violations reported in the same "
                               "run is its cause must be judged from the log"},
                      note="broken-obligation (see the other violations of this run)", name="unproved")
    res.assumptions = ["API calls are atomic with respect to the modelled globals (documented usage: one thread per manager at a time)",
                       "the CPU answers CPUID with the same values on every core"]
    return res.finish()


def replay(path):
    rp = json.load(open(path))
    common.build_lib()
    exe = k6_exe()
    C14.private_lib("c17")
    x = rp.get("first", {})
    workdir = os.path.join(common.BUILD, "c17")
    os.makedirs(workdir, exist_ok=True)
    sig = rp.get("signature", "")
    if sig.startswith("get-errno-global-fallback") and "script" not in x:
        rc, out, err = run([exe, "--witness", "--iters", "2000000"])
        print(out)
        W = {l.split()[0]: dict(t.split("=", 1) for t in l.split()[1:]) for l in out.splitlines() if l.startswith("W")}
        bad = int(W["W1"]["getA_after_B_failed"]) != int(W["W1solo"]["getA"]) if sig.endswith("same-thread") else int(W["W2"]["nonzero"]) != 0
        return 1 if bad else 0
    if sig == "manager-influenced:concurrent-set-session":
        rc, out, err = run([exe, "--sessrace", "8", "1000000"], timeout=200)
        print(out)
        bad = rc != 0 or any(l.startswith("SR threads=") and ("dup_within_manager=0 dup_overall=0" not in l) for l in out.splitlines())
        return 1 if bad else 0
    if sig == "manager-influenced:concurrent-init":
        rc, out, err = run([exe, "--initrace", "8", "15"], timeout=200)
        print(out)
        bad = rc != 0 or any(l.startswith("IR threads=") and " mismatches=0 " not in l for l in out.splitlines())
        return 1 if bad else 0
    if "script" in x:
        sys.path.insert(0, os.path.join(common.VERIF, "translators"))
        import t6_globals
        one_case.gj = t6_globals.collect(os.path.join(C14._PRIV["dir"], "libIPSec_MB.so.2.0.0"))
        sp = os.path.join(workdir, "replay.script")
        open(sp, "w").write(x["script"])
        items_path = x.get("items_file") or os.path.join(workdir, "items.txt")
        if not os.path.exists(items_path):
            lines, _, _ = make_items(Rng(rp.get("seed", 1)))
            open(items_path, "w").write("\n".join(lines) + "\n")
        merged = [(int(l.split()[1]), l.split(None, 2)[2]) for l in x["script"].splitlines() if l.startswith("O ")]
        r = one_case((exe, workdir, "replay", [tuple(m) for m in x["mgrs"]], None, merged, items_path, x["mode"], x.get("seed", 0)))
        print(json.dumps({k: (sorted(v) if isinstance(v, set) else v) for k, v in r.items() if k != "script"}, indent=1, default=str))
        return 1 if (r["hard"] or r["crashed"]) else 0
    pres = common.props_check(PID)
    print(json.dumps({k: pres[k] for k in ("obligations", "discharged", "failed")}, indent=1))
    return 1 if pres["discharged"] != pres["obligations"] or pres["failed"] else 0
