"""C11 — the key-preparation helpers produce exactly the values the standards define, for every key;
material whose format is common to all variants is interchangeable between them.

Proof: coq/Props/Properties_C11.v (HMAC pad block lengths / long-key rule / MD5 refusal, CMAC sub-key
       doubling at bit level, SM4 dec = reversed enc keys, DES PC-1/PC-2 as key-bit selections, AES
       decrypt-schedule layout, 3GPP IV generator layouts) about the model Spec/KeyPrep.v.
Tie:   harness/k11_keyprep.c runs every helper slot of every variant on generated keys and prints the
       bytes written; ocaml/keyprep_driver.ml (extraction of Spec/KeyPrep.v) prints what the standards
       give; the two must agree byte for byte (spec-vs-output oracle: a disagreement IS a violation of
       the property).  GHASH key-power tables are compared through the model's per-variant layout
       (struct gcm_key_data documents them as a union of architecture-specific layouts, so they are
       required to be interchangeable only between variants of the same layout family).  Material with
       a common format (expanded AES keys, CMAC/XCBC keys, HMAC ipad/opad, DES/SM4/KASUMI/SNOW3G
       schedules) prepared by variant v1 is consumed by a job on variant v2 for all ordered pairs."""
import os, sys, json, time, concurrent.futures as cf
from . import common, c04
from .common import Rng, Result, log

PID = "C11"

HMAC_HASHES = {"sha1": (1, 64, 20), "sha224": (2, 64, 32), "sha256": (3, 64, 32), "sha384": (4, 128, 64),
               "sha512": (5, 128, 64), "md5": (7, 64, 16), "sm3": (48, 64, 32)}   # id, block, state bytes
WEAK_DES = ["0101010101010101", "fefefefefefefefe", "e0e0e0e0f1f1f1f1", "1f1f1f1f0e0e0e0e"]
SEMIWEAK_DES = ["011f011f010e010e", "1f011f010e010e01", "01e001e001f101f1", "e001e001f101f101",
                "01fe01fe01fe01fe", "fe01fe01fe01fe01", "1fe01fe00ef10ef1", "e01fe01ff10ef10e",
                "1ffe1ffe0efe0efe", "fe1ffe1ffe0efe0e", "e0fee0fef1fef1fe", "fee0fee0fef1fef1"]


def layout_of(used_arch, typ):
    """which ghash_keys union member a variant uses (lib/include/gcm_keys_*.inc; struct gcm_key_data)"""
    if used_arch == 1:
        return "sse"
    if used_arch == 2:
        return "avx2" if typ == 1 else "vaes_avx2"
    if used_arch == 3:
        return "avx2" if typ == 1 else "vaes_avx512"
    return None


def fill(n):
    return bytes((0xEE ^ (i & 0xff)) for i in range(n)).hex()


def build_model_driver():
    ok, out = common.coq_make(["Spec/KeyPrep.vo"])
    vsrc = os.path.join(common.COQDIR, "Spec", "KeyPrep.v")
    vo = vsrc + "o"
    if not ok and not (os.path.exists(vo) and os.path.getmtime(vo) >= os.path.getmtime(vsrc)):
        p = common.run(["timeout", "600", "coqc", "-Q", ".", "IMB", "Spec/KeyPrep.v"], cwd=common.COQDIR, timeout=630)
        if p.returncode != 0:
            raise RuntimeError("coq build of Spec/KeyPrep.v failed:\n" + out[-2000:] + p.stdout[-1500:] + p.stderr[-1500:])
    od = os.path.join(common.BUILD, "ocaml")
    os.makedirs(od, exist_ok=True)
    os.makedirs(os.path.join(common.BUILD, "bin"), exist_ok=True)
    exe = os.path.join(common.BUILD, "bin", "keyprep_driver")
    src = os.path.join(common.VERIF, "ocaml", "keyprep_driver.ml")
    ext = os.path.join(common.COQDIR, "Extract", "ExtractKeyPrep.v")
    ml = os.path.join(od, "keyprep_model.ml")
    if (not os.path.exists(ml)) or os.path.getmtime(ml) < max(os.path.getmtime(vo), os.path.getmtime(ext)):
        common.run(["timeout", "600", "coqc", "-Q", common.COQDIR, "IMB", ext], cwd=od, check=True, timeout=630)
    if (not os.path.exists(exe)) or os.path.getmtime(exe) < max(os.path.getmtime(ml), os.path.getmtime(src)):
        common.run("cp %s %s/ && cd %s && timeout 600 ocamlfind ocamlopt -w -a keyprep_model.mli keyprep_model.ml keyprep_driver.ml -o %s"
                   % (src, od, od, exe), check=True, timeout=630)
    return exe


def single_bit_keys(nbytes):
    for bit in range(8 * nbytes):
        b = bytearray(nbytes)
        b[bit // 8] = 0x80 >> (bit % 8)
        yield bytes(b)


def gen_cases(rng, tier):
    """list of (kind, line) — every random choice from rng"""
    cases = []
    nrand = 6 if tier == "quick" else 48

    def add(kind, op, key=None, **kw):
        t = ["id=%d" % (len(cases) + 1), "op=" + op]
        if key is not None:
            t.append("key=" + (key.hex() if key else "-"))
        for k, v in kw.items():
            t.append("%s=%d" % (k, v))
        cases.append((kind, " ".join(t)))

    def keyset(n, allbits=True):
        ks = [bytes(n), b"\xff" * n]
        if allbits:
            ks += list(single_bit_keys(n))
        ks += [rng.bytes(n) for _ in range(nrand)]
        return ks

    for n in (16, 24, 32):
        for k in keyset(n):
            add("aes%d" % (8 * n), "aes_keyexp", k)
    for n in (16, 32):
        for k in keyset(n):
            add("cmac%d" % (8 * n), "cmac_subkey", k)
    for k in keyset(16):
        add("xcbc", "xcbc_keyexp", k)
    for name, (hid, B, sb) in HMAC_HASHES.items():
        for ln in range(0, 2 * B + 4):                    # dense 0 .. 2B+3, incl. the refused MD5 lengths
            add("hmac_" + name, "hmac", rng.bytes(ln), hash=hid)
        for ln in (1, B - 1, B, B + 1, 2 * B):
            add("hmac_" + name, "hmac", bytes(ln), hash=hid)
            add("hmac_" + name, "hmac", b"\xff" * ln, hash=hid)
        if name != "sm3":                                   # no IMB_SM3_ONE_BLOCK slot in IMB_MGR
            for blk in [bytes(B), b"\xff" * B] + [rng.bytes(B) for _ in range(nrand)]:
                add("one_block_" + name, "one_block", blk, hash=hid)
    for n in (16, 24, 32):
        for k in keyset(n, allbits=(tier != "quick" or n == 16)):
            add("gcm_pre%d" % (8 * n), "gcm_pre", k)
        for k in [bytes(n), b"\xff" * n] + [rng.bytes(n) for _ in range(nrand)]:
            add("gcm_precomp%d" % (8 * n), "gcm_precomp", k)
    for k in keyset(16):
        add("ghash_pre", "ghash_pre", k)
    for k in keyset(8) + [bytes.fromhex(x) for x in WEAK_DES + SEMIWEAK_DES]:
        add("des", "des_keysched", k)
    for op in ("sm4_keyexp", "kasumi_f8_sched", "kasumi_f9_sched", "snow3g_sched"):
        for k in keyset(16):
            add(op, op, k)
    counts = [0, 1, 0x80000000, 0xffffffff, 0x12345678] + [rng.below(1 << 32) for _ in range(3 if tier == "quick" else 20)]
    for op in ("iv_zuc_eea3", "iv_zuc_eia3", "iv_snow3g_f8", "iv_kasumi_f8"):
        for c in counts:
            for bearer in list(range(0, 34)) + [255]:
                for d in (0, 1, 2, 255):
                    add(op, op, None, count=c, bearer=bearer, dir=d)
    for c in counts:
        for fr in (0, 0xffffffff, 0x8000, rng.below(1 << 32)):
            for d in (0, 1, 2):
                add("iv_snow3g_f9", "iv_snow3g_f9", None, count=c, fresh=fr, dir=d)
            add("iv_kasumi_f9", "iv_kasumi_f9", None, count=c, fresh=fr)
    return cases


def parse_lines(text):
    out = []
    for l in text.splitlines():
        if l.startswith("id="):
            out.append(dict(t.split("=", 1) for t in l.split() if "=" in t))
    return out


def run_cmd(cmd, timeout=900):
    try:
        p = common.run(cmd, env=common.lib_env(), timeout=timeout)
        return p.stdout, p.returncode
    except Exception as ex:
        o = getattr(ex, "stdout", "") or ""
        if isinstance(o, bytes):
            o = o.decode(errors="replace")
        return o + "\nHARNESS-TIMEOUT\n", -9


def compare(cases, k11_out_by_var, model_lines, vinfo, err_key_len):
    """returns (evaluations, mismatches[list of dict])"""
    kind_of = {}
    line_of = {}
    for kind, line in cases:
        i = int(line.split()[0][3:])
        kind_of[i] = kind
        line_of[i] = line
    model = {}
    for m in model_lines:
        model[(int(m["id"]), m.get("lay", ""))] = m
    ev = 0
    bad = []
    seen = set()
    for var, lines in k11_out_by_var.items():
        for h in lines:
            i = int(h["id"])
            v = h["var"]
            if (i, v) in seen:
                continue
            seen.add((i, v))
            op = h["op"]
            lay = ""
            if op in ("gcm_pre", "gcm_precomp", "ghash_pre"):
                lay = vinfo.get(v, {}).get("layout")
                if lay is None:
                    bad.append(dict(id=i, var=v, op=op, what="variant with unknown GHASH table layout", line=line_of[i]))
                    continue
            m = model.get((i, lay))
            if m is None:
                bad.append(dict(id=i, var=v, op=op, what="no model line", line=line_of[i]))
                continue
            ev += 1
            diffs = []
            if int(h["r"]) != int(m["r"]):
                diffs.append("r")
            if op == "hmac" and int(m["r"]) == err_key_len:
                # refused: outputs must be untouched
                sb = [s for (hid, B, s) in HMAC_HASHES.values() if ("hash=%d " % hid) in line_of[i] + " "][0]
                if h["o1"] != fill(sb) or h["o2"] != fill(sb):
                    diffs.append("outputs-written-on-refusal")
            elif lay:
                if h["o1"] != m["o1"]:
                    diffs.append("o1")
                tbl = m["o2"]
                if not h["o2"].startswith(tbl):
                    diffs.append("o2")
            else:
                for f in ("o1", "o2", "o3"):
                    if h[f] != m[f]:
                        diffs.append(f)
            if h.get("over", "0") != "0":
                diffs.append("over")
            if diffs:
                bad.append(dict(id=i, var=v, op=op, kind=kind_of[i], fields="+".join(diffs), line=line_of[i],
                                lib={k: h[k][:160] for k in ("r", "o1", "o2", "o3")},
                                model={k: m[k][:160] for k in ("r", "o1", "o2", "o3")}, layout=lay))
    return ev, bad


def run_all(k11, drv, cases, workdir, err_key_len, variants=None):
    os.makedirs(workdir, exist_ok=True)
    casefile = os.path.join(workdir, "cases.txt")
    with open(casefile, "w") as f:
        for kind, line in cases:
            f.write(line + "\n")
    # model: shard the case file
    ns = common.NCPU
    shards = []
    for s in range(ns):
        p = os.path.join(workdir, "shard%d.txt" % s)
        with open(p, "w") as f:
            for kind, line in cases[s::ns]:
                f.write(line + "\n")
        shards.append(p)
    vt, _ = run_cmd([k11, os.devnull])
    vinfo = {}
    selftest = {}
    for l in vt.splitlines():
        if l.startswith("selftest "):
            kv = dict(t.split("=", 1) for t in l.split() if "=" in t)
            selftest[kv["var"]] = int(kv["errno"])
        if l.startswith("variant="):
            kv = dict(t.split("=", 1) for t in l.split())
            vinfo[kv["variant"]] = dict(used_arch=int(kv["used_arch"]), type=int(kv["type"][1:]),
                                        layout=layout_of(int(kv["used_arch"]), int(kv["type"][1:])))
    vnames = [v for v in vinfo if (variants is None or v in variants)]
    crashes = []
    with cf.ThreadPoolExecutor(max_workers=common.NCPU) as ex:
        fm = [ex.submit(run_cmd, [drv, p, str(err_key_len)]) for p in shards]
        fh = {v: ex.submit(run_cmd, [k11, casefile, "--variants", v]) for v in vnames}
        model_lines = []
        for fu in fm:
            o, rc = fu.result()
            if rc != 0:
                crashes.append("model driver rc=%s" % rc)
            model_lines += parse_lines(o)
        k11_out = {}
        for v, fu in fh.items():
            o, rc = fu.result()
            for l in o.splitlines():
                if l.startswith("CRASH") or "HARNESS-TIMEOUT" in l:
                    crashes.append("%s: %s" % (v, l))
            k11_out[v] = parse_lines(o)
    if not vinfo:
        crashes.append("no implementation variant could be initialised: " + vt[-300:])
    for v, e in selftest.items():
        if e != 0:
            crashes.append("init of %s fails its power-on self test (errno %d): helper outputs below come from a manager "
                           "initialised anyway to locate the failing key" % (v, e))
    ncase = len(cases)
    for v in vnames:
        ids = set(int(h["id"]) for h in k11_out.get(v, []) if h.get("var") == v)
        nexp = sum(1 for (k, l) in cases if " op=iv_" not in l)
        if len(ids) < nexp:
            crashes.append("%s: only %d of %d cases produced output" % (v, len(ids), nexp))
    return vinfo, k11_out, model_lines, crashes


def main(tier, seed):
    res = Result(PID, tier, seed, "proof")
    tb = common.build_lib()
    C = c04.consts()
    err_key_len = C.get("IMB_ERR_KEY_LEN", 2032)
    for name, (hid, B, sb) in HMAC_HASHES.items():
        cname = {"sha1": "IMB_AUTH_HMAC_SHA_1", "sha224": "IMB_AUTH_HMAC_SHA_224", "sha256": "IMB_AUTH_HMAC_SHA_256",
                 "sha384": "IMB_AUTH_HMAC_SHA_384", "sha512": "IMB_AUTH_HMAC_SHA_512", "md5": "IMB_AUTH_MD5",
                 "sm3": "IMB_AUTH_HMAC_SM3"}[name]
        if C.get(cname) != hid:
            raise RuntimeError("hash id of %s changed in the header: %s" % (cname, C.get(cname)))
    pres = common.props_check(PID, extra_targets=["Props/Examples_C11.vo"])
    common.proof_coverage(res, pres, "make -k Props/Properties_C11.vo (coqc 8.16.1, full .vo) + Print Assumptions",
                          ["Coq 8.16.1 kernel (vm_compute only on the complete 16x48 DES selection table and closed table identities)",
                           "Spec/*.v algorithm specifications (validated by published vectors in Spec/*_Tests.v and Props/Examples_C11.v)",
                           "modelled, not verified: that each helper's machine code computes Spec/KeyPrep.v — tied byte for byte by "
                           "harness/k11_keyprep.c vs the extracted model on every variant",
                           "Coq extraction (ExtrOcamlBasic) + ocaml/keyprep_driver.ml, harness/k11_keyprep.c + imbh.c, this driver",
                           "GHASH table semantics (H^i << 1 mod poly, Karatsuba / x POLY entries) are a transcription of "
                           "lib/include/gcm_*.inc confirmed only by the differential"])
    k11 = common.build_harness("k11_keyprep", extra_src=["imbh.c"])
    drv = build_model_driver()
    rng = Rng(seed)
    cases = gen_cases(rng, tier)
    workdir = os.path.join(common.BUILD, "c11")
    t0 = time.time()
    vinfo, k11_out, model_lines, crashes = run_all(k11, drv, cases, workdir, err_key_len)
    ev, bad = compare(cases, k11_out, model_lines, vinfo, err_key_len)
    t_dump = time.time() - t0
    # cross-variant consumption
    t1 = time.time()
    xo, xrc = run_cmd([k11, "--xv", str(seed)])
    xv_lines = [l for l in xo.splitlines() if l.startswith("xv ")]
    xv_bad = []
    xv_info = {"same": 0, "differ_documented_arch_specific": 0, "same_across_layouts": 0}
    for l in xv_lines:
        kv = dict(t.split("=", 1) for t in l.split() if "=" in t)
        same = " same" in l
        if kv["op"] in ("gcm128", "gcm256", "ghash"):
            l1, l2 = vinfo.get(kv["v1"], {}).get("layout"), vinfo.get(kv["v2"], {}).get("layout")
            if l1 != l2:
                xv_info["same_across_layouts" if same else "differ_documented_arch_specific"] += 1
                continue
        if same:
            xv_info["same"] += 1
        else:
            xv_bad.append(dict(op=kv["op"], v1=kv["v1"], v2=kv["v2"], line=l[:600]))
    if "XV SUMMARY" not in xo:
        crashes.append("k11_keyprep --xv did not finish (rc=%s)" % xrc)
    t_xv = time.time() - t1
    # cross-variant byte identity of common-format material (follows from lib == model on every variant)
    kinds = {}
    for kind, line in cases:
        kinds[kind] = kinds.get(kind, 0) + 1
    known = [l for (k, l) in common.known_findings(PID) if k == "known"]

    def is_known(sig):
        for l in known:
            if ("key=" + sig + " ") in l + " ":
                if l.split(" ", 1)[1] not in res.known:
                    res.known.append(l.split(" ", 1)[1])
                return True
        return False
    groups = {}
    for b in bad:
        sig = "op=%s,arch=%s" % (b["op"], b["var"].split(":")[0])
        if is_known(sig):
            continue
        groups.setdefault((b["op"], b["var"].split(":")[0], b.get("fields", b.get("what"))), b)
    xgroups = {}
    for b in xv_bad:
        sig = "xv=%s" % b["op"]
        if is_known(sig):
            continue
        xgroups.setdefault(b["op"], b)
    lens_hist = {}
    for kind, line in cases:
        if " key=" in line:
            k = line.split(" key=")[1].split()[0]
            n = 0 if k == "-" else len(k) // 2
            b = "0" if n == 0 else "1-15" if n < 16 else "16" if n == 16 else "17-32" if n <= 32 else "33-64" if n <= 64 else "65-128" if n <= 128 else ">128"
            lens_hist[b] = lens_hist.get(b, 0) + 1
    res.coverage.update({
        "evaluations": ev + len(xv_lines),
        "distinct_nontrivial": len(set(l for (k, l) in cases)),
        "rule": "one evaluation = one (case, variant) helper output compared byte for byte (return value / errno, up to three output "
                "buffers, guard bytes) with the extracted model, or one (material kind, v1, v2, direction) cross-variant job; distinct "
                "non-trivial = distinct (helper, key/arguments) cases, each of which produced output on every variant",
        "cases": len(cases), "cases_by_kind": kinds, "key_length_histogram": lens_hist,
        "variants": sorted(vinfo.keys()), "ghash_layout_by_variant": {v: i["layout"] for v, i in vinfo.items()},
        "helper_slots": ["IMB_AES_KEYEXP_128/192/256", "IMB_AES_CMAC_SUBKEY_GEN_128/256", "IMB_AES_XCBC_KEYEXP",
                         "imb_hmac_ipad_opad x7 hashes", "IMB_SHA1/224/256/384/512_ONE_BLOCK", "IMB_MD5_ONE_BLOCK",
                         "IMB_AES128/192/256_GCM_PRE", "IMB_AES128/192/256_GCM_PRECOMP", "IMB_GHASH_PRE", "IMB_DES_KEYSCHED",
                         "IMB_SM4_KEYEXP", "IMB_KASUMI_INIT_F8/F9_KEY_SCHED (+KEY_SCHED_SIZE)", "IMB_SNOW3G_INIT_KEY_SCHED (+SIZE)",
                         "zuc_eea3/eia3_iv_gen", "snow3g_f8/f9_iv_gen", "kasumi_f8/f9_iv_gen"],
        "hmac_key_lengths": "dense 0..2B+3 for each of the 7 hashes (B = 64 / 128), incl. the refused MD5 lengths 65..131",
        "des_special_keys": len(WEAK_DES) + len(SEMIWEAK_DES),
        "cross_variant_jobs": len(xv_lines), "cross_variant": xv_info,
        "gcm_key_data_decision": "intel-ipsec-mb.h documents ghash_keys as a union of sse_avx / avx2_avx512 / vaes_avx2 / vaes_avx512 "
                                 "layouts: tables are checked against the model's layout of each variant and must be interchangeable "
                                 "only inside a layout family; expanded_keys (common prefix) must be identical everywhere",
        "samples": [l for (k, l) in cases[:2]] + [l for (k, l) in cases if " op=hmac" in l][66:67] + xv_lines[:1],
        "mismatches": len(bad), "xv_mismatches": len(xv_bad),
        "lib_build_s": round(tb, 1), "dump_compare_s": round(t_dump, 1), "xv_s": round(t_xv, 1),
        "traces_validated_against_impl": ev,
    })
    broken_proof = pres["discharged"] != pres["obligations"] or pres["failed"] or pres["obligations"] == 0
    for (op, arch, fields), b in list(groups.items())[:8]:
        rp = dict(b)
        rp.update(property=PID, seed=seed, what="key-preparation helper output differs from the value the standard defines (extracted Spec/KeyPrep.v)")
        res.violation(rp, name="%s_%s" % (op, arch))
    for op, b in list(xgroups.items())[:4]:
        rp = dict(b)
        rp.update(property=PID, seed=seed, xv_seed=seed,
                  what="key material prepared by one variant gives a different job result on another variant")
        res.violation(rp, name="xv_%s" % op)
    if crashes:
        res.violation(dict(property=PID, seed=seed, what="crash / hang / missing output / failed manager initialisation while exercising the key-preparation helpers", lines=crashes[:20]),
                      name="crash")
    if broken_proof and not (groups or xgroups or crashes):
        res.violation(dict(property=PID, broken_obligations=pres["failed"], log=pres["log"][-2000:],
                           note="theorems of Props/Properties_C11.v no longer check; the spec-vs-output differential over all helpers found no failing key"),
                      note="no-failing-input-found", name="unproved")
    res.assumptions = ["the helpers' machine code is tied to Spec/KeyPrep.v by differential testing on the generated keys only",
                       "avx2_t3 / avx2_t4 variants cannot run on this host",
                       "imb_sm4_gcm_pre and the SM3 one-block routine (no IMB_MGR slot) are exercised only through imb_hmac_ipad_opad / C03"]
    return res.finish()


def replay(path):
    rp = json.load(open(path))
    common.build_lib()
    C = c04.consts()
    err_key_len = C.get("IMB_ERR_KEY_LEN", 2032)
    k11 = common.build_harness("k11_keyprep", extra_src=["imbh.c"])
    if "xv_seed" in rp:
        xo, _ = run_cmd([k11, "--xv", str(rp["xv_seed"])])
        bad = [l for l in xo.splitlines() if l.startswith("xv ") and " DIFF" in l and ("op=%s " % rp["op"]) in l]
        for l in bad[:10]:
            print(l[:300])
        return 1 if bad else 0
    if "line" not in rp:
        print("nothing to replay:", rp.get("what"))
        return 1
    drv = build_model_driver()
    cases = [(rp.get("kind", "?"), rp["line"])]
    vinfo, k11_out, model_lines, crashes = run_all(k11, drv, cases, os.path.join(common.BUILD, "c11", "replay"), err_key_len)
    ev, bad = compare(cases, k11_out, model_lines, vinfo, err_key_len)
    for b in bad:
        print(b["var"], b["op"], b.get("fields"), b.get("lib"), b.get("model"))
    print("evaluations:", ev, "mismatches:", len(bad), "crashes:", crashes)
    return 1 if (bad or crashes) else 0
