"""C05 — jobs come back exactly once, in order, complete; queue accounting exact.

Proof: coq/Props/Properties_C05.v (ring model Mgr/Ring.v refines a FIFO, all histories).
Tie:   K2 — the extracted model replays traces of the rebuilt library on every variant
       (return values, earliest_job, next_job, errno, completion bitmap after every call).
Search: the FIFO oracle (exactly-once / in-order / size / flush progress) evaluated directly on
       the library trace, independent of the model."""
import os, sys, json, time, concurrent.futures as cf
from . import common, ringgen
from .common import Rng, Result, log

PID = "C05"
VARIANTS = [("sse", 0), ("sse", 1), ("sse", 3), ("avx2", 0), ("avx2", 3), ("avx512", 0), ("avx512", 3)]


def build_model_driver():
    """extract the ring model and build the OCaml trace replayer"""
    ok, out = common.coq_make(["Mgr/RingInst.vo"])
    if not ok:
        raise RuntimeError("coq build of the ring model failed:\n" + out[-3000:])
    od = os.path.join(common.BUILD, "ocaml")
    os.makedirs(od, exist_ok=True)
    exe = os.path.join(common.BUILD, "bin", "ring_driver")
    src = os.path.join(common.VERIF, "ocaml", "ring_driver.ml")
    vo = os.path.join(common.COQDIR, "Mgr", "RingInst.vo")
    ml = os.path.join(od, "ring_model.ml")
    if (not os.path.exists(ml)) or os.path.getmtime(ml) < os.path.getmtime(vo):
        common.run(["coqc", "-Q", "..", "IMB", "ExtractRing.v"], cwd=os.path.join(common.COQDIR, "Extract"), check=True)
        for f in ("ring_model.ml", "ring_model.mli"):
            xd = os.path.join(os.path.dirname(common.COQDIR), "ocaml")      # "../../ocaml" seen from <coq dir>/Extract
            if os.path.realpath(xd) != os.path.realpath(od):
                os.replace(os.path.join(xd, f), os.path.join(od, f))
    if (not os.path.exists(exe)) or os.path.getmtime(exe) < max(os.path.getmtime(ml), os.path.getmtime(src)):
        common.run("cp %s %s/ && cd %s && ocamlfind ocamlopt -w -a ring_model.mli ring_model.ml ring_driver.ml -o %s"
                   % (src, od, od, exe), check=True)
    return exe


def fifo_oracle(trace_lines):
    """The property itself, checked on the library's own trace.  Returns list of violation strings."""
    acc, ret = [], []
    bad = []

    def parse_jobs(s):
        if s in ("-", "none", ""):
            return []
        out = []
        for t in s.split(","):
            o, i, st = t.split(":")
            out.append((int(o), int(i), int(st)))
        return out

    for ln, line in enumerate(trace_lines, 1):
        if not line or line[0] == "#" or line.startswith("I "):
            continue
        pre, post = line.split(" | ")
        pt = pre.split()
        kv = dict(t.split("=", 1) for t in post.split())
        size_before = len(acc) - len(ret)
        got = []
        if pt[0] == "S":
            acc.append(int(pt[3]))
            got = parse_jobs(kv["r"])
            if size_before == 255 and len(got) != 1:
                bad.append("line %d: submit on a full queue did not hand back the oldest job" % ln)
        elif pt[0] == "F":
            got = parse_jobs(kv["r"])
            if (size_before > 0) != (len(got) == 1):
                bad.append("line %d: flush returned %s with queue size %d" % (ln, kv["r"], size_before))
        elif pt[0] == "C":
            got = parse_jobs(kv["r"])
        elif pt[0] == "Q":
            if int(kv["r"]) != size_before:
                bad.append("line %d: queue size %s but submitted-returned = %d" % (ln, kv["r"], size_before))
        elif pt[0] == "N":
            pass
        elif pt[0] == "GB":
            offered = [] if kv["r"] == "-" else [int(x) for x in kv["r"].split(",")]
            want = 0 if (pt[1] == "1" or int(pt[2]) > 128) else min(int(pt[2]), 256 - size_before)
            if len(offered) != want:
                bad.append("line %d: get-next-burst offered %d slots, expected %d" % (ln, len(offered), want))
            if len(set(offered)) != len(offered):
                bad.append("line %d: get-next-burst offered a slot twice" % ln)
        elif pt[0] == "SB":
            cnt, rest = kv["r"].split(":", 1)
            rejected = rest.startswith("rej:") or (int(cnt) == 0 and int(kv["err"]) != 0)
            if not rejected:
                j = [t for t in pt if t.startswith("J=")][0][2:]
                ids = [] if j == "-" else [int(x.split(":")[3]) for x in j.split(";")]
                n = int(pt[2])
                acc.extend(ids[:n])
                got = parse_jobs(rest)
                if int(cnt) != len(got):
                    bad.append("line %d: burst count %s != jobs listed %d" % (ln, cnt, len(got)))
        elif pt[0] == "FB":
            cnt, rest = kv["r"].split(":", 1)
            got = parse_jobs(rest)
            want = 0 if pt[1] == "1" else min(int(pt[2]), size_before)
            if len(got) != want or int(cnt) != want:
                bad.append("line %d: flush-burst returned %s jobs, expected %d" % (ln, cnt, want))
        for (o, i, st) in got:
            k = len(ret)
            if k >= len(acc) or acc[k] != i:
                bad.append("line %d: job id %d handed back out of order / twice / never submitted (expected %s)"
                           % (ln, i, acc[k] if k < len(acc) else "nothing"))
            if st < 3:
                bad.append("line %d: job id %d handed back with partial status %d" % (ln, i, st))
            ret.append(i)
        size_after = len(acc) - len(ret)
        if (int(kv["e"]) < 0) != (size_after == 0):
            bad.append("line %d: earliest_job=%s but %d jobs outstanding" % (ln, kv["e"], size_after))
        if len(bad) > 20:
            break
    return bad, len(acc), len(ret)


def run_history(args):
    idx, ops, arch, flags, k2, drv, workdir = args
    sp = os.path.join(workdir, "s%d.txt" % idx)
    tp = os.path.join(workdir, "t%d.txt" % idx)
    with open(sp, "w") as f:
        f.write("\n".join(ops) + "\n")
    try:
        p = common.run([k2, arch, str(flags), sp], env=common.lib_env(), timeout=90)
        crashed = p.returncode != 0
        out, err = p.stdout, p.stderr
    except Exception as ex:   # a hang inside the library is a failure of the property, not of the check
        crashed = True
        out = (getattr(ex, "stdout", None) or "")
        if isinstance(out, bytes):
            out = out.decode(errors="replace")
        err = "harness did not terminate within 90 s (hang)"
    with open(tp, "w") as f:
        f.write(out)
    raw = [l for l in out.splitlines() if " | " in l or l.startswith("#")]
    lines = [l for l in raw if l.startswith("#") or (" e=" in l and " n=" in l and " err=" in l and " done=" in l and len(l.rsplit("done=", 1)[1]) == 64)]
    if len(lines) != len(raw):
        crashed = True      # the harness died in the middle of a line
        err = (err or "") + " (trace truncated)"
    class P: pass
    p = P(); p.stderr = err
    with open(tp, "w") as f:
        f.write("\n".join(lines) + "\n")
    d = common.run([drv, tp], timeout=600)
    summ = [l for l in d.stdout.splitlines() if l.startswith("SUMMARY")]
    mism = [l for l in d.stdout.splitlines() if l.startswith("MISMATCH") or l.startswith("CONTRACT")]
    if d.returncode != 0 and not summ:
        mism.append("driver failed: " + d.stderr[-300:])
    bad, nacc, nret = fifo_oracle(lines)
    stats = dict(t.split("=") for t in summ[0].split()[1:]) if summ else {}
    os.remove(sp)
    return dict(idx=idx, arch=arch, flags=flags, crashed=crashed, stderr=p.stderr[-500:], mism=mism[:5], nmism=len(mism),
                oracle=bad[:5], nacc=nacc, nret=nret, stats=stats, trace=tp, ops=ops)


def shrink(ops, arch, flags, k2, drv, workdir, pred):
    """delta-debug the op list while pred(result) stays true"""
    cur = ops
    n = 2
    idx = 900000
    t_end = time.time() + 60      # shrinking is a convenience: bounded budget
    while len(cur) >= 2 and time.time() < t_end:
        chunk = max(1, len(cur) // n)
        reduced = False
        for i in range(0, len(cur), chunk):
            if time.time() > t_end:
                break
            cand = cur[:i] + cur[i + chunk:]
            idx += 1
            r = run_history((idx, cand, arch, flags, k2, drv, workdir))
            if pred(r):
                cur = cand
                n = max(n - 1, 2)
                reduced = True
                break
        if not reduced:
            if chunk == 1:
                break
            n = min(n * 2, len(cur))
    return cur


def histories(rng, tier):
    hs = []
    nj = 8 if tier == "quick" else 80
    for i in range(nj):
        style = ["mixed", "full", "edge", "drain"][i % 4]
        pre = ringgen.rotate_prefix(rng, rng.below(256)) if tier != "quick" or i % 2 else []
        hs.append(("job/" + style, pre + ringgen.job_history(rng, 300 if tier == "quick" else 1500, style)))
    nb = 8 if tier == "quick" else 64
    for i in range(nb):
        style = ["mixed", "sizes", "full", "errors"][i % 4]
        pre = ringgen.rotate_prefix(rng, rng.below(256))
        hs.append(("burst/" + style, pre + ringgen.burst_history(rng, 120 if tier == "quick" else 600, style)))
    for i in range(2 if tier == "quick" else 16):
        hs.append(("mixed", ringgen.mixed_history(rng, 300 if tier == "quick" else 2000)))
    return hs


def main(tier, seed):
    res = Result(PID, tier, seed, "proof")
    tb = common.build_lib()
    sys.path.insert(0, os.path.join(common.VERIF, "translators"))
    import t0_consts
    t0_consts.main()
    pres = common.props_check(PID)
    common.proof_coverage(res, pres, "make -k Props/Properties_C05.vo (coqc 8.16.1, full .vo) + Print Assumptions",
                          ["Coq 8.16.1 kernel (vm_compute not used in these proofs)",
                           "translators/t0_consts.py (constants printed by a C program compiled against lib/intel-ipsec-mb.h)",
                           "extraction (ExtrOcamlBasic only) + ocaml/ring_driver.ml + harness/k2_ring.c (correspondence K2)",
                           "modelled, not verified: the C compiler's translation of mb_mgr_code.h / mb_mgr_job_api.h / mb_mgr_burst_async.h; "
                           "the out-of-order managers are an oracle constrained by op_ok (checked on every observed call)"])
    k2 = common.build_harness("k2_ring")
    drv = build_model_driver()
    rng = Rng(seed)
    hs = histories(rng, tier)
    workdir = os.path.join(common.BUILD, "c05")
    os.makedirs(workdir, exist_ok=True)
    jobs = []
    for i, (style, ops) in enumerate(hs):
        arch, flags = VARIANTS[i % len(VARIANTS)] if tier == "quick" else (None, None)
        if tier == "quick":
            jobs.append((i, ops, arch, flags, k2, drv, workdir))
        else:
            for vi, (arch, flags) in enumerate(VARIANTS):
                if vi == i % len(VARIANTS) or i % 4 == 0:
                    jobs.append((i * 10 + vi, ops, arch, flags, k2, drv, workdir))
    results = []
    with cf.ThreadPoolExecutor(max_workers=common.NCPU) as ex:
        for r in ex.map(run_history, jobs):
            results.append(r)
    nops = sum(int(r["stats"].get("ops", 0)) for r in results)
    nontrivial = sum(1 for r in results if int(r["stats"].get("maxq", 0)) >= 200 or int(r["stats"].get("wraps", 0)) >= 1)
    ophist = {}
    for r in results:
        for o in r["ops"]:
            k = o.split()[0]
            ophist[k] = ophist.get(k, 0) + 1
    res.coverage.update({
        "evaluations": len(results), "distinct_nontrivial": nontrivial,
        "rule": "one evaluation = one API-call history replayed on one variant and compared call by call with the "
                "extracted model (return values, earliest_job, next_job, errno, 256-slot completion bitmap) and checked "
                "against the FIFO oracle; non-trivial = the history reaches queue size >= 200 or wraps the ring",
        "api_calls_compared": nops, "op_histogram": ophist,
        "max_queue_seen": max([int(r["stats"].get("maxq", 0)) for r in results] + [0]),
        "variants": sorted(set("%s:f%d" % (r["arch"], r["flags"]) for r in results)),
        "samples": [{"style": hs[0][0], "first_ops": hs[0][1][:12]}, {"style": hs[-1][0], "first_ops": hs[-1][1][:8]}],
        "lib_build_s": round(tb, 1),
    })
    # verdicts
    for f in pres["failed"]:
        log("proof obligation failed:", f)
    broken_proof = pres["discharged"] != pres["obligations"] or pres["failed"] or pres["obligations"] == 0
    prop_fail = [r for r in results if r["oracle"] or r["crashed"]]
    corr_fail = [r for r in results if r["nmism"] and not (r["oracle"] or r["crashed"])]
    reported = False
    for r in prop_fail[:2]:
        pred = lambda x: bool(x["oracle"]) or x["crashed"]
        ops = shrink(r["ops"], r["arch"], r["flags"], k2, drv, workdir, pred) if len(r["ops"]) < 4000 else r["ops"]
        rr = run_history((990000 + r["idx"], ops, r["arch"], r["flags"], k2, drv, workdir))
        res.violation({"property": PID, "kind": "library trace violates the FIFO oracle", "arch": r["arch"], "flags": r["flags"],
                       "ops": ops, "oracle": rr["oracle"] or r["oracle"], "crashed": rr["crashed"], "stderr": rr["stderr"], "seed": seed},
                      name="fifo_%s_%d" % (r["arch"], r["idx"]))
        reported = True
    if (corr_fail or broken_proof) and not reported:
        # model != code or broken obligation, but no history so far fails the property: search harder
        rng2 = Rng(seed + 7919)
        extra = histories(rng2, "quick")
        found = None
        for i, (style, ops) in enumerate(extra):
            for arch, flags in VARIANTS[:: 3 if tier == "quick" else 1]:
                r = run_history((800000 + i, ops, arch, flags, k2, drv, workdir))
                if r["oracle"] or r["crashed"]:
                    found = r
                    break
            if found:
                break
        if found:
            res.violation({"property": PID, "kind": "library trace violates the FIFO oracle (found by the failing-input search)",
                           "arch": found["arch"], "flags": found["flags"], "ops": found["ops"], "oracle": found["oracle"], "seed": seed},
                          name="fifo_search")
        else:
            what = {"property": PID, "seed": seed, "broken_obligations": pres["failed"],
                    "proof_log_tail": pres["log"][-2000:] if broken_proof else "",
                    "correspondence": [{"arch": r["arch"], "flags": r["flags"], "mismatches": r["mism"], "ops": r["ops"][:400]}
                                       for r in corr_fail[:2]],
                    "note": "the ring model (Mgr/Ring.v) / theorems of Props/Properties_C05.v no longer check against this tree; "
                            "no API-call history violating the FIFO oracle was found"}
            res.violation(what, note="no-failing-input-found", name="unproved")
    res.coverage["traces_validated_against_impl"] = len(results)
    res.assumptions = ["oracle contract op_ok for the out-of-order managers (checked on each observed call; proved for modelled managers under C04)",
                       "null-manager argument paths are not modelled"]
    return res.finish()


def replay(path):
    rp = json.load(open(path))
    common.build_lib()
    k2 = common.build_harness("k2_ring")
    drv = build_model_driver()
    workdir = os.path.join(common.BUILD, "c05")
    os.makedirs(workdir, exist_ok=True)
    ops = rp.get("ops") or rp["correspondence"][0]["ops"]
    arch = rp.get("arch") or rp["correspondence"][0]["arch"]
    flags = rp.get("flags", 0)
    r = run_history((1, ops, arch, flags, k2, drv, workdir))
    print(json.dumps({k: r[k] for k in ("crashed", "mism", "oracle", "stats")}, indent=1))
    return 1 if (r["oracle"] or r["crashed"] or r["nmism"]) else 0
