"""C10 — streaming / scatter-gather results do not depend on segmentation.

Proof:  coq/Props/Properties_C10.v — for ALL messages and ALL segment lists (including empty
        segments), both directions: the ChaCha20-Poly1305 streaming state machine
        (Struct/ChachaStream.v, statement-by-statement model of lib/x86_64/chacha20_poly1305.c)
        and the AES-GCM / GMAC state machine (Struct/GcmStream.v) produce the one-shot Spec value.
Tie:    K10 state-level correspondence — harness/k10_stream.c dumps the public context struct
        after EVERY library call on every variant; the extracted model (ocaml/stream_driver.ml)
        prints the same lines; compared line by line.
Search: one-shot vs segmented evaluated on the library alone (no model involved); the segment
        list of a failing case is shrunk before it is reported."""
import os, sys, json, time, itertools, concurrent.futures as cf
from . import common
from .common import Rng, Result, log

PID = "C10"
CH_FORMS = ["direct", "job", "jobu", "all"]
GCM_FORMS = ["direct", "directv", "job", "all"]
WORK = os.path.join(common.BUILD, "c10")


# ----------------------------------------------------------------------------------------------
# building the model driver

def build_model_driver():
    ok, out = common.coq_make(["Struct/ChachaStream.vo", "Struct/GcmStream.vo"])
    if not ok:
        raise RuntimeError("coq build of the streaming models failed:\n" + out[-3000:])
    od = os.path.join(common.BUILD, "ocaml")
    os.makedirs(od, exist_ok=True)
    os.makedirs(os.path.join(common.BUILD, "bin"), exist_ok=True)
    exe = os.path.join(common.BUILD, "bin", "stream_driver")
    src = os.path.join(common.VERIF, "ocaml", "stream_driver.ml")
    ext = os.path.join(common.COQDIR, "Extract", "ExtractStream.v")
    vos = [os.path.join(common.COQDIR, "Struct", f) for f in ("ChachaStream.vo", "GcmStream.vo")]
    ml = os.path.join(od, "stream_model.ml")
    if (not os.path.exists(ml)) or os.path.getmtime(ml) < max([os.path.getmtime(v) for v in vos] + [os.path.getmtime(ext)]):
        common.run(["timeout", "600", "coqc", "-Q", common.COQDIR, "IMB", ext], cwd=od, check=True)
    if (not os.path.exists(exe)) or os.path.getmtime(exe) < max(os.path.getmtime(ml), os.path.getmtime(src)):
        common.run("cp %s %s/ && cd %s && ocamlfind ocamlopt -w -a stream_model.mli stream_model.ml stream_driver.ml -o %s"
                   % (src, od, od, exe), check=True, timeout=600)
    return exe


# ----------------------------------------------------------------------------------------------
# case generation

def compositions(total, k):
    """all ordered k-tuples of non-negative integers summing to total"""
    if k == 1:
        yield (total,)
        return
    for a in range(total + 1):
        for rest in compositions(total - a, k - 1):
            yield (a,) + rest


def biased_splits(rng, length, nseg):
    """nseg segment lengths summing to length; split points biased to 16k-1,16k,16k+1,64k-1,64k+1,0,len"""
    pts = []
    for _ in range(nseg - 1):
        r = rng.below(10)
        if length == 0 or r == 0:
            p = 0
        elif r == 1:
            p = length
        elif r <= 5:
            p = 16 * rng.below(length // 16 + 1) + rng.choice([-1, 0, 1])
        elif r <= 7:
            p = 64 * rng.below(length // 64 + 1) + rng.choice([-1, 1])
        else:
            p = rng.below(length + 1)
        pts.append(min(max(p, 0), length))
    pts.sort()
    cuts = [0] + pts + [length]
    return tuple(cuts[i + 1] - cuts[i] for i in range(len(cuts) - 1))


def mk_case(cid, alg, form, d, key, iv, aad, msg, segs, taglen=16, inplace=0, family=""):
    return dict(id=cid, alg=alg, form=form, dir=d, key=key, iv=iv, aad=aad, msg=msg, segs=tuple(segs),
                taglen=taglen, inplace=inplace, family=family)


def case_line(c):
    hx = lambda b: b.hex() if b else "-"
    sg = ",".join(str(s) for s in c["segs"]) if c["segs"] else "-"
    lz = (" lazy=" + ",".join(str(i) for i in c["lazy"])) if c.get("lazy") else ""
    return ("id=%d alg=%s form=%s dir=%d key=%s iv=%s aad=%s msg=%s segs=%s taglen=%d inplace=%d%s"
            % (c["id"], c["alg"], c["form"], c["dir"], hx(c["key"]), hx(c["iv"]), hx(c["aad"]), hx(c["msg"]),
               sg, c["taglen"], c["inplace"], lz))


def gen_cases(rng, tier):
    cases = []
    nid = [0]

    def add(alg, form, d, key, iv, aad, msg, segs, taglen=16, inplace=0, family=""):
        nid[0] += 1
        cases.append(mk_case(nid[0], alg, form, d, key, iv, aad, msg, segs, taglen, inplace, family))

    # --- exhaustive partitions into <= 3 segments (zero-length segments at every position)
    lmax = 20 if tier == "quick" else 48
    fixed = {}
    for alg in ("chacha", "gcm", "gmac"):
        for ks in ((32,) if alg == "chacha" else (16, 24, 32)):
            fixed[(alg, ks)] = (rng.bytes(ks), rng.bytes(12), rng.bytes(13 if alg == "gcm" else 0) if alg != "chacha" else rng.bytes(7))
    big = rng.bytes(64)
    i = 0
    for L in range(lmax + 1):
        msg = big[:L]
        for k in (1, 2, 3):
            for segs in compositions(L, k):
                i += 1
                # chacha: rotate form and direction over the partitions, every partition is run
                key, iv, aad = fixed[("chacha", 32)]
                add("chacha", CH_FORMS[i % 4], 1 + (i // 4) % 2, key, iv, aad, msg, segs, family="exh")
                ks = (16, 24, 32)[i % 3]
                key, iv, aad = fixed[("gcm", ks)]
                add("gcm", GCM_FORMS[(i // 3) % 4], 1 + (i // 12) % 2, key, iv, aad, msg, segs, family="exh")
                if i % 2 == 0:
                    ks = (16, 24, 32)[(i // 2) % 3]
                    key, iv, _ = fixed[("gmac", ks)]
                    add("gmac", "direct", 1, key, iv, b"", msg, segs, family="exh")
    # every form x direction x key size also sees ALL partitions of a few short lengths
    for L in ((5, 17) if tier == "quick" else (5, 16, 17, 33)):
        msg = big[:L]
        for k in (1, 2, 3):
            for segs in compositions(L, k):
                for d in (1, 2):
                    key, iv, aad = fixed[("chacha", 32)]
                    for f in CH_FORMS:
                        add("chacha", f, d, key, iv, aad, msg, segs, family="exh-all-forms")
                    for ks in (16, 24, 32):
                        key, iv, aad = fixed[("gcm", ks)]
                        for f in GCM_FORMS:
                            add("gcm", f, d, key, iv, aad, msg, segs, family="exh-all-forms")
    # --- random partitions, split points biased to block boundaries +-1
    nrand = 360 if tier == "quick" else 3600
    for j in range(nrand):
        alg = ("chacha", "gcm", "gcm", "gmac", "chacha")[j % 5]
        r = rng.below(10)
        if r < 4:
            L = rng.below(201)
        elif r < 8:
            L = rng.below(1100)
        else:
            L = rng.below(4201)
        nseg = 1 + rng.below(12)
        segs = biased_splits(rng, L, nseg)
        msg = rng.bytes(L)
        aad = rng.bytes(rng.below(41))
        d = 1 + rng.below(2)
        inplace = rng.below(2)
        if alg == "chacha":
            add(alg, rng.choice(CH_FORMS), d, rng.bytes(32), rng.bytes(12), aad, msg, segs,
                taglen=16, inplace=inplace, family="rand")
        elif alg == "gcm":
            form = rng.choice(GCM_FORMS)
            ivl = 12 if rng.chance(2, 3) else rng.choice([1, 7, 8, 13, 16, 17, 31, 32, 60])
            add(alg, form, d, rng.bytes(rng.choice([16, 24, 32])), rng.bytes(ivl), aad, msg, segs,
                taglen=rng.choice([16, 16, 12, 8, 4, 13]), inplace=inplace, family="rand")
        else:
            ivl = 12 if rng.chance(2, 3) else rng.choice([1, 8, 13, 16, 33])
            add(alg, "direct", 1, rng.bytes(rng.choice([16, 24, 32])), rng.bytes(ivl), b"", msg, segs,
                taglen=rng.choice([16, 12, 8]), inplace=0, family="rand")
    # long segments: the by-4/8/16-block loops of the key-stream and GHASH kernels, segment ends at
    # 64k / 256k / 1024k +-1, few segments so that single segments are long
    nbig = 60 if tier == "quick" else 700
    for j in range(nbig):
        alg = ("chacha", "gcm", "chacha", "gcm", "gmac")[j % 5]
        nseg = 1 + rng.below(4)
        base = rng.choice([256, 512, 768, 1024, 2048, 3072, 4096]) if rng.chance(2, 3) else 64 * rng.below(66)
        L = max(0, min(4200, base + rng.choice([-65, -17, -16, -15, -1, 0, 0, 1, 15, 16, 17, 63, 64, 65])))
        pts = sorted(min(L, max(0, rng.choice([64, 128, 192, 256, 512, 1024]) * rng.below(5) + rng.choice([-1, 0, 0, 1, 7])))
                     for _ in range(nseg - 1))
        cuts = [0] + pts + [L]
        segs = tuple(cuts[i + 1] - cuts[i] for i in range(len(cuts) - 1))
        msg = rng.bytes(L)
        aad = rng.bytes(rng.choice([0, 1, 12, 16, 20, 40, 63, 64, 65, 257]))
        d = 1 + rng.below(2)
        if alg == "chacha":
            add(alg, rng.choice(CH_FORMS), d, rng.bytes(32), rng.bytes(12), aad, msg, segs, inplace=rng.below(2), family="big")
        elif alg == "gcm":
            add(alg, rng.choice(GCM_FORMS), d, rng.bytes(rng.choice([16, 24, 32])), rng.bytes(rng.choice([12, 12, 16, 8])),
                aad, msg, segs, taglen=rng.choice([16, 12]), inplace=rng.below(2), family="big")
        else:
            add(alg, "direct", 1, rng.bytes(rng.choice([16, 24, 32])), rng.bytes(12), b"", msg, segs, taglen=16, family="big")
    # counter low-byte wrap: the GCM kernels increment the big-endian counter with a 32-bit add while the low
    # byte cannot wrap and take a byte-swapping path otherwise; which path a segment takes depends on the counter
    # saved in the context.  With a 12-byte IV data block n uses counter n + 2, so the low byte wraps at block
    # 254 (+256k).  Segments start t blocks before (or just after) the wrap for every t the by-16/32/48 kernels
    # can distinguish, with and without a pending partial block, and continue for each length class of the kernels.
    wraps = (1,) if tier == "quick" else (1, 2)
    tvals = list(range(-2, 52))
    for w in wraps:
        nwrap = 256 * w - 2
        for t in tvals:
            classes = [(1, 256), (257, 511), (512, 767), (768, 1100)]
            if tier == "quick":
                classes = [classes[rng.below(4)], classes[rng.below(4)]]
            for (lo, hi) in classes:
                n0 = nwrap - t
                delta = rng.choice([0, 0, 0, 3, 12, 15])
                p0 = 16 * n0 + delta
                seglen = lo + rng.below(hi - lo + 1)
                tail = rng.choice([0, 0, 1, 17, 300])
                L = p0 + seglen + tail
                pre = biased_splits(rng, p0, 1 + rng.below(3))
                segs = tuple(pre) + (seglen,) + ((tail,) if (tail or rng.chance(1, 4)) else ())
                msg = rng.bytes(L)
                add("gcm", rng.choice(GCM_FORMS), 1 + rng.below(2), rng.bytes(rng.choice([16, 24, 32])), rng.bytes(12),
                    rng.bytes(rng.choice([0, 13, 20])), msg, segs, taglen=16, inplace=rng.below(2), family="ctrwrap")
    # no segment at all (empty message): num_sgl_io_segs = 0, init directly followed by finalize
    for d in (1, 2):
        for f in CH_FORMS:
            add("chacha", f, d, rng.bytes(32), rng.bytes(12), rng.bytes(9), b"", (), family="noseg")
        for f in GCM_FORMS:
            add("gcm", f, d, rng.bytes(16), rng.bytes(12), rng.bytes(9), b"", (), family="noseg")
    add("gmac", "direct", 1, rng.bytes(32), rng.bytes(12), b"", b"", (), family="noseg")
    # direct ChaCha finalize with shorter tags (tag_len parameter of the direct API)
    for tl in (1, 8, 12, 15):
        L = 70 + tl
        add("chacha", "direct", 1 + tl % 2, rng.bytes(32), rng.bytes(12), rng.bytes(tl), rng.bytes(L),
            biased_splits(rng, L, 4), taglen=tl, family="rand")
    return cases


def oneshot_cases(cases, first_id):
    """one plain (non-SGL) job per distinct (alg, key, iv, aad, msg, dir, taglen): the oracle's reference"""
    ref = {}
    out = []
    nid = first_id
    for c in cases:
        d = 1 if c["alg"] == "gmac" else c["dir"]
        tl = 16 if c["alg"] == "chacha" else c["taglen"]
        k = (c["alg"], c["key"], c["iv"], c["aad"], c["msg"], d, tl)
        if k not in ref:
            nid += 1
            ref[k] = nid
            out.append(mk_case(nid, c["alg"], "oneshot", d, c["key"], c["iv"], c["aad"], c["msg"], (), tl, 0, "oneshot"))
        c["ref"] = ref[k]
    return out


# ----------------------------------------------------------------------------------------------
# running

def parse_lines(text):
    """-> {var: {(id, kind, call): rest-of-line}} plus order"""
    res = {}
    for line in text.splitlines():
        if not line or line[0] not in "CRE":
            continue
        toks = line.split(" ", 4)
        kind = toks[0]
        cid = int(toks[1][3:])
        var = toks[2][4:] if toks[2].startswith("var=") else "?"
        if kind == "C":
            call = int(toks[3][5:])
            rest = toks[4]
        else:
            call = 0
            rest = " ".join(toks[3:])
        res.setdefault(var, {})[(cid, kind, call)] = rest
    return res


def run_shard(args):
    """runs one shard file through the harness (all variants) and through the model"""
    idx, path, k10, drv, want_model = args
    t0 = time.time()
    crashed = None
    try:
        p = common.run([k10, path], env=common.lib_env(), timeout=900)
        out = p.stdout
        if p.returncode != 0:
            cl = [l for l in out.splitlines() if l.startswith("CRASH ")]
            crashed = ("fault inside the library (access outside a caller buffer: every segment ends at an inaccessible page): "
                       + cl[0] if cl else "harness exit code %d: %s" % (p.returncode, p.stderr[-300:]))
    except Exception as ex:
        out = getattr(ex, "stdout", None) or ""
        if isinstance(out, bytes):
            out = out.decode(errors="replace")
        crashed = "harness did not terminate within 900 s"
    lib = parse_lines(out)
    variants = [l.split()[1][4:] for l in out.splitlines() if l.startswith("V ")]
    model = {}
    merr = None
    if want_model:
        try:
            m = common.run([drv, path], timeout=900)
            if m.returncode != 0:
                merr = "model driver failed: " + m.stderr[-300:]
            model = parse_lines(m.stdout).get("MODEL", {})
        except Exception as ex:
            merr = "model driver did not terminate: %r" % (ex,)
    return dict(idx=idx, lib=lib, model=model, variants=variants, crashed=crashed, merr=merr,
                t=time.time() - t0)


def field_diff(a, b):
    """names of the key=value fields that differ between two dump strings"""
    fa = dict(t.split("=", 1) for t in a.split() if "=" in t)
    fb = dict(t.split("=", 1) for t in b.split() if "=" in t)
    return sorted(k for k in set(fa) | set(fb) if fa.get(k) != fb.get(k))


def write_shards(cases, n, tag):
    os.makedirs(WORK, exist_ok=True)
    paths = []
    shards = [[] for _ in range(n)]
    # round-robin by cost so that shards finish together
    order = sorted(cases, key=lambda c: -len(c["msg"]))
    for i, c in enumerate(order):
        shards[i % n].append(c)
    for i, sh in enumerate(shards):
        if not sh:
            continue
        p = os.path.join(WORK, "%s_%02d.txt" % (tag, i))
        with open(p, "w") as f:
            for c in sh:
                f.write(case_line(c) + "\n")
        paths.append(p)
    return paths


def evaluate(cases, k10, drv, want_model=True, tag="cases", nshards=None):
    """Runs cases (+ their one-shot references).  Returns a dict with
       oracle failures (library alone), correspondence mismatches (library vs model), crashes."""
    refs = oneshot_cases(cases, max(c["id"] for c in cases) if cases else 0)
    allc = cases + refs
    byid = {c["id"]: c for c in allc}
    paths = write_shards(allc, nshards or common.NCPU, tag)
    jobs = [(i, p, k10, drv, want_model) for i, p in enumerate(paths)]
    results = []
    with cf.ThreadPoolExecutor(max_workers=common.NCPU) as ex:
        for r in ex.map(run_shard, jobs):
            results.append(r)
    lib = {}
    model = {}
    variants = []
    crashes = []
    for r in results:
        for v, d in r["lib"].items():
            lib.setdefault(v, {}).update(d)
        model.update(r["model"])
        for v in r["variants"]:
            if v not in variants:
                variants.append(v)
        if r["crashed"]:
            crashes.append((paths[r["idx"]], r["crashed"]))
        if r["merr"]:
            crashes.append((paths[r["idx"]], r["merr"]))
    oracle = []     # (case, variant, what, seg_result, ref_result)
    corr = []       # (case, variant, key, fields, lib_line, model_line)
    compared_lines = 0
    compared_runs = 0
    for v in variants:
        lv = lib.get(v, {})
        for c in cases:
            rk = (c["id"], "R", 0)
            got = lv.get(rk)
            ref = lv.get((c["ref"], "R", 0))
            if got is None or ref is None:
                oracle.append((c, v, "missing-result", got, ref))
                continue
            compared_runs += 1
            g = dict(t.split("=", 1) for t in got.split())
            rf = dict(t.split("=", 1) for t in ref.split())
            tl = c["taglen"] * 2
            if c["alg"] != "gmac" and g.get("out") != rf.get("out"):
                oracle.append((c, v, "out", got, ref))
            elif g.get("tag", "")[:tl] != rf.get("tag", "")[:tl]:
                oracle.append((c, v, "tag", got, ref))
        if want_model:
            for key, mline in model.items():
                cid = key[0]
                if byid[cid]["form"] == "oneshot":
                    continue
                lline = lv.get(key)
                compared_lines += 1
                if lline != mline:
                    fields = field_diff(lline or "", mline) if lline else ["missing"]
                    corr.append((byid[cid], v, key, fields, lline, mline))
    # model-side lines that the library printed but the model did not
    if want_model:
        for v in variants:
            for key in lib.get(v, {}):
                if byid.get(key[0], {}).get("form") != "oneshot" and key not in model and key[1] != "E":
                    corr.append((byid[key[0]], v, key, ["extra-library-line"], lib[v][key], None))
    lazy_resolved = 0
    if want_model and corr:
        corr, lazy_resolved = resolve_lazy(corr, lib, byid, drv)
    return dict(oracle=oracle, corr=corr, crashes=crashes, variants=variants, lib=lib, model=model,
                compared_lines=compared_lines, compared_runs=compared_runs, refs=len(refs), lazy_resolved=lazy_resolved,
                shard_times=[round(r["t"], 1) for r in results])


def resolve_lazy(corr, lib, byid, drv):
    """GCM only.  Some variants (VAES/AVX512) may leave the last WHOLE block of an update pending
    (partial_block_length = 16, GHASH multiplication deferred to the next call).  The model has
    this freedom as an explicit policy argument (Struct/GcmStream.v [lazy]); the choice actually
    made is read off the library's own dump and the model is re-run with it.  Anything that still
    differs afterwards stays a correspondence mismatch."""
    groups = {}
    for x in corr:
        groups.setdefault((x[0]["id"], x[1]), []).append(x)
    redo = []
    for (cid, v), xs in groups.items():
        c = byid[cid]
        if c["alg"] != "gcm":
            continue
        lines = sorted((k, r) for k, r in lib[v].items() if k[0] == cid and k[1] == "C")
        hints = []
        if c["form"] == "all":
            if lines and " pbl=16 " in lines[0][1]:
                hints = [sum(1 for sl in c["segs"] if sl > 0) - 1]
        else:
            for (k, r) in lines:
                if " pbl=16 " in r and ("op=update" in r or "op=job-update" in r):
                    hints.append(k[2] - 1)
        if hints:
            redo.append((cid, v, hints))
    if not redo:
        return corr, 0
    path = os.path.join(WORK, "lazy_%d.txt" % os.getpid())
    with open(path, "w") as f:
        for i, (cid, v, hints) in enumerate(redo):
            f.write(case_line(dict(byid[cid], id=i + 1, lazy=hints)) + "\n")
    m = common.run([drv, path], timeout=900)
    mm = parse_lines(m.stdout).get("MODEL", {})
    resolved = set()
    for i, (cid, v, hints) in enumerate(redo):
        ml = {(k[1], k[2]): r for k, r in mm.items() if k[0] == i + 1}
        ll = {(k[1], k[2]): r for k, r in lib[v].items() if k[0] == cid}
        if ml and ml == ll:
            resolved.add((cid, v))
    left = [x for x in corr if (x[0]["id"], x[1]) not in resolved]
    return left, len(resolved)


# ----------------------------------------------------------------------------------------------
# shrinking a case that fails the one-shot-vs-segmented oracle

def oracle_fails(c, variant, k10, drv):
    c = dict(c)
    c["id"] = 1
    ev = evaluate([c], k10, drv, want_model=False, tag="shrink", nshards=1)
    return any(o[1] == variant for o in ev["oracle"]) or bool(ev["crashes"])


def shrink_case(c, variant, k10, drv, budget=160):
    cur = dict(c)
    n = 0
    changed = True
    while changed and n < budget:
        changed = False
        segs = list(cur["segs"])
        cands = []
        # drop the tail of the message (last segment shorter / removed)
        if segs and segs[-1] > 0:
            for cut in (segs[-1], segs[-1] // 2, 64, 16, 1):
                if 0 < cut <= segs[-1]:
                    s2 = segs[:-1] + [segs[-1] - cut]
                    cands.append((s2, cur["msg"][:len(cur["msg"]) - cut]))
        if len(segs) > 1 and segs[-1] == 0:
            cands.append((segs[:-1], cur["msg"]))
        # merge adjacent segments
        for i in range(len(segs) - 1):
            cands.append((segs[:i] + [segs[i] + segs[i + 1]] + segs[i + 2:], cur["msg"]))
        # drop the head of the message
        if segs and segs[0] > 0:
            for cut in (segs[0], segs[0] // 2, 1024, 256, 64, 16, 1):
                if 0 < cut <= segs[0]:
                    cands.append(([segs[0] - cut] + segs[1:], cur["msg"][cut:]))
        # shorter aad
        aads = [b"", cur["aad"][:len(cur["aad"]) // 2]] if cur["aad"] else []
        for s2, m2 in cands:
            n += 1
            t = dict(cur, segs=tuple(s2), msg=m2)
            if oracle_fails(t, variant, k10, drv):
                cur = t
                changed = True
                break
            if n >= budget:
                break
        if not changed:
            for a2 in aads:
                n += 1
                t = dict(cur, aad=a2)
                if a2 != cur["aad"] and oracle_fails(t, variant, k10, drv):
                    cur = t
                    changed = True
                    break
    return cur


def case_json(c):
    return {k: (v.hex() if isinstance(v, (bytes, bytearray)) else list(v) if isinstance(v, tuple) else v)
            for k, v in c.items() if k not in ("ref",)}


def case_from_json(j):
    c = dict(j)
    for k in ("key", "iv", "aad", "msg"):
        c[k] = bytes.fromhex(c[k]) if c.get(k) else b""
    c["segs"] = tuple(c["segs"])
    return c


# ----------------------------------------------------------------------------------------------

def nontrivial(c):
    """>= 2 non-empty segments with a split that is not on a 16-byte boundary"""
    ne = [s for s in c["segs"] if s > 0]
    if len(ne) < 2:
        return False
    pos = 0
    for s in c["segs"][:-1]:
        pos += s
        if 0 < pos < len(c["msg"]) and pos % 16 != 0:
            return True
    return False


def signature(c, what):
    return "%s/%s/%s" % (c["alg"], c["form"], what)


def main(tier, seed):
    res = Result(PID, tier, seed, "proof")
    tb = common.build_lib()
    pres = common.props_check(PID, extra_targets=["Props/Examples_C10.vo"])
    common.proof_coverage(res, pres, "make -k Props/Properties_C10.vo Props/Examples_C10.vo (coqc 8.16.1, full .vo) + Print Assumptions",
                          ["Coq 8.16.1 kernel (vm_compute only inside Props/Examples_C10.v and two finite bit-mask lemmas)",
                           "Spec/ChaCha20.v, Poly1305.v, ChaChaPoly.v, GF128.v, AES.v, GCM.v as the meaning of 'one-shot result' (validated against the library under C01-C03)",
                           "extraction (ExtrOcamlBasic only) + ocaml/stream_driver.ml + harness/k10_stream.c (state-level correspondence K10)",
                           "modelled, not verified: the C compiler's translation of lib/x86_64/chacha20_poly1305.c; the assembly primitives "
                           "chacha20_enc_dec_ks_*, poly1305_aead_update/complete_*, poly1305_key_gen_* (modelled by their specification); "
                           "the GCM/GMAC update/finalize assembly (modelled at macro level from gcm_sse.inc) - all tied through the context dumps only"])
    k10 = common.build_harness("k10_stream", extra_src=["imbh.c"])
    drv = build_model_driver()
    rng = Rng(seed)
    cases = gen_cases(rng, tier)
    # corpus of minimized past disagreements runs first
    corpus_dir = os.path.join(common.VERIF, "corpus")
    ncorpus = 0
    if os.path.isdir(corpus_dir):
        for f in sorted(os.listdir(corpus_dir)):
            if f.startswith("C10_") and f.endswith(".json"):
                try:
                    cj = case_from_json(json.load(open(os.path.join(corpus_dir, f)))["case"])
                    cj["id"] = len(cases) + 1
                    cj["family"] = "corpus"
                    cases.append(cj)
                    ncorpus += 1
                except Exception as ex:
                    log("corpus file %s unusable: %r" % (f, ex))
    ev = evaluate(cases, k10, drv, want_model=True)
    known = [l for kind, l in common.known_findings(PID) if kind == "known"]

    def is_known(sig):
        for l in known:
            if ("key=%s " % sig) in l + " ":
                txt = l.split("key=%s" % sig, 1)[1].strip()
                if txt not in res.known:
                    res.known.append(txt)
                return True
        return False

    # ---- statistics
    hist_len, hist_nseg, hist_form, hist_alg, hist_key, hist_aad, hist_res16, hist_res64, hist_iv = {}, {}, {}, {}, {}, {}, {}, {}, {}

    def bump(h, k):
        h[k] = h.get(k, 0) + 1
    distinct_nt = set()
    for c in cases:
        L = len(c["msg"])
        bump(hist_len, "0" if L == 0 else "1-15" if L < 16 else "16-63" if L < 64 else "64-255" if L < 256 else "256-1023" if L < 1024 else "1024-4200" if L <= 4200 else "4201-9500")
        bump(hist_nseg, str(len(c["segs"])))
        bump(hist_form, c["alg"] + "/" + c["form"] + "/" + ("enc" if c["dir"] == 1 else "dec"))
        bump(hist_alg, c["alg"])
        bump(hist_key, "%s-%d" % (c["alg"], len(c["key"]) * 8))
        bump(hist_aad, str(len(c["aad"]) // 8 * 8))
        bump(hist_iv, str(len(c["iv"])))
        pos = 0
        for s in c["segs"][:-1]:
            pos += s
            bump(hist_res16, str(pos % 16))
            bump(hist_res64, str(pos % 64 // 16 * 16) + "+")
        if nontrivial(c):
            distinct_nt.add((c["alg"], c["form"], c["dir"], len(c["key"]), len(c["iv"]), len(c["aad"]), c["segs"], c["taglen"]))
    nvar = len(ev["variants"])
    res.coverage.update({
        "evaluations": ev["compared_runs"],
        "distinct_nontrivial": len(distinct_nt),
        "rule": "one evaluation = one segmented case (algorithm, API form, direction, key/iv/aad/message, segment list) run on one "
                "variant, its concatenated output and tag compared with the library's own one-shot job AND every context dump "
                "(one per library call) compared with the extracted model; cases: all ordered partitions of messages of length "
                "0..%d into 1, 2 and 3 segments including zero-length segments (exhaustive), plus random partitions into 1..12 "
                "segments of messages up to 4200 bytes with split points biased to 16k-1/16k/16k+1/64k-1/64k+1/0/len; GCM messages of 3.2-9.5 KB "
                "with a segment starting t = -2..51 blocks before the counter low-byte wrap (block 254 / 510) for every kernel length class; "
                "non-trivial = at least two non-empty segments and a split not on a 16-byte boundary; distinct = different "
                "(algorithm, form, direction, key size, iv length, aad length, segment-length tuple, tag length)" % (20 if tier == "quick" else 48),
        "cases": len(cases), "oneshot_references": ev["refs"], "corpus_cases": ncorpus,
        "context_dump_lines_compared": ev["compared_lines"],
        "gcm_deferred_last_block_runs": ev["lazy_resolved"],
        "traces_validated_against_impl": ev["compared_runs"],
        "variants": ev["variants"], "entry_points": sorted(hist_form),
        "hist_msg_len": hist_len, "hist_segments": hist_nseg, "hist_form_dir": hist_form, "hist_alg": hist_alg,
        "hist_key_bits": hist_key, "hist_aad_len_floor8": hist_aad, "hist_iv_len": hist_iv,
        "hist_split_mod16": hist_res16, "hist_split_mod64_quarter": hist_res64,
        "exhaustive": False,
        "exhaustive_part": "ordered partitions into <= 3 segments of every message length 0..%d: complete" % (20 if tier == "quick" else 48),
        "samples": [case_json(cases[0]), case_json(cases[len(cases) // 2]), case_json(cases[-5])],
        "lib_build_s": round(tb, 1), "shard_times_s": ev["shard_times"],
    })
    # ---- verdicts
    for f in pres["failed"]:
        log("proof obligation failed:", f)
    broken_proof = pres["discharged"] != pres["obligations"] or bool(pres["failed"]) or pres["obligations"] == 0
    reported = 0
    seen_sig = set()
    for (c, v, what, got, ref) in ev["oracle"]:
        sig = signature(c, "oracle-" + what)
        if is_known(sig) or (sig, v) in seen_sig:
            continue
        seen_sig.add((sig, v))
        if reported >= 4:
            continue
        small = shrink_case(c, v, k10, drv) if what != "missing-result" else c
        res.violation({"property": PID, "kind": "segmented result differs from the library's own one-shot result (%s)" % what,
                       "signature": sig, "variant": v, "case": case_json(small), "original_case": case_json(c),
                       "segmented": got, "oneshot": ref, "seed": seed},
                      name="%s_%s_%s_%s" % (c["alg"], c["form"], what, v.replace(":", "")))
        reported += 1
    for path, why in ev["crashes"]:
        if is_known("crash"):
            continue
        res.violation({"property": PID, "kind": "harness or model driver did not finish (crash or hang inside the library?)",
                       "signature": "crash", "shard": path, "detail": why, "seed": seed}, name="crash_%s" % os.path.basename(path))
        reported += 1
    corr = [x for x in ev["corr"] if not is_known(signature(x[0], "ctx-" + "+".join(x[3])))]
    if (corr or broken_proof) and reported == 0:
        # model != code or a broken obligation, but every case explored satisfies the property:
        # failing-input search with the library-only oracle on fresh cases around the mismatching ones
        rng2 = Rng(seed + 7919)
        extra = []
        for (c, v, key, fields, l, m) in corr[:40]:
            for _ in range(6):
                L = len(c["msg"]) + rng2.below(80)
                msg = rng2.bytes(L)
                extra.append(mk_case(len(extra) + 1, c["alg"], c["form"], c["dir"], c["key"], c["iv"], c["aad"], msg,
                                     biased_splits(rng2, L, 1 + rng2.below(6)), c["taglen"], c["inplace"], "search"))
        base = gen_cases(rng2, "quick")
        for c in base[:: max(1, len(base) // 1500)]:
            c = dict(c)
            c["id"] = len(extra) + 1
            extra.append(c)
        ev2 = evaluate(extra, k10, drv, want_model=False, tag="search")
        found = [o for o in ev2["oracle"] if not is_known(signature(o[0], "oracle-" + o[2]))]
        if found:
            c, v, what, got, ref = found[0]
            small = shrink_case(c, v, k10, drv)
            res.violation({"property": PID, "kind": "segmented result differs from one-shot (found by the failing-input search)",
                           "signature": signature(c, "oracle-" + what), "variant": v, "case": case_json(small),
                           "segmented": got, "oneshot": ref, "seed": seed}, name="search_%s_%s" % (c["alg"], c["form"]))
        else:
            what = {"property": PID, "seed": seed, "broken_obligations": pres["failed"],
                    "proof_log_tail": pres["log"][-2000:] if broken_proof else "",
                    "correspondence": [{"variant": v, "case": case_json(c), "line": list(key), "fields": fields, "library": l, "model": m}
                                       for (c, v, key, fields, l, m) in corr[:3]],
                    "correspondence_mismatches": len(corr),
                    "note": "the streaming models (Struct/ChachaStream.v, Struct/GcmStream.v) / theorems of Props/Properties_C10.v no "
                            "longer check against this tree; no segment list on which the segmented result differs from one-shot was found"}
            res.violation(what, note="no-failing-input-found", name="unproved")
    res.coverage["correspondence_mismatches"] = len(ev["corr"])
    res.coverage["oracle_failures"] = len(ev["oracle"])
    res.assumptions = ["hash_len/aad_len/in_length 64-bit overflow (more than 2^64 bytes of text) is not modelled",
                       "cipher and hash ranges of a job coincide (msg_len_to_hash = msg_len_to_cipher, equal offsets)",
                       "NULL-pointer / length parameter checks of the direct API are not modelled (C12)",
                       "the assembly kernels are represented by their specification; that they implement it is established only by the "
                       "context-dump correspondence on the cases explored"]
    return res.finish()


def replay(path):
    rp = json.load(open(path))
    common.build_lib()
    k10 = common.build_harness("k10_stream", extra_src=["imbh.c"])
    drv = build_model_driver()
    if "case" not in rp:
        if rp.get("correspondence"):
            rp = dict(rp, case=rp["correspondence"][0]["case"])
        else:
            print(json.dumps({"note": "replay names broken proof obligations only", "broken": rp.get("broken_obligations")}, indent=1))
            pres = common.props_check(PID)
            return 0 if pres["discharged"] == pres["obligations"] and not pres["failed"] else 1
    c = case_from_json(rp["case"])
    c["id"] = 1
    ev = evaluate([c], k10, drv, want_model=True, tag="replay", nshards=1)
    out = {"oracle": [(v, what, got, ref) for (_, v, what, got, ref) in ev["oracle"]],
           "correspondence": [(v, list(key), fields) for (_, v, key, fields, l, m) in ev["corr"]][:10],
           "crashes": ev["crashes"]}
    print(json.dumps(out, indent=1))
    return 1 if (ev["oracle"] or ev["corr"] or ev["crashes"]) else 0
