"""C02 — digest/MAC output equals the published algorithm for every valid input.

Proof side: Props/Properties_C02.v when it exists; until then the known-answer Examples of the hash/MAC Spec test
files (FIPS 180-4, RFC 1321/2202/4231/4493/3566/8439, GB/T 32905, 3GPP conformance data, CRC check values).
Tie: K1 — hash-only work items for every hash/MAC algorithm x accepted tag length: every length 0..3B+9 (all
padding thresholds 55/56/64, 111/112/128), k*B-1/k*B/k*B+1, 4095..4097 (65519/65534 thorough), bit lengths not
multiple of 8 for the 3GPP MACs and CMAC-bitlen, offsets 0..3, co-scheduled jobs of unequal length (batch > 1),
plus cipher+hash chains where the hash reads what the cipher wrote."""
from . import k1

PID = "C02"


def main(tier, seed):
    return k1.run_check(PID, tier, seed, k1.gen_c02, test_files=k1.TESTS_C02)


def replay(path):
    return k1.replay(PID, path)
