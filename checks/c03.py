"""C03 — AEAD and combined modes equal their specification in both directions.

Proof side: Props/Properties_C03.v when it exists; until then the known-answer Examples of the AEAD Spec test
files (McGrew-Viega GCM cases, RFC 3610, RFC 8439, SNOW-V-GCM, DOCSIS / PON vectors).
Tie: K1 — GCM 128/192/256 (any IV / AAD / tag length), SM4-GCM, CCM 128/256 (nonce 7..13, AAD 0..46, even tags),
ChaCha20-Poly1305, SNOW-V-AEAD, DOCSIS BPI + CRC32 (offset geometry), PON AES-CTR + CRC + BIP (PLI geometry).
Every encrypt item is followed by the decrypt job over the MODEL ciphertext; inside the model the round trip
(plaintext restored, identical tag) is checked as well."""
from . import k1

PID = "C03"


def main(tier, seed):
    return k1.run_check(PID, tier, seed, k1.gen_c03, derive=k1.derive_decrypt, test_files=k1.TESTS_C03)


def replay(path):
    return k1.replay(PID, path)
