"""Case generator for C12 (used by checks/c12.py).

A case is a job_view line (see ocaml/validate_driver.ml) plus a tag (cell, mutated field, value
class).  Pointers are real addresses inside the arena that harness/k12_validate.c maps at
ARENA_BASE, so one and the same line drives the OCaml model, the real is_job_invalid() and the
public-API behaviour check."""

ARENA_BASE = 0x100000000000
ARENA_SIZE = 0x100000
FN_TOKEN = ARENA_BASE + 0xFF000
U64 = (1 << 64) - 1

# arena layout (offsets): every pointer field gets its own region, sized for the largest valid job
REG = {
    "enc_keys": 0x01000, "dec_keys": 0x03000, "iv": 0x05000, "tag": 0x05800, "u0": 0x06000, "u1": 0x08000,
    "u2": 0x0A000, "next_iv": 0x0C000, "ks": 0x0D000, "segs": 0x0F000, "segbuf": 0x10000,
    "src": 0x40000, "dst": 0x60000,
}
# src region: 0x40000..0x5FFFF (128 KiB), dst region: 0x60000..0x7FFFF; 0x80000.. spare (guard for overruns)


def P(name, off=0):
    return ARENA_BASE + REG[name] + off


F = ["enc_keys", "dec_keys", "key_len", "src", "dst", "cipher_off", "cipher_len", "hash_off", "hash_len", "iv",
     "iv_len", "tag", "tag_len", "u0", "u1", "u2", "cipher_mode", "dir", "hash_alg", "chain_order", "cipher_func",
     "hash_func", "sgl_state", "next_iv", "enc_ks0", "enc_ks1", "enc_ks2", "dec_ks0", "dec_ks1", "dec_ks2", "xgem"]
IDX = {n: i for i, n in enumerate(F)}
POINTER_FIELDS = ["enc_keys", "dec_keys", "src", "dst", "iv", "tag", "u0", "u1", "u2", "cipher_func", "hash_func",
                  "next_iv", "enc_ks0", "enc_ks1", "enc_ks2", "dec_ks0", "dec_ks1", "dec_ks2"]

ENC, DEC = 1, 2
CIPHER_HASH, HASH_CIPHER = 1, 2

# cipher templates: mode -> dict(keys=[...], iv_len, len, extra)
CIPHERS = {
    1: dict(name="CBC", keys=[16, 24, 32], iv_len=16, len=64),
    2: dict(name="CNTR", keys=[16, 24, 32], iv_len=16, len=61),
    3: dict(name="NULL", keys=[16], iv_len=0, len=0),
    4: dict(name="DOCSIS_SEC_BPI", keys=[16, 32], iv_len=16, len=61),
    5: dict(name="GCM", keys=[16, 24, 32], iv_len=12, len=61, hash=9),
    6: dict(name="CUSTOM", keys=[16], iv_len=16, len=64),
    7: dict(name="DES", keys=[8], iv_len=8, len=64),
    8: dict(name="DOCSIS_DES", keys=[8], iv_len=8, len=61),
    9: dict(name="CCM", keys=[16, 32], iv_len=13, len=61, hash=11),
    10: dict(name="DES3", keys=[24], iv_len=8, len=64),
    11: dict(name="PON_AES_CNTR", keys=[16], iv_len=16, len=16, hash=19),
    12: dict(name="ECB", keys=[16, 24, 32], iv_len=0, len=64),
    13: dict(name="CNTR_BITLEN", keys=[16, 24, 32], iv_len=16, len=488),
    14: dict(name="ZUC_EEA3", keys=[16, 32], iv_len=16, len=61),
    15: dict(name="SNOW3G_UEA2_BITLEN", keys=[16], iv_len=16, len=488),
    16: dict(name="KASUMI_UEA1_BITLEN", keys=[16], iv_len=8, len=488),
    17: dict(name="CBCS_1_9", keys=[16], iv_len=16, len=160),
    18: dict(name="CHACHA20", keys=[32], iv_len=12, len=61),
    19: dict(name="CHACHA20_POLY1305", keys=[32], iv_len=12, len=61, hash=29),
    20: dict(name="CHACHA20_POLY1305_SGL", keys=[32], iv_len=12, len=61, hash=30, sgl=True),
    21: dict(name="SNOW_V", keys=[32], iv_len=16, len=61),
    22: dict(name="SNOW_V_AEAD", keys=[32], iv_len=16, len=61, hash=32),
    23: dict(name="GCM_SGL", keys=[16, 24, 32], iv_len=12, len=61, hash=33, sgl=True),
    24: dict(name="SM4_ECB", keys=[16], iv_len=0, len=64),
    25: dict(name="SM4_CBC", keys=[16], iv_len=16, len=64),
    26: dict(name="CFB", keys=[16, 24, 32], iv_len=16, len=64),
    27: dict(name="SM4_CNTR", keys=[16], iv_len=16, len=61),
    28: dict(name="SM4_GCM", keys=[16], iv_len=12, len=61, hash=49),
}
# hash templates: alg -> dict(tag_len, len, u=(u0,u1,u2) as 'p' pointer / int, cipher=required cipher)
HASHES = {
    1: dict(name="HMAC_SHA_1", tag=12, len=61, u="pp0"), 2: dict(name="HMAC_SHA_224", tag=14, len=61, u="pp0"),
    3: dict(name="HMAC_SHA_256", tag=16, len=61, u="pp0"), 4: dict(name="HMAC_SHA_384", tag=24, len=61, u="pp0"),
    5: dict(name="HMAC_SHA_512", tag=32, len=61, u="pp0"), 6: dict(name="AES_XCBC", tag=12, len=61, u="ppp"),
    7: dict(name="MD5", tag=12, len=61, u="pp0"), 8: dict(name="NULL", tag=0, len=0, u="000"),
    9: dict(name="AES_GMAC", tag=16, len=61, u="pA0", cipher=5), 10: dict(name="CUSTOM", tag=0, len=0, u="000"),
    11: dict(name="AES_CCM", tag=8, len=61, u="pA0", cipher=9), 12: dict(name="AES_CMAC", tag=16, len=61, u="ppp"),
    13: dict(name="SHA_1", tag=20, len=61, u="000"), 14: dict(name="SHA_224", tag=28, len=61, u="000"),
    15: dict(name="SHA_256", tag=32, len=61, u="000"), 16: dict(name="SHA_384", tag=48, len=61, u="000"),
    17: dict(name="SHA_512", tag=64, len=61, u="000"), 18: dict(name="AES_CMAC_BITLEN", tag=4, len=488, u="ppp"),
    19: dict(name="PON_CRC_BIP", tag=8, len=24, u="000", cipher=11), 20: dict(name="ZUC_EIA3_BITLEN", tag=4, len=488, u="pp0"),
    21: dict(name="DOCSIS_CRC32", tag=4, len=80, u="000", cipher=4), 22: dict(name="SNOW3G_UIA2_BITLEN", tag=4, len=488, u="pp0"),
    23: dict(name="KASUMI_UIA1", tag=4, len=61, u="p00"), 24: dict(name="AES_GMAC_128", tag=16, len=61, u="ppI"),
    25: dict(name="AES_GMAC_192", tag=16, len=61, u="ppI"), 26: dict(name="AES_GMAC_256", tag=16, len=61, u="ppI"),
    27: dict(name="AES_CMAC_256", tag=16, len=61, u="ppp"), 28: dict(name="POLY1305", tag=16, len=61, u="p00"),
    29: dict(name="CHACHA20_POLY1305", tag=16, len=61, u="pA0", cipher=19),
    30: dict(name="CHACHA20_POLY1305_SGL", tag=16, len=61, u="pAp", cipher=20),
    31: dict(name="ZUC256_EIA3_BITLEN", tag=4, len=488, u="ppp"), 32: dict(name="SNOW_V_AEAD", tag=16, len=61, u="pA0", cipher=22),
    33: dict(name="GCM_SGL", tag=16, len=61, u="pAp", cipher=23),
    46: dict(name="GHASH", tag=16, len=61, u="pp0"), 47: dict(name="SM3", tag=32, len=61, u="000"),
    48: dict(name="HMAC_SM3", tag=32, len=61, u="pp0"), 49: dict(name="SM4_GCM", tag=16, len=61, u="pA0", cipher=28),
}
for _h, _n in zip(range(34, 46), ["CRC32_ETHERNET_FCS", "CRC32_SCTP", "CRC32_WIMAX_OFDMA_DATA", "CRC24_LTE_A", "CRC24_LTE_B",
                                  "CRC16_X25", "CRC16_FP_DATA", "CRC11_FP_HEADER", "CRC10_IUUP_DATA",
                                  "CRC8_WIMAX_OFDMA_HCS", "CRC7_FP_HEADER", "CRC6_IUUP_HEADER"]):
    HASHES[_h] = dict(name=_n, tag=4, len=61, u="000")

AAD_LEN = 12


def xgem_word(pli, rest=0x123456789ABC):
    """little-endian load of an 8-byte big-endian XGEM header whose 14 MS bits are the PLI"""
    be = ((pli & 0x3FFF) << 50) | (rest & ((1 << 50) - 1))
    return int.from_bytes(be.to_bytes(8, "big"), "little")


def baseline(cm, key, d, ha, order, sgl_state=None):
    """A job_view (list of 31 ints + segs list) intended to satisfy every documented constraint of
    the cell; the catalogue model decides whether it really does."""
    c, h = CIPHERS[cm], HASHES[ha]
    f = [0] * 31
    segs = []
    f[IDX["enc_keys"]], f[IDX["dec_keys"]] = P("enc_keys"), P("dec_keys")
    f[IDX["key_len"]] = key
    f[IDX["src"]], f[IDX["dst"]] = P("src"), P("dst")
    f[IDX["cipher_off"]], f[IDX["hash_off"]] = 0, 0
    f[IDX["cipher_len"]], f[IDX["hash_len"]] = c["len"], h["len"]
    f[IDX["iv"]] = P("iv")
    f[IDX["iv_len"]] = c["iv_len"]
    if cm == 14 and key == 32:
        f[IDX["iv_len"]] = 25
    f[IDX["tag"]], f[IDX["tag_len"]] = P("tag"), h["tag"]
    for k, ch in enumerate(h["u"]):
        f[IDX["u%d" % k]] = {"p": P("u%d" % k), "0": 0, "A": AAD_LEN, "I": 12}[ch]
    f[IDX["cipher_mode"]], f[IDX["dir"]], f[IDX["hash_alg"]], f[IDX["chain_order"]] = cm, d, ha, order
    f[IDX["cipher_func"]] = FN_TOKEN if cm == 6 else 0
    f[IDX["hash_func"]] = FN_TOKEN if ha == 10 else 0
    f[IDX["sgl_state"]] = 0
    f[IDX["next_iv"]] = P("next_iv")
    for k in range(3):
        f[IDX["enc_ks%d" % k]] = P("ks", 0x200 * k)
        f[IDX["dec_ks%d" % k]] = P("ks", 0x200 * (k + 3))
    f[IDX["xgem"]] = xgem_word(12)
    if cm == 9:      # CCM: one message
        f[IDX["hash_len"]] = f[IDX["cipher_len"]]
    if cm == 11:     # PON: 8-byte XGEM header then ciphered payload, in place
        f[IDX["cipher_off"]] = 8
        f[IDX["dst"]] = f[IDX["src"]] + 8
        f[IDX["hash_len"]] = f[IDX["cipher_len"]] + 8
    if ha == 21:     # DOCSIS CRC32: Ethernet frame, cipher starts after DA+SA, in place
        f[IDX["cipher_off"]] = 12
        f[IDX["cipher_len"]] = 61
        f[IDX["hash_len"]] = 80
        f[IDX["dst"]] = f[IDX["src"]] + 12
        f[IDX["chain_order"]] = HASH_CIPHER if d == ENC else CIPHER_HASH
    if c.get("sgl"):
        st = 1 if sgl_state is None else sgl_state
        f[IDX["sgl_state"]] = st
        if st == 3:
            f[IDX["src"]] = P("segs")
            lens = [16, 0, 45]
            f[IDX["dst"]] = len(lens)
            segs = [(P("segbuf", 0x1000 * i), P("segbuf", 0x8000 + 0x1000 * i), ln) for i, ln in enumerate(lens)]
    return f, segs


def line_of(f, segs):
    return " ".join(map(str, list(f) + [len(segs)] + [x for s in segs for x in s]))


LEN_VALUES = [0, 1, 2, 3, 4, 5, 7, 8, 9, 11, 12, 13, 15, 16, 17, 20, 24, 31, 32, 33, 60, 61, 64, 65, 100, 2500, 2501, 8188, 8189,
              16380, 16384, 16385, 16388, 16392, 16393, 16396, 20000, 20001, 65504, 65505, 65520, 65528, 65534, 65535, 65536,
              65552, 524272, 524273, (1 << 32) - 1, 1 << 32, (1 << 32) + 16, (1 << 36) - 33, (1 << 36) - 32, (1 << 38) - 64,
              (1 << 38) - 63, (1 << 60) - 16, (1 << 60) - 1, 1 << 60, (1 << 63), U64 - 15, U64 - 7, U64 - 3, U64]
NUMERIC = {
    "key_len": [0, 1, 7, 8, 9, 15, 16, 17, 23, 24, 25, 31, 32, 33, 64, (1 << 32) + 8, (1 << 32) + 16, (1 << 32) + 24, (1 << 32) + 32, U64],
    "cipher_len": LEN_VALUES, "hash_len": LEN_VALUES,
    "cipher_off": [0, 1, 4, 8, 11, 12, 13, 16, 24, U64 - 11, U64],
    "hash_off": [0, 1, 4, 8, 12, 13, 16, U64 - 11, U64 - 12, U64],
    "iv_len": [0, 1, 6, 7, 8, 9, 11, 12, 13, 14, 15, 16, 17, 22, 23, 24, 25, 26, 32, (1 << 32) + 16, U64],
    "tag_len": [0, 1, 2, 3, 4, 5, 6, 7, 8, 9, 10, 11, 12, 13, 14, 15, 16, 17, 19, 20, 21, 24, 28, 31, 32, 33, 47, 48, 49, 63, 64, 65, (1 << 32) + 16],
    "cipher_mode": list(range(0, 33)) + [1 << 31, (1 << 32) - 1],
    "hash_alg": list(range(0, 54)) + [1 << 31, (1 << 32) - 1],
    "dir": [0, 1, 2, 3, (1 << 32) - 1], "chain_order": [0, 1, 2, 3], "sgl_state": [0, 1, 2, 3, 4, 5, (1 << 32) - 1],
}
U_NUMERIC = [0, 1, 12, 45, 46, 47, 48, 1 << 32, U64]   # aad_len / GMAC iv_len living in u1 / u2
PLI_VALUES = [0, 1, 3, 4, 5, 8, 12, 15, 16, 17, 20, 100, 16380, 16383]


def mutations(f, segs):
    """Every single-field mutation of a baseline: yields (field, label, f', segs')."""
    for name in POINTER_FIELDS:
        i = IDX[name]
        if f[i] != 0:
            g = list(f)
            g[i] = 0
            yield name, "NULL", g, segs
    for name, vals in NUMERIC.items():
        i = IDX[name]
        v0 = f[i]
        cand = list(vals)
        if name in ("cipher_len", "hash_len"):
            cand += [max(v0 - 16, 0), v0 - 1 if v0 else 0, v0 + 1, v0 + 3, v0 + 4, v0 + 8, v0 + 16]
        for v in dict.fromkeys(cand):
            if v != v0 and 0 <= v <= U64:
                g = list(f)
                g[i] = v
                yield name, str(v), g, segs
    for name in ("u1", "u2"):
        i = IDX[name]
        if f[i] < ARENA_BASE:      # numeric use of the union word in this cell
            for v in U_NUMERIC:
                if v != f[i]:
                    g = list(f)
                    g[i] = v
                    yield name, str(v), g, segs
    if f[IDX["cipher_mode"]] == 11:
        for pli in PLI_VALUES:
            g = list(f)
            g[IDX["xgem"]] = xgem_word(pli)
            yield "xgem", "pli=%d" % pli, g, segs
        g = list(f)
        g[IDX["dst"]] = f[IDX["src"]]
        yield "dst", "dst=src", g, segs
        g = list(f)
        g[IDX["dst"]] = f[IDX["dst"]] + 1
        yield "dst", "dst+1", g, segs
    if segs:
        big = (1 << 36) - 32
        variants = {
            "seg.in=NULL": [(0, o, l) if k == 0 else (a, o, l) for k, (a, o, l) in enumerate(segs)],
            "seg.out=NULL": [(a, 0, l) if k == 0 else (a, o, l) for k, (a, o, l) in enumerate(segs)],
            "emptyseg.in=NULL": [(0, o, l) if l == 0 else (a, o, l) for (a, o, l) in segs],
            "emptyseg.out=NULL": [(a, 0, l) if l == 0 else (a, o, l) for (a, o, l) in segs],
            "total=max": [(a, o, big - 1 - 45 - (0 if k else 0)) if k == 0 else (a, o, l) for k, (a, o, l) in enumerate(segs)],
            "total=max+1": [(a, o, big - 45) if k == 0 else (a, o, l) for k, (a, o, l) in enumerate(segs)],
            "total=chacha-max": [(a, o, (1 << 38) - 64 - 45) if k == 0 else (a, o, l) for k, (a, o, l) in enumerate(segs)],
            "total=chacha-max+1": [(a, o, (1 << 38) - 63 - 45) if k == 0 else (a, o, l) for k, (a, o, l) in enumerate(segs)],
            "total-wraps": [(a, o, 1 << 63) if k != 1 else (a, o, l) for k, (a, o, l) in enumerate(segs)],
        }
        for lab, s2 in variants.items():
            yield "segs", lab, list(f), s2
        g = list(f)
        g[IDX["dst"]] = 0
        yield "dst", "nsegs=0", g, []
        g = list(f)
        g[IDX["dst"]] = 1
        yield "dst", "nsegs=1", g, segs[:1]


def cells(full):
    """(cm, key, dir, ha, order[, sgl_state]) cells.  full=False: a stratified subset."""
    out = []
    plain_ciphers = [cm for cm, c in CIPHERS.items() if "hash" not in c]
    plain_hashes = [ha for ha, h in HASHES.items() if "cipher" not in h]
    for cm, c in CIPHERS.items():
        for key in c["keys"]:
            for d in (ENC, DEC):
                if "hash" in c:
                    states = [0, 1, 2, 3] if c.get("sgl") else [None]
                    for st in states:
                        for order in (CIPHER_HASH, HASH_CIPHER):
                            out.append((cm, key, d, c["hash"], order, st))
                    continue
                hs = plain_hashes + ([21] if cm == 4 else [])
                for ha in hs:
                    for order in (CIPHER_HASH, HASH_CIPHER):
                        if not full:
                            # stratified: every cipher with NULL/HMAC-SHA1/one rotating hash, every hash with NULL/CBC-128
                            keep = ha in (8, 1) or (cm in (3, 1) and key == 16) or ha == 21 or \
                                (ha == plain_hashes[(cm * 7 + key + d) % len(plain_hashes)])
                            if not keep or (order == HASH_CIPHER and ha not in (21, 1)):
                                continue
                        out.append((cm, key, d, ha, order, None))
    return out


def cell_name(cell):
    cm, key, d, ha, order, st = cell
    s = "%s-%d/%s/%s/%s" % (CIPHERS[cm]["name"], key * 8, "ENC" if d == ENC else "DEC", HASHES[ha]["name"],
                            "CH" if order == CIPHER_HASH else "HC")
    return s + ("" if st is None else "/sgl%d" % st)


def random_view(rng):
    """Raw random stream: independent random choices per field from boundary pools (mostly invalid)."""
    f = [0] * 31
    pick = lambda l: l[rng.below(len(l))]
    for name in POINTER_FIELDS:
        reg = {"enc_keys": "enc_keys", "dec_keys": "dec_keys", "src": "src", "dst": "dst", "iv": "iv", "tag": "tag",
               "u0": "u0", "u1": "u1", "u2": "u2", "next_iv": "next_iv"}.get(name, "ks")
        f[IDX[name]] = 0 if rng.below(8) == 0 else P(reg, 0x100 * (IDX[name] % 7) if reg == "ks" else 0)
    f[IDX["cipher_func"]] = 0 if rng.below(3) == 0 else FN_TOKEN
    f[IDX["hash_func"]] = 0 if rng.below(3) == 0 else FN_TOKEN
    cm = pick(list(CIPHERS) * 4 + [0, 29, 30, 31])
    ha = pick(list(HASHES) * 4 + [0, 50, 51])
    if "hash" in CIPHERS.get(cm, {}) and rng.below(4) != 0:
        ha = CIPHERS[cm]["hash"]
    if cm == 4 and rng.below(3) == 0:
        ha = 21
    f[IDX["cipher_mode"]], f[IDX["hash_alg"]] = cm, ha
    f[IDX["dir"]] = pick([1, 1, 1, 2, 2, 2, 0, 3])
    f[IDX["chain_order"]] = pick([1, 2, 1, 2, 0, 3])
    f[IDX["sgl_state"]] = pick([0, 1, 2, 3, 3, 4])
    f[IDX["key_len"]] = pick([8, 16, 16, 16, 24, 32, 32, 0, 33, (1 << 32) + 16])
    f[IDX["cipher_len"]] = pick(LEN_VALUES + [16, 64, 64, 61, 160, 488] * 6)
    f[IDX["hash_len"]] = pick(LEN_VALUES + [61, 64, 24, 80, 488] * 6)
    f[IDX["cipher_off"]] = pick([0, 0, 0, 8, 12, 16, U64])
    f[IDX["hash_off"]] = pick([0, 0, 0, 4, 8])
    f[IDX["iv_len"]] = pick(NUMERIC["iv_len"] + [16, 12, 8] * 5)
    f[IDX["tag_len"]] = pick(NUMERIC["tag_len"] + [4, 8, 12, 16] * 4)
    if rng.below(3):
        f[IDX["u1"]] = pick([P("u1")] * 3 + U_NUMERIC)
        f[IDX["u2"]] = pick([P("u2")] * 3 + U_NUMERIC)
    f[IDX["xgem"]] = xgem_word(pick(PLI_VALUES))
    segs = []
    if cm == 11:
        if f[IDX["cipher_off"]] > 64:
            f[IDX["cipher_off"]] = 8
        if f[IDX["src"]] and rng.below(5):
            f[IDX["dst"]] = (f[IDX["src"]] + f[IDX["cipher_off"]]) & U64
    if cm in (20, 23) and f[IDX["sgl_state"]] == 3:
        n = pick([0, 1, 2, 3, 5])
        f[IDX["src"]] = 0 if rng.below(10) == 0 else P("segs")
        f[IDX["dst"]] = n
        for i in range(n):
            ln = pick([0, 1, 16, 45, 100, (1 << 36) - 32, 1 << 35, 1 << 63, (1 << 38) - 64, 1 << 37])
            segs.append((0 if rng.below(9) == 0 else P("segbuf", 0x1000 * i), 0 if rng.below(9) == 0 else P("segbuf", 0x8000 + 0x1000 * i), ln))
    return f, segs
