"""C08 — all implementation variants and feature flags give bit-identical results; missing CPU
features fail cleanly.

Proof: coq/Props/Properties_C08.v (variant selection: supported, flags only lower, clean failure; the instruction-set
       extensions used by the code each variant installs lie within the variant's IMB_CPUFLAGS_* mask).
Tie:   (t3) translators/t3_isa.py regenerates Gen/GenIsa.v from the rebuilt shared object on every run (instruction census
           of the code reachable from init_mb_mgr_<variant>_internal);
       (a) harness/k8_init.c — every (previous state, init function, flags) with the required CPU
           feature masked out of IMB_MGR.features: must return IMB_ERR_MISSING_CPUFLAGS_INIT_MGR,
           not crash, install nothing;
       (b) variant-vs-variant differential (harness/k1_algo.c): every work item on all 7 variants
           and all entry points must give identical dst/tag/status/errno; the masks of
           Gen/GenConsts.v must reproduce the variant the library reports for each (init, flags).
The comparison against the published algorithms is done by C01-C03 on the same engine."""
import os, sys, json, time, concurrent.futures as cf
from . import common, c04
from .common import Rng, Result, log

PID = "C08"


def main(tier, seed):
    res = Result(PID, tier, seed, "proof")
    tb = common.build_lib()
    C = c04.consts()
    isa, isa_err = None, None
    try:
        sys.path.insert(0, os.path.join(os.path.dirname(os.path.dirname(os.path.abspath(__file__))), "translators"))
        import t3_isa
        isa = t3_isa.main()
    except Exception as ex:
        isa_err = repr(ex)[:1500]
    pres = common.props_check(PID, extra_targets=["Props/Examples_C08.vo"])
    common.proof_coverage(res, pres, "make -k Props/Properties_C08.vo (coqc 8.16.1) + Print Assumptions",
                          ["Coq 8.16.1 kernel (vm_compute on the header's mask constants only)",
                           "translators/t0_consts.py (IMB_CPUFLAGS_* / IMB_FEATURE_* printed by a C program compiled against the header)",
                           "translators/t3_isa.py (objdump -D / readelf of the rebuilt libIPSec_MB.so -> Gen/GenIsa.v: code graph from "
                           "init_mb_mgr_<variant>_internal, instruction classes by mnemonic and operand form; 12 guarded dispatchers "
                           "(ZUC use_gfni flag: literal 0 at the call site + source-level forwarding; ChaCha20-Poly1305 IFMA: feature-bit "
                           "test in the dispatcher) are handled path-sensitively as documented in the translator; extensions without an "
                           "IMB_FEATURE_* bit (AVX512 VBMI/VBMI2/BITALG, MOVBE, POPCNT) are not tracked)",
                           "Mgr/Select.v is a hand model of mb_mgr_{sse,avx2,avx512}.c / mb_mgr_auto.c / cpu_feature_adjust, tied by k8_init + variant table",
                           "equality of outputs across variants is established by differential testing, not by a theorem"])
    viol = []
    # (t3) failing-input search for the instruction census: a CPU whose feature word is exactly the variant's mask
    bad_isa = []
    if isa:
        req_name = {"sse_t1": "IMB_CPUFLAGS_SSE", "sse_t2": "IMB_CPUFLAGS_SSE_T2", "sse_t3": "IMB_CPUFLAGS_SSE_T3",
                    "avx2_t1": "IMB_CPUFLAGS_AVX2", "avx2_t2": "IMB_CPUFLAGS_AVX2_T2", "avx2_t3": "IMB_CPUFLAGS_AVX2_T3",
                    "avx2_t4": "IMB_CPUFLAGS_AVX2_T4", "avx512_t1": "IMB_CPUFLAGS_AVX512", "avx512_t2": "IMB_CPUFLAGS_AVX512_T2"}
        for vname, r in isa["variants"].items():
            if not r:
                continue
            for ft, w in r["features"].items():
                bit = C.get("IMB_FEATURE_" + ft)
                if bit is None:
                    bad_isa.append(dict(variant=vname, feature=ft, what="IMB_FEATURE_%s not exported by the header" % ft))
                elif (C[req_name[vname]] & bit) != bit:
                    bad_isa.append(dict(variant=vname, feature=ft, cpu_features="0x%x (= %s: the selector installs %s on this CPU)" % (C[req_name[vname]], req_name[vname], vname),
                                        instruction=w["insn"], in_function=w["node"], call_path=w["path"]))
    # (a) missing CPU flags
    k8 = common.build_harness("k8_init")
    p = common.run([k8], env=common.lib_env(), timeout=300)
    k8_lines = [l for l in p.stdout.splitlines() if l.startswith("prior=")]
    bad_init = []
    for l in k8_lines:
        ok = ("errno=%d " % C["IMB_ERR_MISSING_CPUFLAGS_INIT_MGR"]) in l + " " and "handlers=unchanged" in l and "CRASH" not in l
        if not ok:
            bad_init.append(l)
    if p.returncode != 0 or len(k8_lines) != 24:
        bad_init.append("k8_init failed: rc=%s lines=%d %s" % (p.returncode, len(k8_lines), p.stderr[-300:]))
    # variant table vs the model's masks
    k1 = common.build_harness("k1_algo", extra_src=["imbh.c"])
    miss, vtab = common.missing_variants(k1)
    if miss:
        res.violation(dict(property=PID, what="implementation variants missing from the rebuilt library (init / power-up self test fails)",
                           missing=miss, table=vtab), name="missing_variants")
    vt = common.run([k1, "--list-variants"], env=common.lib_env(), timeout=120).stdout
    variants = []
    for l in vt.splitlines():
        if l.startswith("variant="):
            kv = dict(t.split("=", 1) for t in l.split() if "=" in t)
            variants.append(kv)
    exp_type = {"sse:f0": "t3", "sse:f1": "t1", "sse:f2": "t2", "avx2:f0": "t2", "avx2:f1": "t1", "avx512:f0": "t2", "avx512:f1": "t1"}
    bad_table = []
    host_features = None
    for kv in variants:
        if kv["variant"] == "sse:f0":
            host_features = int(kv["features"], 16)
    if host_features is not None:
        def has(f, m):
            return (f & m) == m

        def adjust(flags, f):
            if flags & C["IMB_FLAG_SHANI_OFF"]:
                f &= ~C["IMB_FEATURE_SHANI"]
            if flags & C["IMB_FLAG_GFNI_OFF"]:
                f &= ~C["IMB_FEATURE_GFNI"]
            return f
        for kv in variants:
            arch, fl = kv["variant"].split(":f")
            f = adjust(int(fl), host_features | C["IMB_FEATURE_SHANI"] | C["IMB_FEATURE_GFNI"])
            if arch == "sse":
                t = "t3" if has(f, C["IMB_CPUFLAGS_SSE_T3"]) else "t2" if has(f, C["IMB_CPUFLAGS_SSE_T2"]) else "t1"
            elif arch == "avx2":
                t = "t3" if has(f, C["IMB_CPUFLAGS_AVX2_T3"]) else "t2" if has(f, C["IMB_CPUFLAGS_AVX2_T2"]) else "t1"
            else:
                t = "t2" if has(f, C["IMB_CPUFLAGS_AVX512_T2"]) else "t1"
            if kv.get("type") != t or kv.get("ftype") != t:
                bad_table.append("variant %s: library reports type %s/%s, selection model gives %s" % (kv["variant"], kv.get("type"), kv.get("ftype"), t))
    # (b) variant-vs-variant differential
    rng = Rng(seed)
    T = c04.templates(C)
    per = 32 if tier == "quick" else 96
    sizes = [1, 15, 16, 17, 31, 32, 33, 63, 64, 65, 100, 127, 128, 129, 255, 256, 257, 511, 512, 513, 1000, 1024, 1500, 2000]
    items = []
    deltas = [0, 1, 3, 16, 17, 32, 64, 100, 256, 1000]
    for name, b in T:
        # the items of one algorithm travel together in the batched pass: they share a base length (the shortest job of
        # the group, so that the "common length" logic of the multi-buffer kernels sees every base, incl. multiples of
        # the block and of the key-stream round) and differ by tails
        aligned = [32, 64, 96, 128, 256, 512, 1024]
        base = rng.choice(aligned)
        for k in range(per):
            if k and k % 8 == 0:
                base = rng.choice(sizes if (k // 8) % 2 else aligned)
            n = base if k % 8 == 0 else min(base + rng.choice(deltas), 2048 if base <= 2048 else base)
            items.append((len(items) + 1, name, b(rng, n)))
    workdir = os.path.join(common.BUILD, "c08")
    os.makedirs(workdir, exist_ok=True)
    shards = []
    ns = common.NCPU
    for s in range(ns):
        pth = os.path.join(workdir, "shard%d.txt" % s)
        with open(pth, "w") as f:
            for (i, name, d) in items[s::ns]:
                f.write(c04.item_line(i, d) + "\n")
        shards.append(pth)
    # second pass: the same items grouped by algorithm family and submitted in batches of 40, so that the
    # lanes of each manager are filled and recycled; variants have different lane counts, results must not differ
    grouped = sorted(items, key=lambda it: (it[1], it[0]))
    gshards = []
    chunk = (len(grouped) + ns - 1) // ns
    for s_ in range(ns):
        pth = os.path.join(workdir, "gshard%d.txt" % s_)
        with open(pth, "w") as f:
            for (i, name, d) in grouped[s_ * chunk:(s_ + 1) * chunk]:
                f.write(c04.item_line(i, d) + "\n")
        gshards.append(pth)
    t0 = time.time()
    results = {}
    hangs = 0
    with cf.ThreadPoolExecutor(max_workers=ns) as ex:
        for r, to in ex.map(lambda pth: c04.run_k1(k1, pth, "all", "all", 1), shards):
            results.update(r)
            hangs += 1 if to else 0
        for r, to in ex.map(lambda pth: c04.run_k1(k1, pth, "all", "0,2,4", 40), gshards):
            # distinguish the batched pass by an entry-point offset
            results.update({(i, var, ep + 100): v for (i, var, ep), v in r.items()})
            hangs += 1 if to else 0
    name_of = {i: n for (i, n, d) in items}
    item_of = {i: d for (i, n, d) in items}
    by_item = {}
    for (i, var, ep), v in results.items():
        by_item.setdefault(i, {})[(var, ep)] = v
    ncmp = 0
    diffs = []
    nontrivial = 0
    for i, rs in by_item.items():
        vals = {k: v for k, v in rs.items() if v != "skip"}
        if len(vals) >= 2:
            nontrivial += 1
        ref_key = sorted(vals.keys())[0] if vals else None
        for k, v in vals.items():
            ncmp += 1
            if v != vals[ref_key]:
                diffs.append(dict(id=i, alg=name_of[i], ref="%s ep%d" % ref_key, other="%s ep%d" % k,
                                  ref_val=vals[ref_key][:400], other_val=v[:400], item=c04.item_line(i, item_of[i])[:2000]))
    known = [l for (kind, l) in common.known_findings(PID) if kind == "known"]
    res.coverage.update({
        "evaluations": ncmp, "distinct_nontrivial": nontrivial,
        "rule": "one evaluation = one (work item, variant, entry point) result compared with the result of the same item on the first "
                "variant/entry point; non-trivial = item ran on >= 2 (variant, entry point) combinations; plus 24 init-with-missing-flags cases",
        "variants": [kv["variant"] for kv in variants], "init_missing_flag_cases": len(k8_lines),
        "algorithms": sorted(set(name_of.values())), "items": len(items),
        "samples": [c04.item_line(i, d)[:300] for (i, n, d) in items[:2]] + k8_lines[:2],
        "differences": len(diffs), "lib_build_s": round(tb, 1), "run_s": round(time.time() - t0, 1),
        "traces_validated_against_impl": len(k8_lines) + len(by_item),
    })
    broken_proof = pres["discharged"] != pres["obligations"] or pres["failed"] or pres["obligations"] == 0
    if isa:
        res.coverage.update({"isa_census": {vn: (dict(nodes=r["nodes"], extensions=sorted(r["features"]), untracked=r["untracked"],
                                                      guarded_edges=len(r["guarded_edges"])) if r else "not compiled")
                                            for vn, r in isa["variants"].items()},
                             "isa_total_nodes": isa["total_nodes"]})
    for b in bad_isa[:8]:
        b2 = dict(b)
        b2.update(property=PID, what="code installed by variant %s can execute a %s instruction, which the variant's IMB_CPUFLAGS mask does not require: "
                                     "on a CPU with exactly the required features the selector installs the variant and the instruction faults (#UD)"
                                     % (b["variant"], b["feature"]),
                  replay="translators/t3_isa.py on the rebuilt library; see instruction / call_path")
        res.violation(b2, name="isa_%s_%s" % (b["variant"], b["feature"]))
    if isa_err and not bad_isa:
        res.violation(dict(property=PID, what="translators/t3_isa.py could not read the rebuilt library; Gen/GenIsa.v is stale, "
                                              "theorem installed_code_within_required_features is not re-established", error=isa_err),
                      note="no-failing-input-found", name="isa_translator")
    if bad_init:
        res.violation(dict(property=PID, what="init of a manager for an architecture whose CPU features are absent does not fail cleanly",
                           lines=bad_init, replay="harness/k8_init.c (no arguments)"), name="init_missing_flags")
    if bad_table:
        res.violation(dict(property=PID, what="variant selected by the library differs from the selection model over the header's masks",
                           lines=bad_table, variant_table=vt), name="variant_table")
    groups = {}
    for d in diffs:
        key = "alg=%s" % d["alg"]
        if any(("key=" + key + " ") in l + " " for l in known):
            continue
        groups.setdefault(d["alg"], d)
    for l in known:
        if any(("key=alg=%s " % d["alg"]) in l + " " for d in diffs):
            res.known.append(l.split(" ", 1)[1])
    for alg, d in list(groups.items())[:6]:
        d2 = dict(d)
        d2.update(property=PID, what="variants / entry points disagree on the same work item", seed=seed)
        res.violation(d2, name="variants_%s" % alg)
    if hangs:
        res.violation(dict(property=PID, what="harness timed out (hang in the library)"), name="hang")
    if broken_proof and not (bad_init or bad_table or groups or bad_isa):
        res.violation(dict(property=PID, broken_obligations=pres["failed"], log=pres["log"][-2000:],
                           note="theorems of Props/Properties_C08.v no longer check; init and variant differential found no failing input"),
                      note="no-failing-input-found", name="unproved")
    res.assumptions = ["absent CPU features are simulated by editing the public IMB_MGR.features word before init",
                       "avx2_t3 (AVX-IFMA) and avx2_t4 cannot execute on this host: covered only by the selection theorem"]
    return res.finish()


def replay(path):
    rp = json.load(open(path))
    common.build_lib()
    if "lines" in rp:
        k8 = common.build_harness("k8_init")
        p = common.run([k8], env=common.lib_env(), timeout=300)
        print(p.stdout)
        return 1 if ("CRASH" in p.stdout or "errno=0" in p.stdout) else 0
    if "instruction" in rp or "error" in rp:
        sys.path.insert(0, os.path.join(os.path.dirname(os.path.dirname(os.path.abspath(__file__))), "translators"))
        import t3_isa
        C = c04.consts()
        info = t3_isa.main()
        rc = 0
        for vname, r in info["variants"].items():
            for ft, w in (r or {}).get("features", {}).items():
                print(vname, ft, w["insn"], " > ".join(w["path"][-4:]))
        pres = common.props_check(PID)
        return 1 if (pres["failed"] or pres["discharged"] != pres["obligations"]) else 0
    k1 = common.build_harness("k1_algo", extra_src=["imbh.c"])
    workdir = os.path.join(common.BUILD, "c08")
    os.makedirs(workdir, exist_ok=True)
    pth = os.path.join(workdir, "replay.txt")
    open(pth, "w").write(rp["item"] + "\n")
    r, _ = c04.run_k1(k1, pth, "all", "all", 1)
    vals = set(v for v in r.values() if v != "skip")
    for k, v in sorted(r.items()):
        print(k, v[:160])
    return 1 if len(vals) > 1 else 0
