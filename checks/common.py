"""Shared machinery for all property checks (see DESIGN.md section 1.1)."""
import json, os, subprocess, sys, time, hashlib, shutil

VERIF = os.path.dirname(os.path.dirname(os.path.abspath(__file__)))
REPO = os.environ.get("IMB_REPO", "/repo")
BUILD = os.environ.get("IMB_VERIF_BUILD", os.path.join(VERIF, ".build"))
LIBDIR = os.path.join(BUILD, "lib")
LIBSO_DIR = os.path.join(LIBDIR, "lib")
COQDIR = os.environ.get("IMB_COQ_DIR") or os.path.join(VERIF, "coq")   # IMB_COQ_DIR: private copy for scratch trees
HARNESS = os.path.join(VERIF, "harness")
# when a check is pointed at a scratch copy of the repository (IMB_REPO), its evidence and replays go
# next to that copy's build, never into /verif/evidence (which must describe /repo itself)
_SCRATCH = "IMB_REPO" in os.environ and os.environ["IMB_REPO"] != "/repo"
EVID = os.path.join(BUILD, "evidence") if _SCRATCH else os.path.join(VERIF, "evidence")
REPLAYS = os.path.join(BUILD, "replays") if _SCRATCH else os.path.join(VERIF, "replays")
GUARD = "IMB_VERIF_HOOKS"
NCPU = os.cpu_count() or 4

ALLOWED_AXIOMS = set()  # every property theorem must be closed under the global context


def log(*a):
    print(*a, file=sys.stderr, flush=True)


def run(cmd, timeout=1800, cwd=None, env=None, check=False, input=None):
    e = dict(os.environ)
    if env:
        e.update(env)
    p = subprocess.run(cmd, cwd=cwd, env=e, timeout=timeout, input=input,
                       stdout=subprocess.PIPE, stderr=subprocess.PIPE, text=True,
                       shell=isinstance(cmd, str))
    if check and p.returncode != 0:
        raise RuntimeError("command failed (%d): %s\n%s\n%s" % (p.returncode, cmd, p.stdout[-4000:], p.stderr[-4000:]))
    return p


_inc_re = None


def _asm_includes(path, cache):
    """transitive %include closure of a NASM source (NASM's -MD depfile omits included files,
    so ninja would not rebuild an object when only a .inc changed)"""
    import re
    global _inc_re
    if _inc_re is None:
        _inc_re = re.compile(r'^\s*%include\s+"([^"]+)"', re.M)
    if path in cache:
        return cache[path]
    cache[path] = set()
    try:
        txt = open(path, errors="replace").read()
    except OSError:
        return cache[path]
    out = set()
    for inc in _inc_re.findall(txt):
        for base in (os.path.join(REPO, "lib"), os.path.join(REPO, "lib", "include"), os.path.dirname(path)):
            cand = os.path.join(base, inc)
            if os.path.exists(cand):
                out.add(cand)
                out |= _asm_includes(cand, cache)
                break
    cache[path] = out
    return out


def _invalidate_stale_asm_objects():
    objroot = os.path.join(LIBDIR, "lib", "CMakeFiles", "IPSec_MB.dir")
    if not os.path.isdir(objroot):
        return 0
    cache = {}
    n = 0
    for root, _, files in os.walk(objroot):
        for f in files:
            if not f.endswith(".asm.o"):
                continue
            obj = os.path.join(root, f)
            rel = os.path.relpath(obj, objroot)[:-2]          # e.g. avx512_t1/des_x16_avx512.asm
            src = os.path.join(REPO, "lib", rel)
            try:
                om = os.path.getmtime(obj)
            except OSError:
                continue
            deps = _asm_includes(src, cache)
            if any(os.path.getmtime(d) > om for d in deps if os.path.exists(d)):
                os.remove(obj)
                n += 1
    return n


def _invalidate_objects_without_deps():
    """ninja's deps log can lose the header list of an object when a build is interrupted (it then
    shows '#deps 0' and the object would never be rebuilt on a header change): drop such objects."""
    if not os.path.exists(os.path.join(LIBDIR, ".ninja_deps")):
        return 0
    p = subprocess.run(["ninja", "-C", LIBDIR, "-t", "deps"], stdout=subprocess.PIPE, stderr=subprocess.DEVNULL, text=True)
    n = 0
    seen = set()
    for l in p.stdout.splitlines():
        if l and not l.startswith(" ") and ": #deps" in l:
            obj, rest = l.split(": #deps", 1)
            seen.add(obj)
            cnt = int(rest.split(",")[0])
            if obj.endswith(".c.o") and cnt == 0:
                f = os.path.join(LIBDIR, obj)
                if os.path.exists(f):
                    os.remove(f)
                    n += 1
    objroot = os.path.join(LIBDIR, "lib", "CMakeFiles", "IPSec_MB.dir")
    for root, _, files in os.walk(objroot):
        for f in files:
            if f.endswith(".c.o"):
                rel = os.path.relpath(os.path.join(root, f), LIBDIR)
                if rel not in seen:
                    os.remove(os.path.join(root, f))
                    n += 1
    return n


def build_lib():
    """Incremental rebuild of the library from /repo's working tree (hooks on).
    Serialised by a file lock: concurrent ninja runs in one build directory corrupt its logs."""
    import fcntl
    os.makedirs(BUILD, exist_ok=True)
    with open(os.path.join(BUILD, "lib.lock"), "w") as lk:
        fcntl.flock(lk, fcntl.LOCK_EX)
        return _build_lib_locked()


def _build_lib_locked():
    t0 = time.time()
    _invalidate_stale_asm_objects()
    _invalidate_objects_without_deps()
    if not os.path.exists(os.path.join(LIBDIR, "build.ninja")):
        run(["cmake", "-G", "Ninja", "-S", REPO, "-B", LIBDIR, "-DCMAKE_BUILD_TYPE=RelWithDebInfo",
             "-DBUILD_LIBRARY_ONLY=ON", "-DEXTRA_CFLAGS=-D" + GUARD], check=True, timeout=600)
    p = run(["cmake", "--build", LIBDIR, "-j", str(NCPU)], timeout=3000)
    if p.returncode != 0:
        raise RuntimeError("library build failed:\n" + p.stdout[-6000:] + p.stderr[-3000:])
    return time.time() - t0


def lib_env():
    return {"LD_LIBRARY_PATH": LIBSO_DIR}


def build_harness(name, extra_src=(), extra_flags=()):
    """Compile harness/<name>.c against the rebuilt library; returns the binary path."""
    out = os.path.join(BUILD, "bin")
    os.makedirs(out, exist_ok=True)
    exe = os.path.join(out, name)
    srcs = [os.path.join(HARNESS, name + ".c")] + [os.path.join(HARNESS, s) for s in extra_src]
    deps = srcs + [os.path.join(HARNESS, f) for f in os.listdir(HARNESS) if f.endswith(".h")]
    deps += [os.path.join(REPO, "lib", "intel-ipsec-mb.h")]
    newest = max(os.path.getmtime(d) for d in deps if os.path.exists(d))
    if os.path.exists(exe) and os.path.getmtime(exe) > newest:
        return exe
    cmd = ["gcc", "-O1", "-g", "-Wall", "-Wno-unused-function", "-DLINUX", "-D" + GUARD,
           "-I", os.path.join(REPO, "lib"), "-I", os.path.join(REPO, "lib", "include"), "-I", HARNESS,
           "-o", exe] + srcs + list(extra_flags) + ["-L", LIBSO_DIR, "-lIPSec_MB", "-lpthread"]
    run(cmd, check=True, timeout=600)
    return exe


def coq_make(targets, timeout=1800):
    """make -k the given .vo targets in coq/. Returns (ok, output). Serialised by a file lock
    (concurrent makes in one directory trip over each other's half-written .vo files)."""
    import fcntl
    os.makedirs(BUILD, exist_ok=True)
    with open(os.path.join(BUILD, "coq.lock"), "w") as lk:
        fcntl.flock(lk, fcntl.LOCK_EX)
        return _coq_make_locked(targets, timeout)


def _coq_make_locked(targets, timeout=1800):
    mk = os.path.join(COQDIR, "Makefile")
    cp = os.path.join(COQDIR, "_CoqProject")
    # Generated files (coq/Gen/*.v) are listed in _CoqProject but exist only once their translator has run; a listed
    # file that is missing would make coqdep (and with it every target) fail.  The Makefile is therefore generated
    # from the project restricted to the files present now, and regenerated whenever that set changes.
    lines = open(cp).read().splitlines()
    present = [l for l in lines if not l.strip().endswith(".v") or os.path.exists(os.path.join(COQDIR, l.strip()))]
    pp = os.path.join(COQDIR, "_CoqProject.present")
    txt = "\n".join(present) + "\n"
    if not os.path.exists(pp) or open(pp).read() != txt or not os.path.exists(mk):
        open(pp, "w").write(txt)
        run(["coq_makefile", "-f", "_CoqProject.present", "-o", "Makefile"], cwd=COQDIR, check=True)
    p = run(["timeout", str(timeout), "make", "-k", "-j", str(NCPU)] + list(targets), cwd=COQDIR, timeout=timeout + 30)
    return p.returncode == 0, p.stdout + p.stderr


def coq_theorems(vfile):
    """Names of Theorem statements in a Props file (the obligations)."""
    import re
    src = open(os.path.join(COQDIR, vfile)).read()
    return re.findall(r"^\s*Theorem\s+([A-Za-z0-9_']+)", src, re.M)


def forbidden_tokens():
    """grep the development for anything that would declare an axiom or disable a check."""
    import re
    bad = []
    pat = re.compile(r"\b(Admitted|admit|Axiom|Axioms|Parameter|Parameters|Conjecture|Abort All|bypass_check|Admit Obligations)\b|Unset\s+Guard|Unset\s+Positivity|Unset\s+Universe|type-in-type|impredicative-set|native_compute")
    for root, _, files in os.walk(COQDIR):
        for f in files:
            if not f.endswith(".v"):
                continue
            p = os.path.join(root, f)
            txt = open(p, errors="replace").read()
            # strip comments (non-nested approximation, good enough: nested comments rare)
            txt2 = re.sub(r"\(\*.*?\*\)", "", txt, flags=re.S)
            for m in pat.finditer(txt2):
                bad.append("%s: %s" % (os.path.relpath(p, COQDIR), m.group(0)))
    return bad


def props_check(pid, extra_targets=()):
    """Build Props/Properties_<pid>.vo; parse Print Assumptions output.
    Returns dict(obligations, discharged, failed=[names], axioms={thm: [..]}, log)."""
    vfile = "Props/Properties_%s.v" % pid
    vo = vfile + "o"
    # the header constants (Gen/GenConsts.v) sit under most models: regenerate them from the current tree first
    # (written only when the content changes)
    try:
        sys.path.insert(0, os.path.join(VERIF, "translators"))
        import t0_consts
        t0_consts.main()
    except Exception as ex:     # the check's own translator run reports the details
        log("t0_consts failed: %r" % (ex,))
    # force re-execution of the props file so Print Assumptions output is captured
    try:
        os.remove(os.path.join(COQDIR, vo))
    except FileNotFoundError:
        pass
    ok, out = coq_make([vo] + list(extra_targets))
    thms = coq_theorems(vfile)
    res = {"obligations": len(thms), "discharged": 0, "failed": [], "axioms": {}, "log": out[-8000:], "theorems": thms}
    bad = forbidden_tokens()
    if bad:
        res["failed"] = ["forbidden token: " + b for b in bad[:20]]
        return res
    if not ok or not os.path.exists(os.path.join(COQDIR, vo)):
        res["failed"] = ["build of %s failed" % vo]
        return res
    # Print Assumptions output: one block per theorem, in order
    import re
    blocks = re.split(r"^(?=Closed under the global context|Axioms:)", out, flags=re.M)
    blocks = [b for b in blocks if b.startswith("Closed under") or b.startswith("Axioms:")]
    if len(blocks) != len(thms):
        res["failed"] = ["expected %d Print Assumptions blocks, found %d" % (len(thms), len(blocks))]
        return res
    for t, b in zip(thms, blocks):
        if b.startswith("Closed under"):
            res["discharged"] += 1
            res["axioms"][t] = []
        else:
            ax = re.findall(r"^([A-Za-z0-9_.']+)\s*:", b, flags=re.M)
            ax = [a for a in ax if a != "Axioms"]
            res["axioms"][t] = ax
            if set(ax) <= ALLOWED_AXIOMS:
                res["discharged"] += 1
            else:
                res["failed"].append("%s depends on axioms %s" % (t, ax))
    return res


def known_findings(pid):
    """Entries of known_findings.txt for this property: list of (kind, key, text)."""
    out = []
    p = os.path.join(VERIF, "known_findings.txt")
    if not os.path.exists(p):
        return out
    for line in open(p):
        line = line.strip()
        if not line or line.startswith("#"):
            continue
        if ("property=%s " % pid) in line + " ":
            kind = "fixed" if line.startswith("fixed:") else "known"
            out.append((kind, line))
    return out


class Result:
    def __init__(self, pid, tier, seed, level="proof"):
        self.pid, self.tier, self.seed, self.level = pid, tier, seed, level
        self.t0 = time.time()
        self.coverage = {}
        self.assumptions = []
        self.violations = []   # list of (replay_path, note)
        self.known = []

    def violation(self, replay_obj, note="", name=None):
        os.makedirs(REPLAYS, exist_ok=True)
        h = hashlib.sha1(json.dumps(replay_obj, sort_keys=True, default=str).encode()).hexdigest()[:10]
        path = os.path.join(REPLAYS, "%s_%s.json" % (self.pid, name or h))
        with open(path, "w") as f:
            json.dump(replay_obj, f, indent=1, default=str)
        self.violations.append((path, note))
        return path

    def finish(self):
        cov = self.coverage
        ev = {"property_id": self.pid, "tier": self.tier, "seed": int(self.seed), "level": self.level,
              "coverage": cov, "assumptions": self.assumptions, "wall_s": round(time.time() - self.t0, 2),
              "violations": len(self.violations)}
        os.makedirs(EVID, exist_ok=True)
        with open(os.path.join(EVID, self.pid + ".json"), "w") as f:
            json.dump(ev, f, indent=1, default=str)
        for k in self.known:
            print("KNOWN-FINDING: property=%s %s" % (self.pid, k))
        for path, note in self.violations:
            print(("VIOLATION property=%s replay=%s %s" % (self.pid, path, note)).rstrip())
        sys.stdout.flush()
        return 1 if self.violations else 0


def proof_coverage(res, pres, checker_cmd, trusted):
    res.coverage.update({
        "obligations": pres["obligations"], "discharged": pres["discharged"],
        "checker_cmd": checker_cmd, "trusted_base": trusted,
        "theorems": pres.get("theorems", []), "axioms": pres.get("axioms", {}),
    })


class Rng:
    """splitmix64; every random choice in a check derives from one state."""
    def __init__(self, seed):
        self.s = (int(seed) * 0x9E3779B97F4A7C15 + 0x1234567) & 0xFFFFFFFFFFFFFFFF
    def next(self):
        self.s = (self.s + 0x9E3779B97F4A7C15) & 0xFFFFFFFFFFFFFFFF
        z = self.s
        z = ((z ^ (z >> 30)) * 0xBF58476D1CE4E5B9) & 0xFFFFFFFFFFFFFFFF
        z = ((z ^ (z >> 27)) * 0x94D049BB133111EB) & 0xFFFFFFFFFFFFFFFF
        return z ^ (z >> 31)
    def below(self, n):
        return self.next() % n
    def choice(self, l):
        return l[self.below(len(l))]
    def bytes(self, n):
        out = bytearray()
        while len(out) < n:
            out += self.next().to_bytes(8, "little")
        return bytes(out[:n])
    def chance(self, num, den):
        return self.below(den) < num


EXPECTED_VARIANTS = ["sse:f0", "sse:f1", "sse:f2", "avx2:f0", "avx2:f1", "avx512:f0", "avx512:f1"]


def missing_variants(k1_exe):
    """Variants the host is known to reach but the rebuilt library no longer offers (the harness drops a
    variant whose init fails, e.g. because a kernel change breaks the power-up self test: a check
    that then runs on fewer variants would pass vacuously). Returns (missing list, table text)."""
    p = run([k1_exe, "--list-variants"], env=lib_env(), timeout=300)
    have = [t.split("=", 1)[1] for l in p.stdout.splitlines() if l.startswith("variant=") for t in l.split()[:1]]
    return [v for v in EXPECTED_VARIANTS if v not in have], p.stdout + p.stderr[-2000:]
