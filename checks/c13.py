"""C13 -- SAFE_DATA: no key or plaintext residue once no job is in flight.

Proof : coq/Props/Properties_C13.v over the storage model coq/Mgr/SafeData.v (abstract out-of-order
        lane managers with the SAFE_DATA clearing steps of the submit/flush assembly transcribed per
        manager family): for ALL histories of submits and flushes every sensitive field of a lane
        without a job equals its reset image.
Tie   : K4+K2, harness/k13_scan.c + k13_tramp.S.  Every handler of a manager is hooked by an assembly
        trampoline that runs the library on a private stack and snapshots all registers at the
        return.  After every call the storage invariant of the model is measured on the real
        manager (free lane => claimed fields all-zero), and whenever no lane holds a job the
        register snapshot, the library's stack and the whole manager memory are scanned for every
        8-byte window of the raw keys, the plaintext and the derived key material the harness
        computed beforehand with the library's own helpers on a second manager.
Search: the scan hit IS the failing input (schedule, variant, call, place, secret).
Claimed PARTIAL: registers and stack are runtime artefacts; the model gives the storage theorem and
        tells the scan what to look for, the scan supplies the rest on the inputs explored.
"""
import os, sys, re, json, time, collections, concurrent.futures as cf
from . import common
from .common import Rng, Result, log

PID = "C13"
VARIANTS = ["sse:f0", "sse:f1", "sse:f2", "avx2:f0", "avx2:f1", "avx512:f0", "avx512:f1"]
C_NULL, H_NULL = 3, 8
BIT_CIPHERS = (13, 15, 16)
BITOFF_CIPHERS = (15, 16)
BIT_HASHES = (18, 20, 22, 31)
BLOCK16 = (1, 12, 17, 24, 25, 26)  # CBC ECB CBCS SM4_ECB SM4_CBC CFB
BLOCK8 = (7, 10)                   # DES 3DES
HMACS = (1, 2, 3, 4, 5, 7, 48)
WORK = os.path.join(common.BUILD, "c13")
USED_SIDS = set()
TEMPLATES = os.path.join(common.HARNESS, "k1_selftest_cases.txt")
FIELDS = ("id", "cipher", "dir", "hash", "order", "key", "akey", "iv", "aiv", "aad", "msg", "coff", "clen",
          "hoff", "hlen", "tag", "inplace", "salign", "dalign")


# ---------------------------------------------------------------------------------------------
# work items
# ---------------------------------------------------------------------------------------------
def hx(b):
    return b.hex() if b else "-"


def unhx(s):
    return b"" if s in ("-", "") else bytes.fromhex(s)


def parse_item(line):
    kv = {}
    for t in line.split():
        if "=" in t:
            k, v = t.split("=", 1)
            kv[k] = v
    it = {}
    for k in ("id", "cipher", "dir", "hash", "order", "coff", "clen", "hoff", "hlen", "tag", "inplace", "salign", "dalign"):
        it[k] = int(kv.get(k, {"dir": 1, "order": 1}.get(k, 0)), 0)
    for k in ("key", "akey", "iv", "aiv", "aad", "msg"):
        it[k] = unhx(kv.get(k, "-"))
    it["name"] = kv.get("name", "?")
    for k in ("doff", "hdst"):
        if k in kv:
            it[k] = int(kv[k], 0)
    return it


def item_line(it):
    out = []
    for k in FIELDS:
        v = it[k]
        out.append("%s=%s" % (k, hx(v) if isinstance(v, (bytes, bytearray)) else v))
    for k in ("doff", "hdst"):
        if k in it:
            out.append("%s=%d" % (k, it[k]))
    return " ".join(out)


def load_templates():
    ts = []
    for line in open(TEMPLATES):
        if line.startswith("#") or not line.strip():
            continue
        ts.append(parse_item(line))
    return ts


def simple_geometry(t):
    """whole message ciphered and/or hashed, byte granular offsets 0"""
    n = len(t["msg"])
    c, h = t["cipher"], t["hash"]
    if c != C_NULL:
        if t["coff"] != 0 or t["clen"] != (n * 8 if c in BIT_CIPHERS else n):
            return False
    if h != H_NULL and t["hlen"]:
        if t["hoff"] != 0 or t["hlen"] != (n * 8 if h in BIT_HASHES else n):
            return False
    return c not in (11, 4, 8) and h not in (19, 21, 23)     # PON / DOCSIS / KASUMI-F9 framing stays as is


def unit_of(t):
    c = t["cipher"]
    return 16 if c in BLOCK16 else 8 if c in BLOCK8 else 1


def randomize(rng, t, new_len=None, ident=0):
    """fresh high-entropy keys / text with the geometry of template t"""
    it = dict(t)
    it["id"] = ident
    it["key"] = rng.bytes(len(t["key"]))
    it["akey"] = rng.bytes(len(t["akey"]))
    if len(t["iv"]) not in (23, 25):            # ZUC-256 IVs carry 6-bit fields: keep the vector's
        it["iv"] = rng.bytes(len(t["iv"]))
    it["aad"] = rng.bytes(len(t["aad"]))
    if t["hash"] != 46:                          # GHASH _init_tag is sized by the tag, keep
        it["aiv"] = rng.bytes(len(t["aiv"])) if len(t["aiv"]) not in (23, 25) else t["aiv"]
    n = len(t["msg"])
    if new_len is not None and simple_geometry(t):
        u = unit_of(t)
        n = max(u, new_len - new_len % u)
        if t["cipher"] != C_NULL:
            it["clen"] = n * 8 if t["cipher"] in BIT_CIPHERS else n
        if t["hash"] != H_NULL and t["hlen"]:
            it["hlen"] = n * 8 if t["hash"] in BIT_HASHES else n
    msg = bytearray(rng.bytes(n))
    if t["cipher"] == 11 or t["hash"] == 19:     # PON: the XGEM header (PLI) must stay consistent
        msg[:8] = t["msg"][:8]
        msg = msg[:len(t["msg"])] + bytearray(max(0, len(t["msg"]) - len(msg)))
    it["msg"] = bytes(msg)
    return it


def cipher_range(it):
    o, l, c = it["coff"], it["clen"], it["cipher"]
    n = len(it["msg"])
    if c in BITOFF_CIPHERS:
        l = ((o % 8) + l + 7) // 8
        o //= 8
    elif c in BIT_CIPHERS:
        l = (l + 7) // 8
    o = min(o, n)
    return o, min(l, n - o)


# ---------------------------------------------------------------------------------------------
# schedules
# ---------------------------------------------------------------------------------------------
class Sched:
    __slots__ = ("sid", "ep", "items", "pts", "suite", "shape")

    def __init__(self, sid, ep, items, pts, suite, shape):
        self.sid, self.ep, self.items, self.pts, self.suite, self.shape = sid, ep, items, pts, suite, shape

    def text(self):
        out = ["S %s ep=%d" % (self.sid, self.ep)]
        for it, pt in zip(self.items, self.pts):
            if pt:
                out.append("P " + hx(pt))
            out.append("I " + item_line(it))
        out.append("E")
        return "\n".join(out) + "\n"


def suite_name(t):
    return "c%d-h%d-k%d-a%d-d%d-o%d" % (t["cipher"], t["hash"], len(t["key"]), len(t["akey"]), t["dir"], t["order"])


LENGTHS = [16, 32, 48, 64, 80, 112, 128, 160, 256, 272, 400, 512, 1024, 1040]
ODD_LENGTHS = [1, 7, 15, 17, 33, 55, 56, 63, 65, 100, 111, 112, 119, 127, 129, 200, 255, 257, 511, 1000, 1500]


def lanes_for(t):
    return 34 if t["hash"] == 7 else 18      # more jobs than the widest manager has lanes


def shapes_for(tier, t):
    full = lanes_for(t)
    sh = [("single", 1, 0), ("full", full, 0), ("partial", 3, 2)]
    if tier != "quick":
        sh += [("partial", 3, 0), ("full-burst", full, 2), ("nocheck", 2, 1), ("burst-nocheck", 5, 3)]
    # synchronous burst and direct API: the harness skips what an algorithm does not offer
    sh += [("sync", 3, 4), ("direct", 1, 5)]
    if t["cipher"] in (5, 19) and len(t["iv"]) == 12:
        sh += [("ctx-direct", 1, 7)]          # streaming direct API, the context is scanned after FINALIZE
    if (t["cipher"] == 18 and len(t["key"]) == 32) or (t["cipher"] == 12 and len(t["key"]) in (16, 32)):
        sh += [("quic-hp", 16, 8)]            # QUIC header protection with this key, 1..32 packets per call
    if t["cipher"] in (5, 19) and len(t["iv"]) == 12 and len(t["key"]) in (16, 32) and t["dir"] == 1:
        sh += [("quic-aead", 16, 8)]          # imb_quic_aes_gcm / imb_quic_chacha20_poly1305, 1..32 packets per call
    if tier != "quick":
        sh += [("sync-nocheck", 3, 6)]
    return sh


def gen_lengths(rng, t, n, mixed):
    if not simple_geometry(t):
        return [None] * n
    pool = LENGTHS if unit_of(t) > 1 else LENGTHS + ODD_LENGTHS
    if not mixed:
        l = rng.choice(pool)
        return [l] * n
    return [rng.choice(pool) for _ in range(n)]


def pick_templates(ts, tier, rng):
    """one or more templates per distinct suite"""
    groups = collections.OrderedDict()
    for t in ts:
        groups.setdefault(suite_name(t), []).append(t)
    out = []
    for k, g in groups.items():
        if tier == "quick":
            out.append(rng.choice(g))
        else:
            picks = set([0, len(g) - 1, rng.below(len(g))])
            out += [g[i] for i in sorted(picks)]
    return out


CHAIN_CIPHERS = [(1, 16), (1, 32), (2, 16), (2, 24), (12, 16), (7, 8), (10, 24), (14, 16), (15, 16), (16, 16), (18, 32),
                 (25, 16), (26, 16), (4, 16), (27, 16)]
CHAIN_HASHES = [1, 2, 3, 4, 5, 7, 6, 12, 27, 15, 20, 22, 23, 28, 35, 46, 24, 48]


def chain_templates(ts, tier, rng):
    """cipher + hash in one job: encrypt-then-MAC over the ciphertext (in place) and its inverse"""
    byc, byh = {}, {}
    for t in ts:
        if t["hash"] == H_NULL and t["dir"] == 1 and simple_geometry(t):
            byc.setdefault((t["cipher"], len(t["key"])), t)
        if t["cipher"] == C_NULL and simple_geometry(t) and t["hlen"]:
            byh.setdefault(t["hash"], t)
    pairs = [(c, h) for c in CHAIN_CIPHERS if c in byc for h in CHAIN_HASHES if h in byh]
    if tier == "quick":
        # every cipher and every hash at least once
        sel = []
        for i, c in enumerate([c for c in CHAIN_CIPHERS if c in byc]):
            hs = [h for h in CHAIN_HASHES if h in byh]
            sel.append((c, hs[i % len(hs)]))
        for i, h in enumerate([h for h in CHAIN_HASHES if h in byh]):
            cs = [c for c in CHAIN_CIPHERS if c in byc]
            sel.append((cs[(i * 5 + 1) % len(cs)], h))
        pairs = sorted(set(sel))
    out = []
    for c, h in pairs:
        tc, th = byc[c], byh[h]
        t = dict(tc)
        for k in ("hash", "akey", "aiv", "tag"):
            t[k] = th[k]
        n = len(tc["msg"])
        t["hoff"], t["hlen"] = 0, (n * 8 if h in BIT_HASHES else n)
        t["inplace"], t["order"], t["dir"] = 1, 1, 1
        t["name"] = "chain"
        out.append(t)
    return out


def build_schedules(tier, seed):
    rng = Rng(seed * 7919 + 13)
    ts = load_templates()
    scheds, need_ct = [], []      # need_ct: (sched, index) whose msg must become ciphertext
    sid = [0]

    def new_sid():
        sid[0] += 1
        return "s%05d" % sid[0]

    def add(t, shape, n, ep, mixed):
        lens = gen_lengths(rng, t, n, mixed)
        items = [randomize(rng, t, lens[i], ident=i + 1) for i in range(n)]
        s = Sched(new_sid(), ep, items, [None] * n, suite_name(t), shape)
        scheds.append(s)
        return s

    enc = [t for t in pick_templates(ts, tier, rng) if t["dir"] == 1]
    for t in enc:
        for shape, n, ep in shapes_for(tier, t):
            add(t, shape, n, ep, mixed=shape.startswith("full") or shape.startswith("partial"))
            if tier != "quick" and shape == "full":
                add(t, "full-equal", n, ep, mixed=False)

    # decrypt direction: ciphertext produced by the library itself (reference run through k1_algo)
    byname = collections.defaultdict(dict)
    for t in ts:
        byname[t["name"]].setdefault(t["dir"], t)
    seen = set()
    for name, d in byname.items():
        if 1 not in d or 2 not in d:
            continue
        t1, t2 = d[1], d[2]
        key = suite_name(t2)
        if key in seen and tier == "quick":
            continue
        seen.add(key)
        for shape, n, ep in ([("single", 1, 0), ("full", lanes_for(t2), 0)] if tier == "quick" else
                             [("single", 1, 0), ("full", lanes_for(t2), 0), ("partial", 3, 2), ("direct", 1, 5), ("sync", 3, 4)]) + \
                            ([("ctx-direct", 1, 7)] if t2["cipher"] in (5, 19) and len(t2["iv"]) == 12 else []):
            t = dict(t2)
            t["dir"], t["order"], t["inplace"] = 1, t1["order"], 1
            for k in ("doff", "hdst"):
                t.pop(k, None)
            s = add(t, "dec-" + shape, n, ep, mixed=shape == "full")
            s.suite = suite_name(t2)
            for i in range(n):
                need_ct.append((s, i, t2))
    chains = chain_templates(ts, tier, rng)
    for t in chains:
        for shape, n, ep in ([("chain-single", 1, 0), ("chain-full", 18, 0)] if tier == "quick" else
                             [("chain-single", 1, 0), ("chain-full", 18, 0), ("chain-burst", 5, 2), ("chain-equal", 18, 0)]):
            s = add(t, shape, n, ep, mixed=shape in ("chain-full", "chain-burst"))
            if tier != "quick" and shape == "chain-single":
                # and the inverse: hash then decrypt
                s2 = add(t, "chain-dec", 3, 0, mixed=True)
                t2 = dict(t)
                t2["dir"], t2["order"] = 2, 2
                s2.suite = suite_name(t2)
                for i in range(3):
                    need_ct.append((s2, i, t2))
    return scheds, need_ct


def make_ciphertexts(k1, need_ct):
    """run the encrypt items through the library (un-hooked, k1_algo) and turn them into decrypt items"""
    if not need_ct:
        return 0
    os.makedirs(WORK, exist_ok=True)
    cf_path = os.path.join(WORK, "enc_items.txt")
    with open(cf_path, "w") as f:
        for n, (s, i, t2) in enumerate(need_ct):
            it = dict(s.items[i])
            it["id"] = n
            f.write(item_line(it) + "\n")
    p = common.run([k1, cf_path, "--variants", "sse:f0", "--eps", "0"], env=common.lib_env(), timeout=600)
    got = {}
    for line in p.stdout.splitlines():
        m = re.match(r"id=(\d+) var=\S+ ep=0 status=(-?\d+) errno=(-?\d+) dst=(\S+) tag=(\S+)", line)
        if m:
            got[int(m.group(1))] = (int(m.group(2)), unhx(m.group(4)))
    bad = 0
    for n, (s, i, t2) in enumerate(need_ct):
        st, dst = got.get(n, (-99, b""))
        it = s.items[i]
        if st != 3 or len(dst) != len(it["msg"]):
            bad += 1
            s.items[i] = None
            continue
        pt = it["msg"]
        d = dict(it)
        d["dir"], d["order"] = 2, t2["order"]
        d["inplace"], d["salign"], d["dalign"] = t2["inplace"], t2["salign"], t2["dalign"]
        d["msg"] = dst
        s.items[i] = d
        s.pts[i] = pt
    for s in set(x[0] for x in need_ct):
        keep = [(it, pt) for it, pt in zip(s.items, s.pts) if it is not None]
        s.items = [k[0] for k in keep]
        s.pts = [k[1] for k in keep]
    return bad


# ---------------------------------------------------------------------------------------------
# tools
# ---------------------------------------------------------------------------------------------
def slot_file():
    """names of the IMB_MGR handlers by slot index (offsetof, computed by the C compiler)"""
    os.makedirs(WORK, exist_ok=True)
    hdr = os.path.join(common.REPO, "lib", "intel-ipsec-mb.h")
    out = os.path.join(WORK, "slots.txt")
    src = open(hdr).read()
    a, b = src.index("get_next_job_t get_next_job;"), src.index("int earliest_job;")
    body = re.sub(r"/\*.*?\*/", "", src[a:b], flags=re.S)
    names = re.findall(r"(\w+)\s*;", body) + re.findall(r"\(\s*\*\s*(\w+)\s*\)\s*\(", body)
    c = "#include <stdio.h>\n#include <stddef.h>\n#include <intel-ipsec-mb.h>\nint main(void){\n"
    c += 'printf("N %zu\\n",(offsetof(IMB_MGR,earliest_job)-offsetof(IMB_MGR,get_next_job))/8);\n'
    for n in names:
        c += 'printf("%%zu %s\\n",(offsetof(IMB_MGR,%s)-offsetof(IMB_MGR,get_next_job))/8);\n' % (n, n)
    c += "return 0;}\n"
    cp = os.path.join(WORK, "slots.c")
    open(cp, "w").write(c)
    exe = os.path.join(WORK, "slots")
    common.run(["gcc", "-I", os.path.join(common.REPO, "lib"), cp, "-o", exe], check=True, timeout=120)
    p = common.run([exe], check=True, timeout=30)
    tab, total = {}, 0
    for line in p.stdout.splitlines():
        i, n = line.split()
        if i == "N":
            total = int(n)
        else:
            tab[int(i)] = n
    with open(out, "w") as f:
        for i in range(total):
            f.write(tab.get(i, "slot%d" % i) + "\n")
    return out


def build_tools():
    exe = os.path.join(common.BUILD, "bin", "k13_scan")
    dep = os.path.join(common.HARNESS, "imbh.c")       # included textually by k13_scan.c
    if os.path.exists(exe) and os.path.getmtime(exe) < max(os.path.getmtime(dep), os.path.getmtime(
            os.path.join(common.REPO, "lib", "include", "ipsec_ooo_mgr.h"))):
        os.remove(exe)
    k13 = common.build_harness("k13_scan", extra_src=["k13_tramp.S"])
    k1 = common.build_harness("k1_algo", extra_src=["imbh.c"])
    return k13, k1


def model_claims():
    """(arch class, manager, field) triples the Coq model proves clean for free lanes"""
    ok, out = common.coq_make(["Mgr/SafeDataInst.vo"])
    if not ok:
        return None, out[-3000:]
    p = common.run(["timeout", "300", "coqc", "-Q", ".", "IMB", "Extract/PrintSafeData.v"], cwd=common.COQDIR, timeout=330)
    txt = p.stdout
    # two values are printed, each a list of (string * (string * string)): take the string literals in order
    parts = txt.split(": list")
    if p.returncode != 0 or len(parts) < 3:
        return None, (txt + p.stderr)[-3000:]
    out = []
    for part in parts[:2]:
        lits = re.findall(r'"([^"]*)"', part)
        if len(lits) % 3:
            return None, "unparsable claim table"
        out.append(set((lits[i], lits[i + 1], lits[i + 2]) for i in range(0, len(lits), 3)))
    if not out[0]:
        return None, "empty claim table"
    global JUNK_OK
    JUNK_OK = out[1]
    return out[0] | out[1], ""


JUNK_OK = set()


def arch_class(var, tmgr_type=None):
    """variant name -> implementation class used by the model tables"""
    return {"sse:f0": "sse", "sse:f1": "sse", "sse:f2": "sse", "avx2:f0": "avx2", "avx2:f1": "avx2",
            "avx512:f0": "avx512-vaes", "avx512:f1": "avx512"}[var]


def run_variant(args):
    k13, var, text, slots, tag = args
    path = os.path.join(WORK, "sched_%s_%s.txt" % (var.replace(":", "_"), tag))
    with open(path, "w") as f:
        f.write(text)
    t0 = time.time()
    try:
        p = common.run([k13, "--variant", var, "--slots", slots, path], env=common.lib_env(), timeout=900)
        rc, out, err = p.returncode, p.stdout, p.stderr
    except Exception as ex:
        out = getattr(ex, "stdout", None) or ""
        if isinstance(out, bytes):
            out = out.decode(errors="replace")
        rc, err = -999, "timeout: harness did not terminate (hang inside the library?)"
    return dict(var=var, rc=rc, out=out, err=err[-2000:], secs=time.time() - t0, path=path)


def kv_of(line):
    d = {}
    for t in line.split()[1:]:
        if "=" in t:
            k, v = t.split("=", 1)
            d[k] = v
    return d


JOB_API = ("get_next_job", "submit_job", "submit_job_nocheck", "get_completed_job", "flush_job", "queue_size",
           "get_next_burst", "submit_burst", "submit_burst_nocheck", "flush_burst", "submit_cipher_burst",
           "submit_cipher_burst_nocheck", "submit_hash_burst", "submit_hash_burst_nocheck", "submit_aead_burst",
           "submit_aead_burst_nocheck", "final")


def hit_signature(h, suite):
    """narrow enough to tell two defects apart, wide enough to survive other seeds.
    Residues left by a key-preparation helper or a direct-API function are named by that function;
    residues of the job / burst API by the algorithms of the suite."""
    where = h["where"]
    if h["kind"] == "reg":
        where = re.sub(r"\d+\+\d+$", "", where)           # zmm3+16 -> zmm
        if where in ("rax", "rbx", "rcx", "rdx", "rsi", "rdi", "rbp", "rsp") or re.match(r"r\d+$", where):
            where = "gpr"
    elif h["kind"] == "stack":
        where = "stack"
    elif h["kind"] == "ctx":
        where = re.sub(r"\+0x[0-9a-f]+$", "", where)
    else:
        where = re.sub(r"\+0x[0-9a-f]+$", "", where)
        where = re.sub(r"\[\d+\]", "[]", where)
    m = re.match(r"c(\d+)-h(\d+)-", suite)
    fam = h["var"].split(":")[0]
    left = h["leftby"].split(":", 1)[1]
    cls = h["secret"].split(":")[1].split("+")[0]
    if left in JOB_API:
        return "hit:%s:job-api:c%s/h%s:%s:%s:%s" % (fam, m.group(1), m.group(2), h["kind"], where, cls)
    return "hit:%s:%s:%s:%s:%s" % (fam, left, h["kind"], where, cls)


def run_all(k13, slots, scheds, variants, tag="main"):
    text = "".join(s.text() for s in scheds if s.items)
    jobs = []
    # split each variant's work in chunks so that all cores are used and one crash loses little
    per = max(1, (len(scheds) * len(variants)) // (common.NCPU * 2) + 1)
    for var in variants:
        live = [s for s in scheds if s.items]
        for ci in range(0, len(live), per):
            jobs.append((k13, var, "".join(s.text() for s in live[ci:ci + per]), slots, "%s_%d" % (tag, ci)))
    res = []
    with cf.ThreadPoolExecutor(max_workers=common.NCPU) as ex:
        for r in ex.map(run_variant, jobs):
            res.append(r)
    return res


def analyse(results, scheds):
    bysid = {s.sid: s for s in scheds}
    hits, dirty, used, sched_rows, crashes, totals = [], [], set(), [], [], collections.Counter()
    global USED_SIDS
    USED_SIDS = set()
    for r in results:
        ended = set()
        started = None
        for line in r["out"].splitlines():
            if line.startswith("HIT "):
                h = kv_of(line)
                h["suite"] = bysid[h["sid"]].suite if h["sid"] in bysid else "?"
                h["shape"] = bysid[h["sid"]].shape if h["sid"] in bysid else "?"
                hits.append(h)
            elif line.startswith("DIRTY "):
                d = kv_of(line)
                d["suite"] = bysid[d["sid"]].suite if d["sid"] in bysid else "?"
                dirty.append(d)
            elif line.startswith("USED "):
                d = kv_of(line)
                used.add((arch_class(d["var"]), d["ooo"], d["field"]))
                USED_SIDS.add((d["sid"], d["var"], d["ooo"], d["field"]))
            elif line.startswith("SCHED "):
                d = kv_of(line)
                sched_rows.append(d)
                ended.add(d["sid"])
            elif line.startswith("TOTAL "):
                d = kv_of(line)
                for k in ("schedules", "calls", "idle_scans", "windows", "free_lane_field_checks"):
                    totals[k] += int(d.get(k, 0))
        if r["rc"] != 0:
            # which schedule was running: first one of the chunk without a SCHED line
            sids = re.findall(r"^S (\S+)", open(r["path"]).read(), flags=re.M)
            cur = next((s for s in sids if s not in ended), None)
            crashes.append(dict(var=r["var"], rc=r["rc"], err=r["err"][-400:], sid=cur, path=r["path"]))
    return hits, dirty, used, sched_rows, crashes, totals


def rekey(s, seed, what):
    """copy of schedule s with fresh keys (what='key') or fresh message text (what='text')"""
    rng = Rng(seed)
    items = []
    for it in s.items:
        it = dict(it)
        if what == "key":
            it["key"], it["akey"] = rng.bytes(len(it["key"])), rng.bytes(len(it["akey"]))
        else:
            m = bytearray(rng.bytes(len(it["msg"])))
            if it["cipher"] == 11 or it["hash"] == 19:
                m[:8] = it["msg"][:8]
            it["msg"] = bytes(m)
        items.append(it)
    return Sched(s.sid, s.ep, items, [None if what == "text" else p for p in s.pts], s.suite, s.shape)


def dirty_now(k13, slots, s, var, ooo, field, tag):
    r = run_variant((k13, var, s.text(), slots, tag))
    for line in r["out"].splitlines():
        if line.startswith("DIRTY "):
            d = kv_of(line)
            if d["ooo"] == ooo and d["field"] == field:
                return d
    return None


def confirm_dirty(k13, slots, s, var, ooo, field):
    """property-specific oracle for a free lane that is not reset: does what it keeps depend on the key or on
    the text of the jobs (then it is derived key material / text), and is it absent from the public output?"""
    a = dirty_now(k13, slots, s, var, ooo, field, "confA")
    if a is None:
        return {"reproduced_alone": False}
    b = dirty_now(k13, slots, rekey(s, 1234567, "key"), var, ooo, field, "confB")
    out = {"reproduced_alone": True, "now": a.get("now", "")[:256], "public": a.get("public"),
           "key_sensitive": b is None or b.get("now") != a.get("now")}
    if all(it["dir"] == 1 for it in s.items):
        c = dirty_now(k13, slots, rekey(s, 7654321, "text"), var, ooo, field, "confC")
        out["text_sensitive"] = c is None or c.get("now") != a.get("now")
    pu, un = (int(x) for x in a.get("public", "0/0").split("/"))
    out["all_public"] = un > 0 and pu == un
    out["secret_dependent"] = bool((out.get("key_sensitive") or out.get("text_sensitive")) and not out["all_public"])
    return out


def sched_replay_obj(s, var, extra):
    o = {"property": PID, "variant": var, "schedule": s.text(), "suite": s.suite, "shape": s.shape, "ep": s.ep}
    o.update(extra)
    return o


def main(tier, seed):
    res = Result(PID, tier, seed, "proof")
    tb = common.build_lib()
    os.makedirs(WORK, exist_ok=True)
    t0 = time.time()
    pres = common.props_check(PID, extra_targets=["Props/Examples_C13.vo"])
    common.proof_coverage(res, pres, "make -k Props/Properties_C13.vo Props/Examples_C13.vo (coqc 8.16.1) + Print Assumptions",
                          ["Coq 8.16.1 kernel (vm_compute only for the finite per-family table checks stated in the theorems)",
                           "hand transcription of the %ifdef SAFE_DATA blocks of lib/*/mb_mgr_*_{submit,flush}*.asm into the "
                           "family tables of coq/Mgr/SafeDataInst.v (validated on every call by the free-lane measurement of k13_scan)",
                           "harness/k13_scan.c + k13_tramp.S + harness/imbh.c (K1 job filling / key preparation), gcc, the host CPU",
                           "registers and stack are runtime artefacts: covered only on the inputs explored (PARTIAL)"])
    tcoq = time.time() - t0
    claims, cerr = model_claims()
    k13, k1 = build_tools()
    slots = slot_file()
    # the scanner must see planted residues in a register, on the stack and in manager memory
    sc = common.run([k13, "--variant", "sse:f0", "--slots", slots, "--selfcheck"], env=common.lib_env(), timeout=120)
    kinds = set(re.findall(r"^HIT .* kind=(\w+)", sc.stdout, flags=re.M))
    scanner_ok = kinds >= {"reg", "stack", "mgr"} and "ldata.extra_block" in sc.stdout
    scheds, need_ct = build_schedules(tier, seed)
    nbad = make_ciphertexts(k1, need_ct)
    scheds = [s for s in scheds if s.items]
    t1 = time.time()
    results = run_all(k13, slots, scheds, VARIANTS)
    trun = time.time() - t1
    hits, dirty, used, rows, crashes, totals = analyse(results, scheds)
    bysid = {s.sid: s for s in scheds}

    # ---- coverage ----
    completed = collections.Counter()
    ran = collections.Counter()
    skipped = 0
    suites_done = set()
    for d in rows:
        st = d["status"].split(",")
        s = bysid.get(d["sid"])
        if all(x == "-9" for x in st):
            skipped += 1
            continue
        ran[s.shape] += 1
        if all(x in ("3", "-9") for x in st):
            completed[s.shape] += 1
            suites_done.add((d["var"], s.suite))
    nontrivial = sum(1 for d in rows if int(d["idle"]) > 0 and any(x == "3" for x in d["status"].split(",")))
    known = [k for kind, k in common.known_findings(PID) if kind == "known"]
    knownkeys = {}
    for k in known:
        m = re.search(r"key=(\S+)\s*(.*)", k)
        if m:
            knownkeys[m.group(1)] = m.group(2)

    # ---- verdicts ----
    reported = set()
    seen_known = set()

    def report(sig, obj, note, name):
        if sig in knownkeys:
            if sig not in seen_known:
                seen_known.add(sig)
                res.known.append("key=%s %s" % (sig, knownkeys[sig]))
            return
        if sig in reported:
            return
        reported.add(sig)
        obj["signature"] = sig
        res.violation(obj, note=note, name=name)

    hitsigs = collections.Counter()
    for h in hits:
        sig = hit_signature(h, h["suite"])
        hitsigs[sig] += 1
        s = bysid.get(h["sid"])
        if s is None:
            continue
        report(sig, sched_replay_obj(s, h["var"], {"kind": "residue", "hit": h}),
               "residue %s of %s in %s after %s (%s, %s)" % (h["secret"], h["suite"], h["where"], h["leftby"], h["var"], h["shape"]),
               "hit_%03d" % len(reported))
    # storage invariant against the model
    dirty_claimed = collections.Counter()
    dirty_unclaimed = collections.Counter()
    cand = {}
    for d in dirty:
        key = (arch_class(d["var"]), d["ooo"], d["field"])
        if claims is not None and key in claims:
            dirty_claimed[key] += 1
            s = bysid.get(d["sid"])
            # prefer the schedule that produced the residue (not one that merely inherited it), small ones first
            rank = ((d["sid"], d["var"], d["ooo"], d["field"]) not in USED_SIDS, int(d.get("lane", -1)) < 0,
                    len(s.items) if s else 999)
            if key not in cand or rank < cand[key][0]:
                cand[key] = (rank, d, s)
        else:
            dirty_unclaimed[key] += 1
    confirmations = {}
    for key, (rank, d, s) in sorted(cand.items()):
        sig = "dirty:%s:%s:%s" % key
        conf = confirm_dirty(k13, slots, s, d["var"], d["ooo"], d["field"]) if s else {}
        confirmations[sig] = conf
        obj = sched_replay_obj(s, d["var"], {"kind": "model-correspondence", "dirty": d, "oracle": conf,
                                             "theorem": "ooo_free_lane_clean / ooo_clean_when_idle (Props/Properties_C13.v)"})
        if key in JUNK_OK and not conf.get("secret_dependent"):
            confirmations[sig]["verdict"] = "job-independent garbage, allowed by the model (k_junk)"
            continue
        if conf.get("secret_dependent"):
            note = ("free lane of %s keeps %s whose content depends on the %s of the completed jobs and is not public output (%s, %s)"
                    % (d["ooo"], d["field"], "key" if conf.get("key_sensitive") else "text", d["var"], s.suite))
        else:
            note = ("free lane of %s keeps non-zero %s (%s) although the model claims it reset; the content is %s: no-failing-input-found"
                    % (d["ooo"], d["field"], d["var"],
                       "public output only" if conf.get("all_public") else "not shown to depend on key or text"))
        report(sig, obj, note, "dirty_%s_%s_%s" % (key[0], key[1], key[2].replace(".", "_")))
    for c in crashes:
        s = bysid.get(c["sid"])
        report("crash:%s:%s" % (c["var"], s.suite if s else "?"),
               sched_replay_obj(s, c["var"], {"kind": "crash", "detail": c}) if s else {"property": PID, "kind": "crash", "detail": c},
               "library crashed or hung under the hooked manager (%s)" % c["err"].strip().splitlines()[-1:] , "crash_%s" % c["var"].replace(":", "_"))
    broken = pres["discharged"] != pres["obligations"] or pres["failed"] or pres["obligations"] == 0 or claims is None
    if broken and not reported:
        res.violation({"property": PID, "seed": seed, "broken_obligations": pres["failed"], "proof_log_tail": pres["log"][-2000:],
                       "model_claims_error": cerr, "note": "Props/Properties_C13.v does not check; the scan found no residue"},
                      note="no-failing-input-found", name="unproved")
    if not scanner_ok:
        res.violation({"property": PID, "kind": "scanner self check failed", "stdout": sc.stdout[-2000:], "stderr": sc.stderr[-500:]},
                      note="the scanner does not see planted residues: no-failing-input-found", name="selfcheck")
    vacuous = claims is not None and sorted(k for k in claims if k not in used and k[1] not in ())
    res.coverage.update({
        "evaluations": len(rows), "distinct_nontrivial": nontrivial,
        "rule": "one evaluation = one schedule (batch of 1..34 jobs of one suite with fresh random keys and text, through one "
                "entry point) run on one variant with every handler call trampolined; evaluations are pairwise distinct "
                "(schedule, variant) pairs; non-trivial = at least one job completed AND at least one idle point was scanned "
                "(register snapshot + library stack + whole manager memory)",
        "cipher_histogram": dict(collections.Counter(str(it["cipher"]) for s in scheds for it in s.items)),
        "hash_histogram": dict(collections.Counter(str(it["hash"]) for s in scheds for it in s.items)),
        "direction_histogram": dict(collections.Counter(str(it["dir"]) for s in scheds for it in s.items)),
        "msg_length_histogram": dict(collections.Counter(
            ("0-15", "16-63", "64-127", "128-255", "256-1023", "1024+")[sum(len(it["msg"]) >= b for b in (16, 64, 128, 256, 1024))]
            for s in scheds for it in s.items)),
        "jobs_per_schedule_histogram": dict(collections.Counter(str(len(s.items)) for s in scheds)),
        "entry_point_histogram": dict(collections.Counter(str(s.ep) for s in scheds)),
        "schedules": len(scheds), "variants": VARIANTS, "schedule_runs_skipped_by_entry_point": skipped,
        "shapes_run": dict(ran), "shapes_all_jobs_completed": dict(completed),
        "suite_variant_pairs_completed": len(suites_done), "distinct_suites": len(set(s.suite for s in scheds)),
        "hooked_calls": totals["calls"], "idle_scans": totals["idle_scans"], "secret_windows": totals["windows"],
        "free_lane_field_checks": totals["free_lane_field_checks"],
        "hits": len(hits), "hit_signatures": dict(hitsigs.most_common(60)),
        "model_claimed_fields": len(claims) if claims else 0,
        "claimed_fields_seen_nonzero_while_busy": len([k for k in (claims or []) if k in used]),
        "claimed_fields_never_exercised": [":".join(k) for k in (vacuous or [])][:80],
        "dirty_claimed": {":".join(k): v for k, v in dirty_claimed.items()},
        "dirty_not_claimed_by_model": {":".join(k): v for k, v in dirty_unclaimed.items()},
        "dirty_claimed_oracle": confirmations,
        "decrypt_items_without_ciphertext": nbad, "scanner_selfcheck": scanner_ok,
        "samples": [{"sid": s.sid, "suite": s.suite, "shape": s.shape, "ep": s.ep, "first_item": item_line(s.items[0])[:300]}
                    for s in (scheds[0], scheds[len(scheds) // 2], scheds[-1])],
        "traces_validated_against_impl": len(rows),
        "lib_build_s": round(tb, 1), "coq_s": round(tcoq, 1), "scan_s": round(trun, 1),
    })
    res.assumptions = ["8-byte windows: a residue that is bit-sliced / transposed into 4-byte words (multi-buffer SHA state in SIMD "
                       "registers) is invisible to the window scan; in manager memory it is covered by the free-lane measurement instead",
                       "targets with more than 12 integer arguments are not called (none is used by the K1 entry points)",
                       "idle = no lane of any of the 41 out-of-order managers holds a job"]
    for f in pres["failed"]:
        log("proof obligation failed:", f)
    return res.finish()


def replay(path):
    rp = json.load(open(path))
    common.build_lib()
    os.makedirs(WORK, exist_ok=True)
    if "schedule" not in rp:
        pres = common.props_check(PID, extra_targets=["Props/Examples_C13.vo"])
        print(json.dumps({"obligations": pres["obligations"], "discharged": pres["discharged"], "failed": pres["failed"]}, indent=1))
        return 0 if pres["obligations"] and pres["discharged"] == pres["obligations"] else 1
    k13, k1 = build_tools()
    slots = slot_file()
    r = run_variant((k13, rp["variant"], rp["schedule"], slots, "replay"))
    lines = [l for l in r["out"].splitlines() if l.startswith(("HIT", "DIRTY", "SCHED"))]
    sig = rp.get("signature", "")
    found = r["rc"] != 0
    claims, _ = model_claims()
    for l in lines:
        d = kv_of(l)
        if l.startswith("HIT") and hit_signature(d, rp["suite"]) == sig:
            found = True
        if l.startswith("DIRTY") and sig == "dirty:%s:%s:%s" % (arch_class(d["var"]), d["ooo"], d["field"]):
            found = True
    print("\n".join(l[:400] for l in lines[:40]))
    print("replay: signature %s %s" % (sig, "REPRODUCED" if found else "not reproduced"))
    return 1 if found else 0
