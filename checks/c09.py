"""C09 — the same work item yields identical output, tag and status through every entry point.

Proof: coq/Props/Properties_C09.v (synchronous burst = submit all + flush until empty over the lane
       scheduler: every job returned, completed, with its alone result, manager empty afterwards;
       n-buffer group splitting = 1-buffer function per buffer).
Tie / search (entry-point-vs-entry-point oracle — the property itself, no model needed):
  (a) harness/k1_algo.c: every work item on every variant through entry points 0..6 (job API checked /
      unchecked, async burst checked / unchecked, synchronous cipher/hash/AEAD burst checked /
      unchecked, direct API) with batch sizes 1..128 and unequal per-job lengths: all results of an
      item (status, dst, tag, canaries) must be one and the same; a synchronous burst must hand back
      every job COMPLETED;
  (a') work items with an invalid cipher direction: every checked entry point must give the same
      verdict;
  (b) harness/k9_entry.c: the direct functions k1 does not reach (ZUC/SNOW3G/KASUMI 1..N-buffer calls
      with n below, equal to and above the lane count and unequal lengths, SHA one-shot/one-block,
      CRC/HEC, GHASH/GMAC direct, QUIC helpers, single-block CFB, ChaCha20-Poly1305 direct) against
      the 1-buffer call and the equivalent single job, on every variant."""
import os, sys, json, time, concurrent.futures as cf
from . import common, c04
from .common import Rng, Result, log

PID = "C09"
SYNC_TEMPLATES = ["aes-cbc", "aes-ctr", "aes-ctr12", "aes-ecb", "aes-cfb", "hmac-sha1", "hmac-sha224", "hmac-sha256",
                  "hmac-sha384", "hmac-sha512", "sha1", "sha224", "sha256", "sha384", "sha512", "aes-cmac",
                  "aes-cmac-bits", "aes-cmac256", "aes-ccm"]
LANE_COUNTS = (4, 8, 16)
K9_TESTS = ["zuc_eea3", "zuc_eia3", "snow3g_f8", "kasumi", "sha", "crc", "ghash_gmac", "quic", "cfb_one", "chacha_poly_direct"]


def quick_sizes():
    s = {1, 2, 127, 128}
    for L in LANE_COUNTS:
        s |= {L - 1, L, L + 1}
    return sorted(s)


SYNC_CIPHER = {"aes-cbc": ((1, 2), (16, 24, 32)), "aes-ctr": ((1, 2), (16, 24, 32)), "aes-ctr12": ((1,), (16, 24, 32)),
               "aes-ecb": ((1, 2), (16, 24, 32)), "aes-cfb": ((1, 2), (16, 24, 32)), "aes-ccm": ((1, 2), (16, 32))}


def family(rng, builder, n, sizes, want=None):
    """n items of one template with unequal lengths.  want = (direction, key length): all items share
    them, so that consecutive items form ONE synchronous cipher / AEAD burst (the burst call takes the
    direction and the key size as arguments)"""
    out = []
    guard = 0
    while len(out) < n and guard < 200000:
        guard += 1
        d = builder(rng, rng.choice(sizes) if out else 64)
        if want is not None:
            if len(d.get("key", "-")) != 2 * want[1]:
                continue
            if d.get("cipher") is not None and "aad" in d and "order" in d and d.get("dir") == 1 and want[0] == 2:
                d["dir"], d["order"] = 2, 1          # CCM decrypt: cipher first, then hash
            if d.get("dir") != want[0]:
                continue
        out.append(d)
    return out


def parse_k1(out):
    res = {}
    for l in out.splitlines():
        if not l.startswith("id="):
            continue
        t = l.split()
        kv = dict(x.split("=", 1) for x in t if "=" in x)
        key = (int(kv["id"]), kv["var"], int(kv["ep"]))
        if "CRASH" in l:
            res[key] = "CRASH " + " ".join(t[3:])
        elif "skip" in kv:
            res[key] = "skip=" + kv["skip"]
        else:
            res[key] = "status=%s dst=%s tag=%s canary=%s src=%s" % (kv.get("status"), kv.get("dst"), kv.get("tag"),
                                                                      kv.get("canary"), kv.get("src"))
    return res


def k1_worker(args):
    """one family file through all batch sizes; returns a summary (runs in a worker process)"""
    k1, path, name, ids, batches, small_n, env = args
    import subprocess
    summary = dict(name=name, lines=0, compared=0, diffs=[], eps={}, not_completed=[], hang=0, rejected=0,
                   sync_burst_sizes=set(), items_multi=0)
    ref = {}        # (id, var) -> first non-skip result (ep 0, batch 1 comes first)
    e = dict(os.environ)
    e.update(env)
    first_lines = None
    for b in batches:
        # small batch sizes only need a prefix of the family: cut the file
        use = path if (b > small_n or small_n >= len(ids)) else path + ".small"
        cmd = [k1, use, "--variants", "all", "--eps", "all", "--batch", str(b)]
        try:
            p = subprocess.run(cmd, env=e, timeout=900, stdout=subprocess.PIPE, stderr=subprocess.DEVNULL, text=True)
            out = p.stdout
        except subprocess.TimeoutExpired as ex:
            out = (ex.stdout or b"").decode(errors="replace") if isinstance(ex.stdout, bytes) else (ex.stdout or "")
            summary["hang"] += 1
        r = parse_k1(out)
        summary["lines"] += len(r)
        for (i, var, ep), v in r.items():
            if v.startswith("skip="):
                continue
            summary["eps"][ep] = summary["eps"].get(ep, 0) + 1
            if ep in (4, 6):
                summary["sync_burst_sizes"].add(b)
            k = (i, var)
            if k not in ref:
                ref[k] = (v, ep, b)
                continue
            summary["compared"] += 1
            if v != ref[k][0]:
                if len(summary["diffs"]) < 40:
                    summary["diffs"].append(dict(id=i, var=var, ep=ep, batch=b, ref_ep=ref[k][1], ref_batch=ref[k][2],
                                                 got=v[:500], want=ref[k][0][:500]))
                elif len(summary["diffs"]) < 100000:
                    summary["diffs"].append(None)
            if ep in (4, 6) and not v.startswith("status=3 ") and ref[k][0].startswith("status=3 "):
                summary["not_completed"].append((i, var, ep, b, v[:60]))
    summary["rejected"] = sum(1 for k, (v, ep, b) in ref.items() if not v.startswith("status=3 "))
    summary["items_multi"] = len(set(i for (i, var) in ref))
    summary["sync_burst_sizes"] = sorted(summary["sync_burst_sizes"])
    nd = len(summary["diffs"])
    summary["ndiffs"] = nd
    summary["diffs"] = [d for d in summary["diffs"] if d][:8]
    return summary


def run_k9(k9, variant, seed, tier, extra=()):
    cmd = [k9, "--seed", str(seed), "--tier", tier, "--variants", variant] + list(extra)
    try:
        p = common.run(cmd, env=common.lib_env(), timeout=1500)
        return p.stdout, p.returncode
    except Exception as ex:
        o = getattr(ex, "stdout", "") or ""
        if isinstance(o, bytes):
            o = o.decode(errors="replace")
        return o + "\nK9-TIMEOUT\n", -9


def dir_items(C, rng):
    """work items with a cipher direction outside {ENCRYPT, DECRYPT} for the modes the synchronous
    cipher / AEAD bursts accept"""
    hx = c04.hx
    out = []
    for (nm, mode, ivl) in (("aes-cbc", C["IMB_CIPHER_CBC"], 16), ("aes-ecb", C["IMB_CIPHER_ECB"], 0),
                            ("aes-cfb", C["IMB_CIPHER_CFB"], 16), ("aes-ctr", C["IMB_CIPHER_CNTR"], 16)):
        for d in (0, 3, 255):
            for kl in (16, 24, 32):
                out.append((nm, dict(cipher=mode, hash=C["IMB_AUTH_NULL"], dir=d, key=hx(rng.bytes(kl)),
                                     iv=hx(rng.bytes(ivl)) if ivl else "-", msg=hx(rng.bytes(32)), coff=0, clen=32)))
    for d in (0, 3):
        out.append(("aes-ccm", dict(cipher=C["IMB_CIPHER_CCM"], hash=C["IMB_AUTH_AES_CCM"], dir=d, order=2, key=hx(rng.bytes(16)),
                                    iv=hx(rng.bytes(13)), aad=hx(rng.bytes(8)), msg=hx(rng.bytes(32)), coff=0, clen=32, hoff=0,
                                    hlen=32, tag=8)))
    return out


def main(tier, seed):
    res = Result(PID, tier, seed, "proof")
    tb = common.build_lib()
    C = c04.consts()
    pres = common.props_check(PID, extra_targets=["Props/Examples_C09.vo"])
    common.proof_coverage(res, pres, "make -k Props/Properties_C09.vo (coqc 8.16.1, full .vo) + Print Assumptions",
                          ["Coq 8.16.1 kernel",
                           "Mgr/Ooo.v + its C04 theorems (scheduler invariant, result alone)",
                           "modelled, not verified: that the loops of lib/include/mb_mgr_burst.h and the n-buffer wrappers ARE "
                           "Mgr/SyncBurst.v, and that each lane kernel is chunk-compositional — tied by the entry-point differential",
                           "direct functions with their own assembly (GCM/SHA one-shot, CRC, QUIC helpers ...) are tied to the job API "
                           "by differential testing only (harness/k1_algo.c ep 5, harness/k9_entry.c)",
                           "harness/k1_algo.c + imbh.c, harness/k9_entry.c, this Python driver"])
    k1 = common.build_harness("k1_algo", extra_src=["imbh.c"])
    k9 = common.build_harness("k9_entry", extra_src=["imbh.c"])
    # managers that fail their power-on self test are dropped silently by imbh_enum_variants: probe them
    k11 = common.build_harness("k11_keyprep", extra_src=["imbh.c"])
    probe = common.run([k11, os.devnull], env=common.lib_env(), timeout=300).stdout
    selftest_bad = [l for l in probe.splitlines() if l.startswith("selftest ") and not l.endswith("errno=0")]
    rng = Rng(seed)
    T = c04.templates(C)
    workdir = os.path.join(common.BUILD, "c09")
    os.makedirs(workdir, exist_ok=True)
    sizes = [1, 8, 15, 16, 17, 31, 32, 33, 47, 48, 63, 64, 65, 100, 127, 128, 129, 200, 255, 256, 257]
    small_n = 2 * max(LANE_COUNTS) + 2
    if tier == "quick":
        sync_batches = quick_sizes()
        other_batches = [1, 5, 17, 128]
        n_sync, n_other = 128, 128
    else:
        sync_batches = list(range(1, 129))
        other_batches = quick_sizes()
        n_sync, n_other = 128, 128
    jobs = []
    all_items = {}
    next_id = 1
    fam_meta = []
    t_gen = time.time()
    fams = []
    for name, b in T:
        if name in SYNC_CIPHER:
            dirs, klens = SYNC_CIPHER[name]
            for d_ in dirs:
                for kl in klens:
                    fams.append(("%s.%s%d" % (name, "enc" if d_ == 1 else "dec", 8 * kl), name, b, (d_, kl), True))
        else:
            fams.append((name, name, b, None, name in SYNC_TEMPLATES))
    for fname, name, b, want, is_sync in fams:
        its = family(rng, b, n_sync if is_sync else n_other, sizes, want)
        ids = []
        path = os.path.join(workdir, "fam_%s.txt" % fname.replace("+", "_"))
        with open(path, "w") as f, open(path + ".small", "w") as fs:
            for k, d in enumerate(its):
                line = c04.item_line(next_id, d)
                all_items[next_id] = (fname, line)
                ids.append(next_id)
                f.write(line + "\n")
                if k < small_n:
                    fs.write(line + "\n")
                next_id += 1
        batches = sync_batches if is_sync else other_batches
        fam_meta.append((fname, len(ids), is_sync))
        jobs.append((k1, path, fname, ids, batches, small_n, common.lib_env()))
    t_gen = time.time() - t_gen
    t0 = time.time()
    sums = []
    # (b) k9 runs concurrently with the k1 sweep
    vt = common.run([k1, "--list-variants"], env=common.lib_env(), timeout=120).stdout
    variants = [l.split()[0][8:] for l in vt.splitlines() if l.startswith("variant=")]
    # one process pool for everything (no threads: forking a threaded process can deadlock)
    with cf.ProcessPoolExecutor(max_workers=common.NCPU) as pex:
        k9f = {v: pex.submit(run_k9, k9, v, seed, tier) for v in variants}
        k1f = [pex.submit(k1_worker, j) for j in sorted(jobs, key=lambda j: -len(j[4]))]
        for f in k1f:
            sums.append(f.result())
        k9out = {v: f.result() for v, f in k9f.items()}
    t_k1 = time.time() - t0
    # (a') invalid direction
    ditems = dir_items(C, rng)
    dpath = os.path.join(workdir, "invalid_dir.txt")
    dmeta = {}
    with open(dpath, "w") as f:
        for k, (nm, d) in enumerate(ditems):
            f.write(c04.item_line(900000 + k, d) + "\n")
            dmeta[900000 + k] = (nm, c04.item_line(900000 + k, d))
    dout = common.run([k1, dpath, "--variants", "all", "--eps", "0,2,4", "--batch", "1"], env=common.lib_env(), timeout=600).stdout
    dres = {}
    for l in dout.splitlines():
        if l.startswith("id=") and "skip=" not in l:
            kv = dict(x.split("=", 1) for x in l.split() if "=" in x)
            # verdict = processed or refused, and with which error (a refused synchronous burst marks a job
            # INVALID_ARGS only when a per-job field is at fault; the direction is an argument of the call)
            dres.setdefault((int(kv["id"]), kv["var"]), {})[int(kv["ep"])] = "%s errno=%s" % (
                "processed" if kv.get("status") == "3" else "refused", kv.get("errno"))
    dir_bad = []
    for (i, var), eps in dres.items():
        if len(set(eps.values())) > 1:
            dir_bad.append(dict(id=i, var=var, alg=dmeta[i][0], verdicts={str(k): v for k, v in eps.items()}, item=dmeta[i][1]))
    # ---- collect -------------------------------------------------------------------------
    known = [l for (k, l) in common.known_findings(PID) if k == "known"]

    def is_known(sig):
        for l in known:
            if ("key=" + sig + " ") in l + " ":
                txt = l.split(" ", 1)[1]
                if txt not in res.known:
                    res.known.append(txt)
                return True
        return False
    viol = {}
    ncmp = sum(s["compared"] for s in sums)
    nlines = sum(s["lines"] for s in sums)
    eps_cov = {}
    for s in sums:
        for ep, n in s["eps"].items():
            eps_cov[str(ep)] = eps_cov.get(str(ep), 0) + n
    rejected = {s["name"]: s["rejected"] for s in sums if s["rejected"]}
    hangs = sum(s["hang"] for s in sums)
    for s in sums:
        for d in s["diffs"]:
            arch = d["var"].split(":")[0]
            sig = "k1=%s,arch=%s" % (s["name"], arch)
            if is_known(sig):
                continue
            g = ("k1", s["name"], arch)
            if g not in viol:
                fam = os.path.join(workdir, "fam_%s.txt" % s["name"].replace("+", "_"))
                d2 = dict(d)
                d2.update(kind="k1", alg=s["name"], property=PID, seed=seed, ndiffs_in_family=s["ndiffs"],
                          what="entry points / batch sizes disagree on the same work item",
                          case_file_lines=open(fam).read().splitlines())
                viol[g] = d2
        for (i, var, ep, b, v) in s["not_completed"][:3]:
            arch = var.split(":")[0]
            if is_known("k1=%s,arch=%s" % (s["name"], arch)):
                continue
            viol.setdefault(("sync_not_completed", s["name"], arch),
                            dict(kind="k1", alg=s["name"], id=i, var=var, ep=ep, batch=b, got=v, property=PID, seed=seed,
                                 what="synchronous burst returned with a job not COMPLETED",
                                 case_file_lines=open(os.path.join(workdir, "fam_%s.txt" % s["name"].replace("+", "_"))).read().splitlines()))
    if dir_bad and not is_known("cipher_burst_invalid_dir"):
        algs = sorted(set(d["alg"] for d in dir_bad))
        d0 = dict(dir_bad[0])
        d0.update(kind="dir", property=PID, seed=seed, algs=algs, n=len(dir_bad),
                  what="work item with an invalid cipher direction: checked entry points disagree on the verdict "
                       "(job API / async burst reject with IMB_ERR_JOB_CIPH_DIR, the synchronous cipher burst processes it)",
                  lines=[d["item"] for d in dir_bad[:12]])
        viol[("dir",)] = d0
    # k9
    k9_cases = 0
    k9_fail_lines = []
    k9_by_test = {}
    k9_notes = set()
    for v, (o, rc) in k9out.items():
        summ = False
        for l in o.splitlines():
            if l.startswith("k9 note"):
                k9_notes.add(l[:200])
            elif l.startswith("k9 var="):
                kv = dict(x.split("=", 1) for x in l.split() if "=" in x)
                t = kv.get("test", "?")
                k9_by_test[t] = k9_by_test.get(t, 0) + 1
                k9_cases += 1
                if " FAIL" in l or " CRASH" in l:
                    k9_fail_lines.append((v, kv, l))
            elif l.startswith("K9 SUMMARY"):
                summ = True
        if not summ:
            k9_fail_lines.append((v, dict(test="harness", sub="no-summary"), "k9_entry did not finish on %s rc=%s" % (v, rc)))
    for (v, kv, l) in k9_fail_lines:
        arch = v.split(":")[0]
        sig = "k9=%s/%s,arch=%s" % (kv.get("test"), kv.get("sub", "-"), arch)
        if is_known(sig):
            continue
        g = ("k9", kv.get("test"), kv.get("sub", "-"), arch)
        if g not in viol:
            viol[g] = dict(kind="k9", property=PID, seed=seed, variant=v, test=kv.get("test"), sub=kv.get("sub"), n=kv.get("n"),
                           cseed=kv.get("cseed"), line=l[:1500],
                           what="direct API result differs from the 1-buffer call / the equivalent job",
                           nfails_this_signature=sum(1 for (v2, kv2, _) in k9_fail_lines
                                                     if v2.split(":")[0] == arch and kv2.get("test") == kv.get("test") and kv2.get("sub") == kv.get("sub")))
    if not variants or nlines == 0 or k9_cases == 0:
        viol[("no_output",)] = dict(kind="hang", property=PID, variants=variants, k1_lines=nlines, k9_cases=k9_cases,
                                    what="no implementation variant could be initialised / the harnesses produced no result "
                                         "(library init or self-test failure?)", stderr=vt[-500:])
    if selftest_bad:
        viol[("selftest",)] = dict(kind="hang", property=PID, lines=selftest_bad,
                                   what="these managers fail their power-on self test at init and were therefore NOT exercised "
                                        "through any entry point (the variants listed in the evidence are the remaining ones)")
    if hangs:
        viol[("hang",)] = dict(kind="hang", property=PID, what="k1_algo timed out (hang inside the library)")
    distinct = sum(s["items_multi"] for s in sums)
    res.coverage.update({
        "evaluations": ncmp + len(dres) + k9_cases,
        "distinct_nontrivial": distinct + k9_cases,
        "rule": "one evaluation = one (work item, variant, entry point, batch size) result compared with the first result of the same "
                "(item, variant) [job API, batch 1], or one k9 case (a direct call with n buffers compared buffer by buffer with the "
                "1-buffer call and the job), or one invalid-direction verdict set; distinct non-trivial = work items that ran through "
                ">= 2 entry points or batch sizes + k9 cases",
        "k1_result_lines": nlines, "k1_comparisons": ncmp, "k1_by_entry_point": eps_cov,
        "entry_points": "0 job, 1 job nocheck, 2 async burst, 3 async burst nocheck, 4 sync cipher/hash/AEAD burst, 5 direct, 6 sync nocheck",
        "families": [n for (n, k, s) in fam_meta], "sync_families": [n for (n, k, s) in fam_meta if s],
        "items_per_template": n_sync, "sync_batch_sizes": sync_batches, "other_batch_sizes": other_batches,
        "lengths": sizes, "variants": variants,
        "templates_rejected_by_library": rejected,
        "invalid_direction_items": len(ditems), "invalid_direction_disagreements": len(dir_bad),
        "k9_cases": k9_cases, "k9_by_test": k9_by_test, "k9_failing_lines": len(k9_fail_lines), "k9_notes": sorted(k9_notes)[:12],
        "samples": [all_items[1][1][:300], all_items[max(all_items)][1][:300]] + [l[:200] for (_, _, l) in k9_fail_lines[:1]],
        "differences": sum(s["ndiffs"] for s in sums),
        "lib_build_s": round(tb, 1), "gen_s": round(t_gen, 1), "k1_k9_s": round(t_k1, 1),
        "traces_validated_against_impl": nlines + k9_cases,
    })
    broken_proof = pres["discharged"] != pres["obligations"] or pres["failed"] or pres["obligations"] == 0
    for g, d in list(viol.items())[:10]:
        res.violation(d, name="_".join(str(x) for x in g).replace("/", "-").replace("+", "_"))
    if broken_proof and not viol:
        res.violation(dict(property=PID, broken_obligations=pres["failed"], log=pres["log"][-2000:],
                           note="theorems of Props/Properties_C09.v no longer check; the entry-point differential found no failing input"),
                      note="no-failing-input-found", name="unproved")
    res.assumptions = ["the burst loops / n-buffer wrappers are instances of Mgr/SyncBurst.v (hand model)",
                       "ZUC-256 has no direct API in this snapshot; QUIC helpers are the exported imb_quic_* functions",
                       "avx2_t3 / avx2_t4 cannot run on this host"]
    return res.finish()


def replay(path):
    rp = json.load(open(path))
    common.build_lib()
    kind = rp.get("kind")
    if kind == "k9":
        k9 = common.build_harness("k9_entry", extra_src=["imbh.c"])
        cmd = [k9, "--only", rp["test"], "--variants", rp["variant"]]
        if rp.get("cseed") and rp.get("n"):
            cmd += ["--cseed", rp["cseed"], "--n", str(rp["n"])]
        p = common.run(cmd, env=common.lib_env(), timeout=900)
        bad = [l for l in p.stdout.splitlines() if " FAIL" in l or " CRASH" in l]
        for l in bad[:5]:
            print(l[:400])
        return 1 if (bad or p.returncode not in (0,)) else 0
    k1 = common.build_harness("k1_algo", extra_src=["imbh.c"])
    workdir = os.path.join(common.BUILD, "c09")
    os.makedirs(workdir, exist_ok=True)
    p = os.path.join(workdir, "replay.txt")
    if kind == "dir":
        open(p, "w").write("\n".join(rp["lines"]) + "\n")
        out = common.run([k1, p, "--variants", "all", "--eps", "0,2,4"], env=common.lib_env(), timeout=600).stdout
        d = {}
        for l in out.splitlines():
            if l.startswith("id=") and "skip=" not in l:
                kv = dict(x.split("=", 1) for x in l.split() if "=" in x)
                d.setdefault((kv["id"], kv["var"]), set()).add((kv["status"] == "3", kv["errno"]))
        bad = [k for k, v in d.items() if len(v) > 1]
        print("items with differing verdicts:", bad[:10])
        return 1 if bad else 0
    open(p, "w").write("\n".join(rp["case_file_lines"]) + "\n")
    a = parse_k1(common.run([k1, p, "--variants", rp["var"], "--eps", str(rp.get("ref_ep", 0)), "--batch", str(rp.get("ref_batch", 1))],
                            env=common.lib_env(), timeout=600).stdout)
    b = parse_k1(common.run([k1, p, "--variants", rp["var"], "--eps", str(rp["ep"]), "--batch", str(rp["batch"])],
                            env=common.lib_env(), timeout=600).stdout)
    bad = []
    for (i, var, ep), v in b.items():
        w = a.get((i, var, rp.get("ref_ep", 0)))
        if w is not None and not v.startswith("skip") and not w.startswith("skip") and v != w:
            bad.append(i)
    print("differing items:", bad[:10])
    return 1 if bad else 0
