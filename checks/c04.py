"""C04 — a job's result depends only on itself, not on co-scheduled jobs.

Proof: coq/Props/Properties_C04.v (generic lane scheduler: result alone, invariant, flush).
Tie / search: alone-vs-together differential on the rebuilt library (harness/k1_algo.c): every work
item is run alone (batch 1) and inside batches of 2..33 mutually different jobs, in shuffled
orders, on every variant, through the job API and the async burst API; outputs, tags and status
must be identical.  No model is needed for this oracle: it is the property itself."""
import os, sys, json, time, concurrent.futures as cf
from . import common
from .common import Rng, Result, log

PID = "C04"
PAIR_ID = 1000000


def consts():
    sys.path.insert(0, os.path.join(common.VERIF, "translators"))
    import t0_consts
    return t0_consts.main()


def hx(b):
    return b.hex() if b else "-"


def templates(C):
    """(name, builder) list.  builder(rng, n) -> dict of K1 tokens for a job of size class n."""
    T = []
    NULLC, NULLH = C["IMB_CIPHER_NULL"], C["IMB_AUTH_NULL"]

    def ciph(name, mode, klens, ivlen, blk=1, minlen=1, maxlen=2000, bits=False, dirs=(1, 2), extra=None):
        def b(rng, size):
            kl = rng.choice(klens)
            ln = max(minlen, min(maxlen, size))
            ln = max(blk, (ln // blk) * blk)
            # bit-length modes: most items end inside the last byte (the untouched low bits of that byte belong to the
            # caller: in the destination buffer they must stay what they were, whatever the source holds there)
            d = dict(cipher=mode, hash=NULLH, dir=rng.choice(dirs), key=hx(rng.bytes(kl)), iv=hx(rng.bytes(ivlen)),
                     msg=hx(rng.bytes(ln)), coff=0, clen=(max(1, ln * 8 - rng.choice([0, 1, 2, 3, 4, 5, 6, 7])) if bits else ln))
            if extra:
                d.update(extra(rng, ln))
            return d
        T.append((name, b))

    def hsh(name, alg, klen, tags, minlen=1, maxlen=2000, bits=False, aiv=0, blk=1):
        def b(rng, size):
            ln = max(minlen, min(maxlen, size))
            ln = max(blk, (ln // blk) * blk)
            d = dict(cipher=NULLC, hash=alg, akey=hx(rng.bytes(klen)) if klen else "-", msg=hx(rng.bytes(ln)),
                     hoff=0, hlen=(max(1, ln * 8 - rng.choice([0, 0, 1, 3, 4, 7])) if bits else ln), tag=rng.choice(tags))
            if aiv:
                d["aiv"] = hx(rng.bytes(aiv))
            return d
        T.append((name, b))

    ciph("aes-cbc", C["IMB_CIPHER_CBC"], [16, 24, 32], 16, blk=16)
    ciph("aes-ctr", C["IMB_CIPHER_CNTR"], [16, 24, 32], 16)
    ciph("aes-ctr12", C["IMB_CIPHER_CNTR"], [16, 24, 32], 12)
    ciph("aes-ecb", C["IMB_CIPHER_ECB"], [16, 24, 32], 0, blk=16)
    ciph("aes-cfb", C["IMB_CIPHER_CFB"], [16, 24, 32], 16, blk=16)
    # encrypt-only twins of the modes whose ENCRYPT direction is the multi-buffer one (decrypt jobs complete at once and
    # would halve the lane occupancy of a mixed batch)
    ciph("aes-cfb-enc", C["IMB_CIPHER_CFB"], [16, 24, 32], 16, blk=16, dirs=(1,))
    ciph("aes-cbc-enc", C["IMB_CIPHER_CBC"], [16, 24, 32], 16, blk=16, dirs=(1,))
    ciph("docsis-aes-enc", C["IMB_CIPHER_DOCSIS_SEC_BPI"], [16, 32], 16, dirs=(1,))
    ciph("aes-cbcs-enc", C["IMB_CIPHER_CBCS_1_9"], [16], 16, blk=16, minlen=16, dirs=(1,))
    ciph("aes-ctr-bits", C["IMB_CIPHER_CNTR_BITLEN"], [16, 24, 32], 16, bits=True)
    ciph("docsis-aes", C["IMB_CIPHER_DOCSIS_SEC_BPI"], [16, 32], 16)
    ciph("aes-cbcs", C["IMB_CIPHER_CBCS_1_9"], [16], 16, blk=16, minlen=16)
    ciph("des-cbc", C["IMB_CIPHER_DES"], [8], 8, blk=8)
    ciph("3des-cbc", C["IMB_CIPHER_DES3"], [24], 8, blk=8)
    ciph("docsis-des", C["IMB_CIPHER_DOCSIS_DES"], [8], 8)
    ciph("zuc-eea3", C["IMB_CIPHER_ZUC_EEA3"], [16], 16)
    ciph("zuc256-eea3", C["IMB_CIPHER_ZUC_EEA3"], [32], 25)
    ciph("snow3g-uea2", C["IMB_CIPHER_SNOW3G_UEA2_BITLEN"], [16], 16, bits=True)
    ciph("kasumi-f8", C["IMB_CIPHER_KASUMI_UEA1_BITLEN"], [16], 8, bits=True)
    ciph("chacha20", C["IMB_CIPHER_CHACHA20"], [32], 12)
    ciph("snow-v", C["IMB_CIPHER_SNOW_V"], [32], 16)
    ciph("sm4-ecb", C["IMB_CIPHER_SM4_ECB"], [16], 0, blk=16)
    ciph("sm4-cbc", C["IMB_CIPHER_SM4_CBC"], [16], 16, blk=16)
    ciph("sm4-ctr", C["IMB_CIPHER_SM4_CNTR"], [16], 16)
    hsh("hmac-sha1", C["IMB_AUTH_HMAC_SHA_1"], 20, [12, 20])
    hsh("hmac-sha224", C["IMB_AUTH_HMAC_SHA_224"], 28, [14, 28])
    hsh("hmac-sha256", C["IMB_AUTH_HMAC_SHA_256"], 32, [16, 32])
    hsh("hmac-sha384", C["IMB_AUTH_HMAC_SHA_384"], 48, [24, 48])
    hsh("hmac-sha512", C["IMB_AUTH_HMAC_SHA_512"], 64, [32, 64])
    hsh("hmac-md5", C["IMB_AUTH_MD5"], 16, [12, 16])
    hsh("aes-xcbc", C["IMB_AUTH_AES_XCBC"], 16, [12])
    hsh("aes-cmac", C["IMB_AUTH_AES_CMAC"], 16, [4, 12, 16])
    hsh("aes-cmac-bits", C["IMB_AUTH_AES_CMAC_BITLEN"], 16, [4, 16], bits=True)
    hsh("aes-cmac256", C["IMB_AUTH_AES_CMAC_256"], 32, [8, 16])
    hsh("sha1", C["IMB_AUTH_SHA_1"], 0, [20])
    hsh("sha224", C["IMB_AUTH_SHA_224"], 0, [28])
    hsh("sha256", C["IMB_AUTH_SHA_256"], 0, [32])
    hsh("sha384", C["IMB_AUTH_SHA_384"], 0, [48])
    hsh("sha512", C["IMB_AUTH_SHA_512"], 0, [64])
    hsh("zuc-eia3", C["IMB_AUTH_ZUC_EIA3_BITLEN"], 16, [4], bits=True, aiv=16)
    hsh("zuc256-eia3", C["IMB_AUTH_ZUC256_EIA3_BITLEN"], 32, [4, 8, 16], bits=True, aiv=25)
    hsh("snow3g-uia2", C["IMB_AUTH_SNOW3G_UIA2_BITLEN"], 16, [4], bits=True, aiv=16)
    hsh("kasumi-f9", C["IMB_AUTH_KASUMI_UIA1"], 16, [4], minlen=9)
    hsh("poly1305", C["IMB_AUTH_POLY1305"], 32, [16])
    hsh("sm3", C["IMB_AUTH_SM3"], 0, [32])
    hsh("hmac-sm3", C["IMB_AUTH_HMAC_SM3"], 32, [32])
    hsh("crc32-eth", C["IMB_AUTH_CRC32_ETHERNET_FCS"], 0, [4])
    hsh("ghash", C["IMB_AUTH_GHASH"], 16, [16], aiv=16)

    def gcm(rng, size):
        kl = rng.choice([16, 24, 32])
        ln = min(size, 2000)
        return dict(cipher=C["IMB_CIPHER_GCM"], hash=C["IMB_AUTH_AES_GMAC"], dir=rng.choice([1, 2]), key=hx(rng.bytes(kl)),
                    iv=hx(rng.bytes(12)), aad=hx(rng.bytes(rng.below(40))), msg=hx(rng.bytes(ln)), coff=0, clen=ln,
                    hoff=0, hlen=ln, tag=rng.choice([8, 12, 16]))
    T.append(("aes-gcm", gcm))

    def ccm(rng, size):
        kl = rng.choice([16, 32])
        ln = min(size, 2000)
        return dict(cipher=C["IMB_CIPHER_CCM"], hash=C["IMB_AUTH_AES_CCM"], dir=1, order=2, key=hx(rng.bytes(kl)),
                    iv=hx(rng.bytes(rng.choice([7, 11, 13]))), aad=hx(rng.bytes(rng.below(40))), msg=hx(rng.bytes(ln)),
                    coff=0, clen=ln, hoff=0, hlen=ln, tag=rng.choice([4, 8, 16]))
    T.append(("aes-ccm", ccm))

    def chapoly(rng, size):
        ln = min(size, 2000)
        return dict(cipher=C["IMB_CIPHER_CHACHA20_POLY1305"], hash=C["IMB_AUTH_CHACHA20_POLY1305"], dir=rng.choice([1, 2]),
                    key=hx(rng.bytes(32)), iv=hx(rng.bytes(12)), aad=hx(rng.bytes(rng.below(40))), msg=hx(rng.bytes(ln)),
                    coff=0, clen=ln, hoff=0, hlen=ln, tag=16)
    T.append(("chacha20-poly1305", chapoly))

    def chained(cname, hname, rev=False):
        cb = dict(T)[cname]
        hb = dict(T)[hname]

        def b(rng, size):
            d = cb(rng, max(size, 16))
            h = hb(rng, max(size, 16))
            ln = len(d["msg"]) // 2 if d["msg"] != "-" else 0
            d.update(hash=h["hash"], akey=h["akey"], tag=h["tag"], hoff=0, hlen=(ln * 8 if h["hlen"] != len(h["msg"]) // 2 else ln))
            if "aiv" in h:
                d["aiv"] = h["aiv"]
            # encrypt: cipher then hash (over ciphertext, in place); decrypt: hash then cipher; rev: the other pairing
            d["inplace"] = 1
            d["order"] = (1 if d["dir"] == 1 else 2) if not rev else (2 if d["dir"] == 1 else 1)
            return d
        T.append((cname + "+" + hname + ("~rev" if rev else ""), b))
    chained("aes-cbc", "hmac-sha1")
    chained("aes-cbc", "hmac-sha256")
    chained("aes-ctr", "hmac-sha512")
    chained("aes-cbc", "aes-xcbc")
    chained("des-cbc", "hmac-md5")
    chained("3des-cbc", "hmac-sha1")
    chained("aes-ctr", "aes-cmac")
    chained("zuc-eea3", "sha256")
    # every multi-buffer cipher family behind / in front of a hash, both pairings of direction and chain order
    for cn, hn in (("snow3g-uea2", "snow3g-uia2"), ("snow3g-uea2", "hmac-sha256"), ("kasumi-f8", "kasumi-f9"), ("zuc-eea3", "zuc-eia3"),
                   ("aes-cfb", "hmac-sha256"), ("docsis-aes", "hmac-sha1"), ("chacha20", "poly1305"), ("sm4-cbc", "hmac-sm3"),
                   ("aes-cbcs", "hmac-sha1"), ("docsis-des", "hmac-md5"), ("aes-ecb", "sha1"), ("aes-cbc", "sha512")):
        chained(cn, hn)
        chained(cn, hn, rev=True)
    for cn, hn in (("aes-cbc", "hmac-sha1"), ("aes-ctr", "hmac-sha512"), ("zuc-eea3", "sha256")):
        chained(cn, hn, rev=True)
    return T


def item_line(i, d):
    toks = ["id=%d" % i]
    for k, v in d.items():
        toks.append("%s=%s" % (k, v))
    return " ".join(toks)


def run_k1(k1, casefile, variants, eps, batch, timeout=600):
    cmd = [k1, casefile, "--variants", variants, "--eps", eps, "--batch", str(batch)]
    try:
        p = common.run(cmd, env=common.lib_env(), timeout=timeout)
        out = p.stdout
    except Exception as ex:
        out = getattr(ex, "stdout", "") or ""
        if isinstance(out, bytes):
            out = out.decode(errors="replace")
        out += "\nHARNESS-TIMEOUT\n"
    res = {}
    for l in out.splitlines():
        if not l.startswith("id="):
            continue
        t = l.split()
        kv = dict(x.split("=", 1) for x in t if "=" in x)
        key = (int(kv["id"]), kv["var"], int(kv["ep"]))
        if "CRASH" in l:
            res[key] = "CRASH " + l
        elif "skip" in kv:
            res[key] = "skip"
        else:
            res[key] = "status=%s dst=%s tag=%s canary=%s" % (kv.get("status"), kv.get("dst"), kv.get("tag"), kv.get("canary"))
    return res, ("HARNESS-TIMEOUT" in out)


def build_ooo_driver():
    ok, out = common.coq_make(["Mgr/OooSched.vo"])
    if not ok:
        raise RuntimeError("coq build of the scheduler model failed:\n" + out[-3000:])
    od = os.path.join(common.BUILD, "ocaml")
    os.makedirs(od, exist_ok=True)
    exe = os.path.join(common.BUILD, "bin", "ooo_driver")
    src = os.path.join(common.VERIF, "ocaml", "ooo_driver.ml")
    vo = os.path.join(common.COQDIR, "Mgr", "OooSched.vo")
    ml = os.path.join(od, "ooo_model.ml")
    if (not os.path.exists(ml)) or os.path.getmtime(ml) < os.path.getmtime(vo):
        # Extraction "ooo_model.ml" is relative to coqc's working directory
        common.run(["coqc", "-Q", common.COQDIR, "IMB", os.path.join(common.COQDIR, "Extract", "ExtractOoo.v")], cwd=od, check=True)
    if (not os.path.exists(exe)) or os.path.getmtime(exe) < max(os.path.getmtime(ml), os.path.getmtime(src)):
        common.run("cp %s %s/ && cd %s && ocamlfind ocamlopt -w -a ooo_model.mli ooo_model.ml ooo_driver.ml -o %s"
                   % (src, od, od, exe), check=True)
    return exe


def ooo_scripts(rng, tier):
    """op scripts for the AES-CBC managers: ties on lengths, refills mid-flight, flush at every occupancy"""
    out = []
    n = 6 if tier == "quick" else 40
    for k in range(n):
        ops = []
        jid = 1
        style = k % 3
        for i in range(300 if tier == "quick" else 1200):
            r = rng.below(100)
            if style == 0:          # mostly equal lengths: ties everywhere
                ln = rng.choice([4, 4, 4, 8])
            elif style == 1:        # one short + rest long
                ln = rng.choice([1, 64, 64, 63, 2])
            else:
                ln = 1 + rng.below(64)
            if r < 68:
                ops.append("S %d %d %d" % (rng.choice([16, 16, 24, 32]), ln, jid))
                jid += 1
            else:
                ops.append("F")
            if rng.chance(1, 50):
                ops += ["F"] * rng.below(20)
        ops += ["F"] * 70
        out.append(ops)
    return out


def ooo_state_tie(res, rng, tier, workdir):
    k2 = common.build_harness("k2_ooo")
    drv = build_ooo_driver()
    scripts = ooo_scripts(rng, tier)
    jobs = []
    variants = [("sse", 0), ("sse", 1), ("sse", 2), ("avx2", 0), ("avx2", 3), ("avx512", 0), ("avx512", 3)]
    for i, ops in enumerate(scripts):
        sp = os.path.join(workdir, "ooo_s%d.txt" % i)
        open(sp, "w").write("\n".join(ops) + "\n")
        for vi, (arch, fl) in enumerate(variants):
            if tier != "quick" or vi == i % len(variants) or i == 0:
                jobs.append((i, sp, arch, fl))

    def one(j):
        i, sp, arch, fl = j
        tp = os.path.join(workdir, "ooo_t%d_%s_%d.txt" % (i, arch, fl))
        try:
            p = common.run([k2, arch, str(fl), sp], env=common.lib_env(), timeout=120)
            open(tp, "w").write(p.stdout)
            d = common.run([drv, tp], timeout=300)
            summ = [l for l in d.stdout.splitlines() if l.startswith("SUMMARY")]
            mism = [l[:600] for l in d.stdout.splitlines() if l.startswith("MISMATCH")]
            if p.returncode != 0 or not summ:
                mism.append("harness/driver failed rc=%s %s %s" % (p.returncode, p.stderr[-200:], d.stderr[-200:]))
            st = dict(t.split("=") for t in summ[0].split()[1:]) if summ else {}
        except Exception as ex:
            mism, st = ["exception: %r" % ex], {}
        return dict(i=i, arch=arch, flags=fl, mism=mism, stats=st, script=sp)
    outs = []
    with cf.ThreadPoolExecutor(max_workers=common.NCPU) as ex:
        outs = list(ex.map(one, jobs))
    res.coverage["scheduler_state_traces"] = len(outs)
    res.coverage["scheduler_state_calls_compared"] = sum(int(o["stats"].get("ops", 0)) for o in outs)
    res.coverage["scheduler_max_busy_lanes"] = max([int(o["stats"].get("maxbusy", 0)) for o in outs] + [0])
    return [o for o in outs if o["mism"]]


def known_key(name, var):
    arch = var.split(":")[0]
    return "alg=%s arch=%s" % (name.split("+")[0], arch)


def main(tier, seed):
    res = Result(PID, tier, seed, "proof")
    tb = common.build_lib()
    C = consts()
    pres = common.props_check(PID, extra_targets=["Props/Examples_C04.vo"])
    common.proof_coverage(res, pres, "make -k Props/Properties_C04.vo (coqc 8.16.1, full .vo) + Print Assumptions",
                          ["Coq 8.16.1 kernel",
                           "modelled, not verified: each submit/flush assembly routine IS an instance of Mgr/Ooo.v and each SIMD kernel "
                           "is lane-independent and chunk-compositional — tied only by the alone-vs-together differential below",
                           "harness/k1_algo.c + imbh.c (job filling, batching), this Python driver"])
    k1 = common.build_harness("k1_algo", extra_src=["imbh.c"])
    miss, vtab = common.missing_variants(k1)
    if miss:
        res.violation(dict(property=PID, what="implementation variants missing from the rebuilt library (init / power-up self test fails)",
                           missing=miss, table=vtab), name="missing_variants")
    rng = Rng(seed)
    T = templates(C)
    # enough jobs per family to fill every lane of its manager several times over (lanes are recycled
    # inside one batch: stale per-lane state left by a finished job must not leak into the next one)
    per = 40 if tier == "quick" else 120
    sizes_small = [1, 8, 15, 16, 17, 31, 32, 33, 47, 48, 63, 64, 65, 100, 127, 128, 129, 255, 256, 257, 500, 1024, 1500]
    items = []      # (id, name, dict)
    for name, b in T:
        for k in range(per):
            size = rng.choice(sizes_small) if k else 64
            items.append((len(items) + 1, name, b(rng, size)))
    workdir = os.path.join(common.BUILD, "c04")
    os.makedirs(workdir, exist_ok=True)
    # case files: one per algorithm family (lanes shared by jobs of the same manager) and mixed ones
    files = []

    def write(fname, its):
        p = os.path.join(workdir, fname)
        with open(p, "w") as f:
            for (i, name, d) in its:
                f.write(item_line(i, d) + "\n")
        files.append((p, its))
    by_name = {}
    for it in items:
        by_name.setdefault(it[1], []).append(it)
    for name, its in by_name.items():
        for rep in range(1 if tier == "quick" else 3):
            sh = list(its)
            for i in range(len(sh) - 1, 0, -1):
                j = rng.below(i + 1)
                sh[i], sh[j] = sh[j], sh[i]
            write("fam_%s_%d.txt" % (name.replace("+", "_"), rep), sh)
    for rep in range(2 if tier == "quick" else 8):
        sh = list(items)
        for i in range(len(sh) - 1, 0, -1):
            j = rng.below(i + 1)
            sh[i], sh[j] = sh[j], sh[i]
        write("mixed_%d.txt" % rep, sh[: 200 if tier == "quick" else 800])
    eps = "0,2"
    batches = [3, 17, 40] if tier == "quick" else [2, 3, 4, 5, 8, 9, 16, 17, 33, 64, 120]
    name_of = {i: n for (i, n, d) in items}
    # pair mixes: for every ordered pair (A, B) of single-algorithm families one batch of PAIR_A jobs of A with PAIR_B
    # jobs of B submitted while most of A's lanes are occupied — two different out-of-order managers of the same
    # IMB_MGR hold pending jobs at the same time (per-manager state blocks must not overlap or share scratch);
    # the ids of the reused items are offset by a multiple of PAIR_ID so that every occurrence has its own result
    PAIR_A, PAIR_B = 16, 2
    base_names = [n for (n, b) in T if "+" not in n]
    pair_files = []
    seq = 0
    for a in base_names:
        lines = []
        for bn in base_names:
            if bn == a:
                continue
            seq += 1
            ia = [by_name[a][rng.below(per)] for _ in range(PAIR_A)]
            ib = [by_name[bn][rng.below(per)] for _ in range(PAIR_B)]
            order = ia[:PAIR_A - 3] + ib[:1] + ia[PAIR_A - 3:] + ib[1:]
            for k, (i, n_, d) in enumerate(order):
                lines.append(((seq * 32 + k) * PAIR_ID + i, n_, d))
        pth = os.path.join(workdir, "pair_%s.txt" % a)
        with open(pth, "w") as f:
            for (i, n_, d) in lines:
                f.write(item_line(i, d) + "\n")
        pair_files.append((pth, lines))
    # alone runs
    allf = os.path.join(workdir, "all.txt")
    with open(allf, "w") as f:
        for (i, name, d) in items:
            f.write(item_line(i, d) + "\n")
    t0 = time.time()
    alone, to = run_k1(k1, allf, "all", eps, 1)
    jobs = []
    for (p, its) in files:
        for b in batches:
            jobs.append((p, b))
    for (p, its) in pair_files:
        jobs.append((p, PAIR_A + PAIR_B))
    together = []
    with cf.ThreadPoolExecutor(max_workers=common.NCPU) as ex:
        futs = {ex.submit(run_k1, k1, p, "all", eps, b): (p, b) for (p, b) in jobs}
        for fu in cf.as_completed(futs):
            together.append((futs[fu], fu.result()))
    diffs = []
    ncmp = 0
    rejected = {}
    for (p, b), (r, timed_out) in together:
        if timed_out:
            diffs.append(dict(kind="hang", file=p, batch=b))
        for key, val in r.items():
            rawid = key[0]
            key = (key[0] % PAIR_ID, key[1], key[2])
            a = alone.get(key)
            if a is None or a == "skip" or val == "skip":
                continue
            ncmp += 1
            if a != val:
                diffs.append(dict(kind="differs", id=key[0], rawid=rawid, var=key[1], ep=key[2], batch=b, file=p, alone=a[:300], together=val[:300],
                                  alg=name_of[key[0]]))
    for key, a in alone.items():
        if a.startswith("status=") and not a.startswith("status=3"):
            rejected[name_of[key[0]]] = a[:40]
    if rejected:
        log("note: templates rejected by the library (not counted):", rejected)
    known = common.known_findings(PID)
    kn_lines = [l for (kind, l) in known if kind == "known"]
    unexplained = []
    hit = set()
    for d in diffs:
        if d["kind"] == "differs":
            k = known_key(d["alg"], d["var"])
            m = [l for l in kn_lines if ("key=" + k + " ") in l + " " or ("key=\"%s\"" % k) in l]
            if m:
                hit.add(m[0])
                continue
        unexplained.append(d)
    for l in hit:
        res.known.append(l.split(" ", 1)[1] if " " in l else l)
    nontrivial = len(set((k[0] % PAIR_ID) for (pb, (r, _)) in together for k, v in r.items() if v != "skip"))
    res.coverage.update({
        "evaluations": ncmp, "distinct_nontrivial": nontrivial,
        "rule": "one evaluation = one (work item, variant, entry point, batch size, order) result compared with the same item run alone; "
                "distinct non-trivial = distinct work items that ran inside at least one batch of >= 2 different jobs",
        "algorithms": sorted(by_name.keys()), "batches": batches, "entry_points": eps, "items": len(items),
        "samples": [item_line(i, d)[:300] for (i, n, d) in items[:3]],
        "differences": len(diffs), "lib_build_s": round(tb, 1), "run_s": round(time.time() - t0, 1),
        "traces_validated_against_impl": len(together),
    })
    sched_bad = ooo_state_tie(res, Rng(seed + 17), tier, workdir)
    broken_proof = pres["discharged"] != pres["obligations"] or pres["failed"] or pres["obligations"] == 0
    # group unexplained differences by (alg, arch) and report the smallest reproducer of each group
    groups = {}
    for d in unexplained:
        g = (d.get("alg"), d.get("var", "").split(":")[0], d["kind"])
        if g not in groups or d.get("batch", 99) < groups[g].get("batch", 99):
            groups[g] = d
    for g, d in list(groups.items())[:6]:
        rp = dict(d); rp.update(property=PID, what="result of a job changes when co-scheduled with other jobs", seed=seed)
        if d["kind"] == "differs":
            ls = open(d["file"]).read().splitlines()
            if os.path.basename(d["file"]).startswith("pair_"):
                # the batch of PAIR_A + PAIR_B lines that contains the job
                n = PAIR_A + PAIR_B
                at = [k for k, l in enumerate(ls) if l.startswith("id=%d " % d["rawid"])]
                k0 = (at[0] // n) * n if at else 0
                rp["case_file_lines"] = ls[k0:k0 + n]
                rp["batch"] = n
            else:
                rp["case_file_lines"] = ls[:40]
        res.violation(rp, name="%s_%s" % (g[0], g[1]))
    if (broken_proof or sched_bad) and not groups:
        res.violation(dict(property=PID, broken_obligations=pres["failed"], log=pres["log"][-2000:] if broken_proof else "",
                           scheduler_state_mismatches=[dict(arch=o["arch"], flags=o["flags"], mism=o["mism"][:3],
                                                            script=open(o["script"]).read().splitlines()[:400]) for o in sched_bad[:2]],
                           note="theorems of Props/Properties_C04.v / the scheduler model Mgr/Ooo.v no longer check against this tree "
                                "(lens / unused_lanes / job_in_lane of the AES-CBC managers differ from the model, or a proof broke); "
                                "the alone-vs-together differential found no job whose result changes"),
                      note="no-failing-input-found", name="unproved")
    res.assumptions = ["every submit/flush routine is an instance of the generic scheduler Mgr/Ooo.v (hand model)",
                       "SIMD kernels are lane-independent (checked only by this differential)"]
    return res.finish()


def replay(path):
    rp = json.load(open(path))
    common.build_lib()
    k1 = common.build_harness("k1_algo", extra_src=["imbh.c"])
    workdir = os.path.join(common.BUILD, "c04")
    os.makedirs(workdir, exist_ok=True)
    p = os.path.join(workdir, "replay.txt")
    open(p, "w").write("\n".join(rp["case_file_lines"]) + "\n")
    a, _ = run_k1(k1, p, rp["var"], str(rp["ep"]), 1)
    b, _ = run_k1(k1, p, rp["var"], str(rp["ep"]), rp["batch"])
    bad = [k for k in a if a[k] != b.get(k)]
    print("differing results:", bad[:10])
    return 1 if bad else 0
