"""C18 -- every exported function and every manager entry point obeys the System V x86-64 calling
convention on all paths (rbx, rbp, r12-r15 and rsp restored, DF clear, MXCSR unchanged).

Proof:  coq/X86/FrameSound.v  (`frame_check_sound`: the certificate validator of X86/FrameCheck.v is sound
        for the frame machine of X86/Frame.v, proved once) +
        one `vm_compute` theorem per rebuilt NASM object (Props/Properties_C18_<obj>.v over the regenerated
        Gen/GenCfg_<obj>.v) + the generated glue Props/Properties_C18_All.v (`c18_calling_convention`).
Tie:    T5 (translators/t5_cfg.py, trusted: objdump decoding, mnemonic table, A1, block collapsing) is re-run on
        the rebuilt objects on every check;  K4 (harness/k4_regs.c + k4_tramp.S) validates T5's per-function
        summaries and assumption A1 dynamically: API level through a sentinel trampoline, function level
        through int3 breakpoints on every hand-written function of the rebuilt .so.
Search: K4 restricted to the function(s) whose obligation failed, full suite x lane-state x variant matrix.
"""
import os, sys, json, re, time, subprocess
from . import common
from .common import Result, log

PID = "C18"
GEN = os.path.join(common.COQDIR, "Gen")
PROPS = os.path.join(common.COQDIR, "Props")
T5 = os.path.join(common.VERIF, "translators", "t5_cfg.py")
WORK = os.path.join(common.BUILD, "c18")
INDEX = os.path.join(GEN, "GenCfgIndex.json")
STATIC_V = ["X86/Frame.v", "X86/FrameCheck.v", "X86/FrameSound.v", "Props/Properties_C18.v", "Props/Examples_C18.v"]
BEGIN, END = "# BEGIN C18 GENERATED", "# END C18 GENERATED"
REGS = ['rax', 'rcx', 'rdx', 'rbx', 'rsp', 'rbp', 'rsi', 'rdi', 'r8', 'r9', 'r10', 'r11', 'r12', 'r13', 'r14', 'r15']

TRUSTED = [
    "Coq 8.16.1 kernel including vm_compute (the per-object theorems and c18_link are proved by vm_compute; no native_compute)",
    "binutils: `objdump -D -r -z -M intel` decoding and `readelf -sW/-SW` symbol tables of the rebuilt *.asm.o objects",
    "translators/t5_cfg.py decode(): explicit mnemonic -> frame-effect table (unknown mnemonic, indirect branch, "
    "cross-object jump or unsupported rsp write aborts the translation)",
    "T5 straight-line collapsing: instructions without frame effect vanish, runs of register clobbers are merged into one IClob",
    "assumption A1: stores through pointers T5 cannot resolve to a stack address (argument pointers, walked or indexed "
    "pointers into own scratch areas) do not overwrite a live save slot, the return address or the caller's frame "
    "(counted per function in Gen/GenCfgIndex.json; exercised by K4)",
    "T5's list of functions callable from C: undefined symbols of the C objects (nm -u) + dynamic exports of libIPSec_MB.so",
    "calls from assembly into compiled C (zuc*_eia3_*_buffer_job_*) are assumed to obey System V (semantics of an undefined callee)",
    "frame machine abstractions: addresses are unbounded integers, memory is word-granular with overlap-havoc, only "
    "terminating activations are covered (big-step semantics); see coq/X86/C18_NOTES.md",
]


# ------------------------------------------------------------------------------------------------
def run_t5():
    t0 = time.time()
    p = common.run([sys.executable, T5, "--build", common.LIBDIR, "--out", GEN, "--props", PROPS], timeout=1200)
    index = None
    if p.returncode == 0 and os.path.exists(INDEX):
        index = json.load(open(INDEX))
    return p, index, time.time() - t0


def update_coqproject(index):
    """(re)write our delimited block at the end of _CoqProject; other blocks are left untouched"""
    files = list(STATIC_V)
    for o in index["objects"]:
        files.append("Gen/GenCfg_%s.v" % o["ident"])
    files.append("Gen/GenCfgAll.v")
    for o in index["objects"]:
        files.append("Props/Properties_C18_%s.v" % o["ident"])
    files.append("Props/Properties_C18_All.v")
    files = [f for f in files if os.path.exists(os.path.join(common.COQDIR, f))]
    block = BEGIN + "\n" + "\n".join(files) + "\n" + END + "\n"
    path = os.path.join(common.COQDIR, "_CoqProject")
    txt = open(path).read()          # re-read right before writing: the file is edited concurrently
    if BEGIN in txt and END in txt:
        i = txt.index(BEGIN)
        j = txt.index(END) + len(END)
        if j < len(txt) and txt[j] == "\n":
            j += 1
        new = txt[:i] + block + txt[j:]
    else:
        new = txt + ("" if txt.endswith("\n") else "\n") + block
    if new != txt:
        tmp = path + ".c18tmp"
        with open(tmp, "w") as f:
            f.write(new)
        os.replace(tmp, path)
        return True
    return False


def write_makefile(index):
    """A private Makefile for the C18 files only (the dependency structure is fixed and known).  The shared
    coq_makefile Makefile stops working for everybody as soon as any listed file of any property is missing,
    and a check must not fail because of somebody else's half-finished edit."""
    os.makedirs(WORK, exist_ok=True)
    C = common.COQDIR
    idents = [o["ident"] for o in index["objects"]]
    L = ["COQC = cd %s && timeout 1500 coqc -Q . IMB -w -notation-overridden,-deprecated-hint-without-locality,-deprecated-instance-without-locality" % C,
         ".DELETE_ON_ERROR:", ".SUFFIXES:", ""]

    def rule(t, deps):
        L.append("%s/%s.vo: %s/%s.v %s" % (C, t, C, t, " ".join("%s/%s.vo" % (C, d) for d in deps)))
        L.append("\t@echo COQC %s.v" % t)
        L.append("\t@$(COQC) %s.v" % t)
    rule("X86/Frame", [])
    rule("X86/FrameCheck", ["X86/Frame"])
    rule("X86/FrameSound", ["X86/Frame", "X86/FrameCheck"])
    rule("Props/Properties_C18", ["X86/FrameSound"])
    rule("Props/Examples_C18", ["X86/FrameSound"])
    for i in idents:
        rule("Gen/GenCfg_" + i, ["X86/FrameCheck"])
        rule("Props/Properties_C18_" + i, ["Gen/GenCfg_" + i])
    rule("Gen/GenCfgAll", ["Gen/GenCfg_" + i for i in idents])
    rule("Props/Properties_C18_All", ["Gen/GenCfgAll", "X86/FrameSound"] + ["Props/Properties_C18_" + i for i in idents])
    path = os.path.join(WORK, "Makefile.c18")
    txt = "\n".join(L) + "\n"
    if not os.path.exists(path) or open(path).read() != txt:
        with open(path, "w") as f:
            f.write(txt)
    return path


def c18_make(mk, targets, timeout=3000):
    tg = [os.path.join(common.COQDIR, t) for t in targets]
    p = common.run(["timeout", str(timeout), "make", "-k", "-j", str(common.NCPU), "-f", mk] + tg, timeout=timeout + 60)
    return p.returncode == 0, p.stdout + p.stderr


def fresh(vo, *deps):
    if not os.path.exists(vo):
        return False
    m = os.path.getmtime(vo)
    return all(os.path.exists(d) and os.path.getmtime(d) <= m for d in deps)


def parse_assumptions(out, thms):
    """Print Assumptions blocks of one freshly compiled file -> (discharged names, failures)"""
    blocks = re.split(r"^(?=Closed under the global context|Axioms:)", out, flags=re.M)
    blocks = [b for b in blocks if b.startswith("Closed under") or b.startswith("Axioms:")]
    if len(blocks) != len(thms):
        return [], ["expected %d Print Assumptions blocks, found %d" % (len(thms), len(blocks))]
    good, bad = [], []
    for t, b in zip(thms, blocks):
        if b.startswith("Closed under"):
            good.append(t)
        else:
            bad.append("%s depends on axioms: %s" % (t, " ".join(b.split()[1:12])))
    return good, bad


def coq_build(index, tier):
    """returns dict(obligations, discharged, failed_objects=[ident], failed=[text], log, theorems)"""
    idents = [o["ident"] for o in index["objects"]]
    if tier == "thorough":
        # re-check everything from scratch
        for d, pat in ((GEN, r"^GenCfg(_.*|All)\.(vo|vok|vos|glob)$"), (PROPS, r"^(Properties|Examples)_C18(_.*)?\.(vo|vok|vos|glob)$"),
                       (os.path.join(common.COQDIR, "X86"), r"^Frame(Check|Sound)?\.(vo|vok|vos|glob)$")):
            for f in os.listdir(d):
                if re.match(pat, f):
                    os.remove(os.path.join(d, f))
    res = {"failed": [], "failed_objects": [], "log": "", "theorems": []}
    bad = common.forbidden_tokens()
    if bad:
        res["failed"] += ["forbidden token: " + b for b in bad[:20]]
    t0 = time.time()
    mk = write_makefile(index)
    targets = ["Props/Properties_C18_%s.vo" % i for i in idents] + ["Gen/GenCfgAll.vo", "X86/FrameSound.vo", "Props/Examples_C18.vo"]
    ok, out = c18_make(mk, targets, timeout=3000)
    res["log"] += out[-6000:]
    res["make_objects_s"] = round(time.time() - t0, 1)
    n_obj_ok = 0
    for i in idents:
        gv, gvo = os.path.join(GEN, "GenCfg_%s.v" % i), os.path.join(GEN, "GenCfg_%s.vo" % i)
        pv, pvo = os.path.join(PROPS, "Properties_C18_%s.v" % i), os.path.join(PROPS, "Properties_C18_%s.vo" % i)
        res["theorems"].append("c18_" + i)
        if fresh(gvo, gv) and fresh(pvo, pv, gvo):
            n_obj_ok += 1
        else:
            res["failed_objects"].append(i)
            res["failed"].append("c18_%s: Props/Properties_C18_%s.vo did not build" % (i, i))
    if not fresh(os.path.join(PROPS, "Examples_C18.vo"), os.path.join(PROPS, "Examples_C18.v")):
        res["failed"].append("Props/Examples_C18.vo did not build")
    # the generic soundness statement (always re-executed so that Print Assumptions is observed in this run)
    t0 = time.time()
    discharged = n_obj_ok
    obligations = len(idents)
    for vfile in ("Props/Properties_C18.v", "Props/Properties_C18_All.v"):
        thms = common.coq_theorems(vfile)
        obligations += len(thms)
        res["theorems"] += thms
        vo = os.path.join(common.COQDIR, vfile + "o")
        if vfile.endswith("_All.v") and res["failed_objects"]:
            res["failed"].append("%s not attempted: %d object theorem(s) failed" % (vfile, len(res["failed_objects"])))
            continue
        try:
            os.remove(vo)
        except FileNotFoundError:
            pass
        ok, out = c18_make(mk, [vfile + "o"], timeout=1800)
        res["log"] += out[-3000:]
        if not ok or not os.path.exists(vo):
            res["failed"].append("build of %s failed" % vfile)
            continue
        good, badl = parse_assumptions(out, thms)
        discharged += len(good)
        res["failed"] += badl
    res["make_top_s"] = round(time.time() - t0, 1)
    res["obligations"], res["discharged"] = obligations, discharged
    return res


# ------------------------------------------------------------------------------------------------
def so_path():
    return os.path.join(common.LIBSO_DIR, "libIPSec_MB.so")


def write_trace_file(index):
    """<offset> <mask> <mxcsr kept> <name> for every global hand-written function present in the .so symtab"""
    os.makedirs(WORK, exist_ok=True)
    nm = common.run(["nm", "--defined-only", so_path()], check=True).stdout
    addr, dup = {}, set()
    for l in nm.splitlines():
        t = l.split()
        if len(t) == 3 and t[1] in "tT":
            if t[2] in addr:
                dup.add(t[2])
            addr[t[2]] = int(t[0], 16)
    path = os.path.join(WORK, "k4_trace.txt")
    n = 0
    names = set()
    with open(path, "w") as f:
        for o in index["objects"]:
            for fn in o["functions"]:
                if not fn["global"] or fn["name"] not in addr or fn["name"] in dup or fn.get("entry_is_flow_target"):
                    continue
                mask = sum(1 << REGS.index(r) for r in fn["preserved"])
                f.write("%x %x %d %s\n" % (addr[fn["name"]], mask, 1 if fn["mxcsr_kept"] else 0, fn["name"]))
                names.add(fn["name"])
                n += 1
    return path, n, names


def run_k4(exe, args, timeout):
    """-> dict(rc, summary{}, trace{}, clobbers[lines], fn_hits{name: (hits, bad)}, crashed, stderr_tail)"""
    t0 = time.time()
    try:
        p = common.run([exe] + args, env=common.lib_env(), timeout=timeout)
        rc, out, err = p.returncode, p.stdout, p.stderr
    except subprocess.TimeoutExpired as ex:
        rc = -999
        out = ex.stdout.decode(errors="replace") if isinstance(ex.stdout, bytes) else (ex.stdout or "")
        err = "k4_regs did not terminate within %d s (hang inside the library)" % timeout
    r = {"rc": rc, "args": args, "summary": {}, "trace": {}, "clobbers": [], "fn_hits": {}, "stderr_tail": err[-1500:],
         "wall_s": round(time.time() - t0, 1), "ok_lines": 0}
    for l in out.splitlines():
        if l.startswith("CLOBBER"):
            r["clobbers"].append(l)
        elif l.startswith("OK "):
            r["ok_lines"] += 1
        elif l.startswith("SUMMARY"):
            r["summary"] = {k: int(v) for k, v in (t.split("=") for t in l.split()[1:])}
        elif l.startswith("TRACE "):
            r["trace"] = {k: int(v) for k, v in (t.split("=") for t in l.split()[1:])}
        elif l.startswith("TRACEFN"):
            t = l.split()
            r["fn_hits"][t[1]] = (int(t[2].split("=")[1]), int(t[3].split("=")[1]))
    r["crash_line"] = next((l for l in out.splitlines() if l.startswith("CRASH")), None)
    r["crashed"] = rc not in (0, 1) or not r["summary"] or r["crash_line"] is not None
    return r


def clobber_fields(line):
    d = {"line": line, "reg": line.split()[1]}
    for t in line.split()[2:]:
        if "=" in t:
            k, v = t.split("=", 1)
            d[k] = v
    return d


def known_keys():
    ks = []
    for kind, line in common.known_findings(PID):
        m = re.search(r"key=(\S+)", line)
        if kind == "known" and m:
            ks.append((m.group(1), line))
    return ks


# ------------------------------------------------------------------------------------------------
def main(tier, seed):
    res = Result(PID, tier, seed, "proof")
    os.makedirs(WORK, exist_ok=True)
    tb = common.build_lib()
    p5, index, t5s = run_t5()
    if index is None:
        # the translation itself aborted: nothing can be claimed about this tree
        msg = (p5.stdout + p5.stderr)[-3000:]
        log("T5 aborted:\n" + msg)
        res.coverage.update({"obligations": 1, "discharged": 0, "checker_cmd": "translators/t5_cfg.py", "trusted_base": TRUSTED,
                             "evaluations": 0, "distinct_nontrivial": 0, "rule": "T5 aborted", "samples": [msg[-400:]]})
        # failing-input search without the static information: the API-level trampoline over the whole matrix
        witness = None
        try:
            exe = common.build_harness("k4_regs", extra_src=["k4_tramp.S"])
            kr = run_k4(exe, ["--quiet", "--seed", str(seed)] + (["--quick"] if tier == "quick" else []), 1800)
            if kr["clobbers"]:
                witness = clobber_fields(kr["clobbers"][0])
            elif kr["crashed"]:
                witness = {"reg": "crash(rc=%s)" % kr["rc"], "line": kr.get("crash_line") or kr["stderr_tail"][-300:]}
        except Exception as ex:      # noqa
            log("k4 search failed: %r" % (ex,))
        rp = {"property": PID, "kind": "translation aborted (unknown mnemonic / indirect branch / unsupported rsp write)",
              "t5_output": msg, "seed": seed}
        if witness:
            rp["dynamic_witness"] = witness
            rp["k4_args"] = ["--quiet", "--variant", witness.get("variant", "sse"), "--suite", witness.get("suite", "direct")]
            res.violation(rp, note="T5 aborted; dynamic witness: %s fn=%s" % (witness["reg"], witness.get("fn")), name="t5_abort")
        else:
            res.violation(rp, note="T5 aborted (the tree can no longer be translated) no-failing-input-found", name="t5_abort")
        return res.finish()
    for l in p5.stdout.splitlines():
        log(l)
    update_coqproject(index)
    cq = coq_build(index, tier)
    for f in cq["failed"][:20]:
        log("proof obligation failed:", f)

    # ---- K4
    exe = common.build_harness("k4_regs", extra_src=["k4_tramp.S"])
    trace_file, n_traced, traced = write_trace_file(index)
    k4_runs = []
    if tier == "quick":
        k4_runs.append(run_k4(exe, ["--quiet", "--quick", "--trace", trace_file, "--seed", str(seed)], 600))
    else:
        k4_runs.append(run_k4(exe, ["--quiet", "--trace", trace_file, "--hit-cap", "20000", "--seed", str(seed)], 2400))
        k4_runs.append(run_k4(exe, ["--seed", str(seed + 1)], 1200))      # pure API level, one line per call
    api_calls = sum(r["summary"].get("calls", 0) for r in k4_runs)
    fn_checks = sum(r["trace"].get("checks", 0) for r in k4_runs)
    fn_hit = {}
    for r in k4_runs:
        for n, (h, b) in r["fn_hits"].items():
            fn_hit[n] = fn_hit.get(n, 0) + h
    hit_names = sorted(n for n, h in fn_hit.items() if h)
    not_hit = sorted(n for n, h in fn_hit.items() if not h)

    # ---- statistics for the evidence
    funcs = [(o, f) for o in index["objects"] for f in o["functions"]]
    sum_hist, dir_hist, a1 = {}, {}, {"arg_ptr": 0, "frame_ptr": 0, "rsp_indexed": 0}
    for o, f in funcs:
        key = ("sysv+" if f["c_reachable"] else "internal:") + ",".join(r for r in f["preserved"] if r in ("rbx", "rbp", "r12", "r13", "r14", "r15"))
        if f["c_reachable"]:
            key = "callable-from-C (full System V)"
        sum_hist[key] = sum_hist.get(key, 0) + 1
        d = o["name"].split("/")[0]
        dir_hist[d] = dir_hist.get(d, 0) + 1
        for k in a1:
            a1[k] += f["a1"].get(k, 0)
    big = sorted(funcs, key=lambda of: -of[1]["insns"])[:3]
    samples = [{"object": o["name"], "function": f["name"], "instructions": f["insns"], "blocks": f["blocks"],
                "c_reachable": f["c_reachable"], "preserved": f["preserved"]} for o, f in big]
    samples += [{"object": o["name"], "function": f["name"], "internal_summary_preserved": f["preserved"]}
                for o, f in funcs if not f["c_reachable"]][:3]
    samples.append({"k4_cmd": "k4_regs " + " ".join(k4_runs[0]["args"]), "k4_summary": k4_runs[0]["summary"], "k4_trace": k4_runs[0]["trace"]})
    res.coverage.update({
        "obligations": cq["obligations"], "discharged": cq["discharged"],
        "checker_cmd": "python3 translators/t5_cfg.py --build .build/lib --out coq/Gen && make -k -j%d -f .build/c18/Makefile.c18 "
                       "Props/Properties_C18_<obj>.vo Props/Properties_C18.vo Props/Properties_C18_All.vo (coqc 8.16.1 -Q coq IMB) "
                       "+ Print Assumptions" % common.NCPU,
        "trusted_base": TRUSTED, "theorems": cq["theorems"][-8:], "exhaustive": True,
        "objects": index["n_objects"], "functions": index["n_functions"], "instructions": index["n_instructions"],
        "basic_blocks": index["n_blocks"], "frame_instructions_after_collapsing": index["n_frame_instrs"],
        "c_reachable_functions": index["n_c_reachable"], "internal_functions": index["n_functions"] - index["n_c_reachable"],
        "extern_callees_assumed_sysv": index["externs"], "summary_histogram": sum_hist, "functions_per_directory": dir_hist,
        "a1_unrepresented_stores": a1, "t5_files_rewritten": len(index.get("changed", [])),
        "evaluations": api_calls + fn_checks,
        "distinct_nontrivial": len(hit_names),
        "rule": "evaluations = K4 calls through the sentinel trampoline (every IMB_SUBMIT/FLUSH/GET_NEXT/GET_COMPLETED/QUEUE_SIZE "
                "and direct API call of the suite x lane-state x variant matrix) + function-level summary checks made by the "
                "int3 tracer; distinct_nontrivial = number of distinct hand-written functions of the rebuilt .so whose T5 summary "
                "(preserved registers, rsp+8, DF=0, MXCSR) was checked on at least one real execution",
        "k4_api_calls": api_calls, "k4_function_level_checks": fn_checks, "k4_functions_traced": n_traced,
        "k4_functions_hit": len(hit_names), "k4_functions_not_hit_sample": not_hit[:25],
        "k4_jobs_completed": sum(r["summary"].get("jobs", 0) for r in k4_runs),
        "k4_jobs_bad_status": sum(r["summary"].get("bad_status", 0) for r in k4_runs),
        "traces_validated_against_impl": fn_checks,
        "variants": ["sse", "sse-shani-off", "sse-gfni-off", "avx2", "avx2-shani-off", "avx2-gfni-off", "avx512", "avx512-shani-off", "avx512-gfni-off"],
        "samples": samples,
        "timing_s": {"lib_build": round(tb, 1), "t5": round(t5s, 1), "coq_objects": cq.get("make_objects_s"), "coq_top": cq.get("make_top_s"),
                     "k4": [r["wall_s"] for r in k4_runs]},
    })
    res.assumptions = ["A1 (pointer stores do not hit save slots / return address), see trusted_base",
                       "DF = 0 on entry (ABI precondition)", "only terminating activations (partial correctness)",
                       "Windows-ABI paths (%ifndef LINUX) are not assembled in this build"]

    # ---- verdict
    known = known_keys()

    def is_known(fn):
        for k, line in known:
            if k == fn:
                if line not in res.known:
                    res.known.append(line.split("property=%s " % PID, 1)[-1])
                return True
        return False

    reported = 0
    # (1) dynamic clobbers seen by the regular K4 runs: the property fails on the real library
    seen = set()
    for r in k4_runs:
        for line in r["clobbers"]:
            c = clobber_fields(line)
            key = (c.get("fn"), c["reg"])
            if key in seen or is_known(c.get("fn", "")):
                continue
            seen.add(key)
            if reported < 5:
                args = ["--quiet", "--variant", c.get("variant", "sse"), "--suite", c.get("suite", "direct")]
                if "function level" in line:
                    args += ["--trace", trace_file, "--only-fn", c.get("fn", ""), "--hit-cap", "1000000"]
                res.violation({"property": PID, "kind": "k4", "k4_args": args, "clobber": c, "seed": seed,
                               "note": "register state not restored on return (dynamic witness)"},
                              note="%s clobbered by %s" % (c["reg"], c.get("fn")), name="k4_%s_%s" % (c.get("fn"), c["reg"]))
                reported += 1
        if r["crashed"]:
            res.violation({"property": PID, "kind": "k4", "k4_args": r["args"], "rc": r["rc"], "stderr": r["stderr_tail"], "seed": seed,
                           "crash": r.get("crash_line"),
                           "note": "K4 harness crashed or hung inside the library"}, note="k4 crashed rc=%s" % r["rc"], name="k4_crash")
            reported += 1

    # (2) broken obligations: name function / path / register, then search for a dynamic witness
    fails_by_ident = {}
    for fl in index.get("failures", []):
        fails_by_ident.setdefault(fl["ident"], []).append(fl)
    for ident in cq["failed_objects"][:6]:
        fls = fails_by_ident.get(ident) or [{"ident": ident, "object": ident, "function": None,
                                             "why": "Coq rejected the certificate although T5's own check accepted it "
                                                    "(translator / checker disagreement)"}]
        for fl in fls[:3]:
            fn = fl.get("function")
            if fn and is_known(fn):
                continue
            rp = {"property": PID, "kind": "static", "object": fl.get("object"), "ident": ident, "function": fn,
                  "failure": fl.get("kind"), "why": fl.get("why"), "offending_block": fl.get("block"),
                  "cfg_path_to_offending_block": fl.get("path"), "registers": fl.get("regs"), "seed": seed,
                  "theorem": "c18_%s (Props/Properties_C18_%s.v)" % (ident, ident), "proof_log_tail": cq["log"][-1500:]}
            witness = None
            if fn and fn in traced:
                kr = run_k4(exe, ["--quiet", "--trace", trace_file, "--only-fn", fn, "--hit-cap", "1000000", "--seed", str(seed)], 1800)
                mine = [clobber_fields(l) for l in kr["clobbers"]]
                mine = [c for c in mine if c.get("fn") == fn] or mine
                if not mine and kr["crashed"]:
                    mine = [{"reg": "crash(rc=%s)" % kr["rc"], "fn": fn, "suite": "?", "variant": "?",
                             "line": "k4_regs crashed/hung while exercising %s: %s" % (fn, kr["stderr_tail"][-300:])}]
                if mine:
                    witness = mine[0]
                    rp["k4_args"] = ["--quiet", "--trace", trace_file, "--only-fn", fn, "--hit-cap", "1000000",
                                     "--variant", witness.get("variant", "sse"), "--suite", witness.get("suite", "direct")]
                    rp["dynamic_witness"] = witness
                rp["k4_search"] = {"hits": kr["fn_hits"].get(fn, (0, 0))[0], "clobbers": len(kr["clobbers"]), "summary": kr["summary"]}
            note = "%s: %s" % (fn, fl.get("why"))
            if witness:
                note += " ; dynamic witness: %s suite=%s variant=%s" % (witness["reg"], witness.get("suite"), witness.get("variant"))
            else:
                note += " no-failing-input-found"
            res.violation(rp, note=note, name="static_%s" % (fn or ident))
            reported += 1
    other = [f for f in cq["failed"] if not f.startswith("c18_")]
    if (other or cq["discharged"] != cq["obligations"]) and reported == 0 and not res.known:
        res.violation({"property": PID, "kind": "proof", "broken_obligations": cq["failed"], "proof_log_tail": cq["log"][-3000:], "seed": seed},
                      note="no-failing-input-found", name="unproved")
    return res.finish()


def replay(path):
    rp = json.load(open(path))
    common.build_lib()
    bad = 0
    if rp.get("kind") in ("static", "proof", None) or rp.get("function"):
        p5, index, _ = run_t5()
        if index is None:
            print("T5 aborts on the current tree:\n" + (p5.stdout + p5.stderr)[-2000:])
            return 1
        cur = [f for f in index.get("failures", []) if f.get("function") == rp.get("function") and f.get("ident") == rp.get("ident")]
        if cur:
            bad = 1
            print(json.dumps({"still_failing": cur[0]}, indent=1))
        elif rp.get("kind") == "static":
            # let Coq arbitrate on the object
            update_coqproject(index)
            ok, out = c18_make(write_makefile(index), ["Props/Properties_C18_%s.vo" % rp["ident"]], timeout=1800)
            vo = os.path.join(PROPS, "Properties_C18_%s.vo" % rp["ident"])
            if not ok or not os.path.exists(vo):
                bad = 1
                print("object theorem c18_%s still fails:\n%s" % (rp["ident"], out[-1500:]))
            else:
                print("static obligation c18_%s holds on the current tree" % rp["ident"])
    if rp.get("k4_args"):
        index = json.load(open(INDEX)) if os.path.exists(INDEX) else None
        exe = common.build_harness("k4_regs", extra_src=["k4_tramp.S"])
        args = list(rp["k4_args"])
        if "--trace" in args and index is not None:
            args[args.index("--trace") + 1] = write_trace_file(index)[0]
        r = run_k4(exe, args, 1800)
        print("\n".join(r["clobbers"][:10]) or "k4: no clobber")
        print(json.dumps({"summary": r["summary"], "trace": r["trace"], "rc": r["rc"]}))
        if r["clobbers"] or r["crashed"]:
            bad = 1
    return bad
