"""C19: the direct (non-job) entry points of KASUMI and SNOW3G ("api=direct:<name>" dimension).

The property text speaks of "processing a job"; the direct API (IMB_KASUMI_F8_*_BUFFER, IMB_SNOW3G_F8_*_BUFFER,
...) is included because it runs the multi-buffer forms of the same kernels (kasumi_2/3/4/8_blocks, the 4- and
8-lane SNOW3G FSM/LFSR clocks of snow3g_common.h) that no job ever reaches.  DES has no direct API besides
des_key_schedule (outside the property).

A public class is (api, lens, off): entry point, the n buffer lengths (unit as the entry point takes it) and
the bit offset / direction.  A script line (harness/k7_leak.c: prepare_direct) is
    <id> direct:<api> <n> <len0,len1,..> <off> <key0[,key1,..]> <ivhex> <msgseed>
Keys: one 16-byte key per call, n different keys for the *_multikey entry points.  The key schedule
computation (IMB_KASUMI_INIT_F8/F9_KEY_SCHED, IMB_SNOW3G_INIT_KEY_SCHED) is outside the marked region.
"""

# name -> (family, fixed n or 0, multikey, IV bytes, length unit, key-variant algo of c19.KEYLEN)
API = {
    "kasumi_f8_1_buffer":          ("kasumi", 1, False, 8, "bytes", "kasumi_f8"),
    "kasumi_f8_1_buffer_bit":      ("kasumi", 1, False, 8, "bits", "kasumi_f8"),
    "kasumi_f8_2_buffer":          ("kasumi", 2, False, 8, "bytes", "kasumi_f8"),
    "kasumi_f8_3_buffer":          ("kasumi", 3, False, 8, "bytes", "kasumi_f8"),
    "kasumi_f8_4_buffer":          ("kasumi", 4, False, 8, "bytes", "kasumi_f8"),
    "kasumi_f8_n_buffer":          ("kasumi", 0, False, 8, "bytes", "kasumi_f8"),
    "kasumi_f9_1_buffer":          ("kasumi", 1, False, 0, "bytes", "kasumi_f9"),
    "kasumi_f9_1_buffer_user":     ("kasumi", 1, False, 8, "bits", "kasumi_f9"),
    "snow3g_f8_1_buffer":          ("snow3g", 1, False, 16, "bytes", "snow3g_uea2"),
    "snow3g_f8_1_buffer_bit":      ("snow3g", 1, False, 16, "bits", "snow3g_uea2"),
    "snow3g_f8_2_buffer":          ("snow3g", 2, False, 16, "bytes", "snow3g_uea2"),
    "snow3g_f8_4_buffer":          ("snow3g", 4, False, 16, "bytes", "snow3g_uea2"),
    "snow3g_f8_8_buffer":          ("snow3g", 8, False, 16, "bytes", "snow3g_uea2"),
    "snow3g_f8_8_buffer_multikey": ("snow3g", 8, True, 16, "bytes", "snow3g_uea2"),
    "snow3g_f8_n_buffer":          ("snow3g", 0, False, 16, "bytes", "snow3g_uea2"),
    "snow3g_f8_n_buffer_multikey": ("snow3g", 0, True, 16, "bytes", "snow3g_uea2"),
    "snow3g_f9_1_buffer":          ("snow3g", 1, False, 16, "bits", "snow3g_uia2"),
}
KASUMI_APIS = [a for a in API if API[a][0] == "kasumi"]
SNOW3G_APIS = [a for a in API if API[a][0] == "snow3g"]
# order in which the 9 keys of key_variants() are used when fewer than 9 fit (same as c19_step.KEY_PRIORITY)
KEY_PRIORITY = [0, 4, 6, 1, 5, 7, 2, 8, 3]


def macro(api):
    return "IMB_" + api.upper()


def family(api):
    return API[api][0]


def nkeys(api, n):
    return n if API[api][2] else 1


def line(cid, api, lens, off, keys, iv, seed):
    assert len(keys) == nkeys(api, len(lens)), (api, len(lens), len(keys))
    return "%s direct:%s %d %s %d %s %s %d" % (cid, api, len(lens), ",".join(str(x) for x in lens), off,
                                             ",".join(k.hex() for k in keys), iv.hex() if iv else "-", seed)


def class_str(api, lens, off):
    return "direct:%s/%s/%d" % (api, ",".join(str(x) for x in lens), off)


def group_keys(api, n, keys9, g):
    """keys of group g: key g for single-key calls, keys g, g+1, .. (all different) for multikey calls"""
    return [keys9[(g + j) % len(keys9)] for j in range(nkeys(api, n))]


# ----------------------------------------------------------------------------------------------
# cost model (single steps of one call; measured: one KASUMI block = 44.4 k steps on every variant)
# ----------------------------------------------------------------------------------------------
def kasumi_blocks(api, lens, off):
    b = lambda x: (x + 7) // 8
    if api == "kasumi_f8_1_buffer":
        return 1 + b(lens[0])
    if api == "kasumi_f8_1_buffer_bit":
        return 1 + (lens[0] + 63) // 64
    if api == "kasumi_f8_2_buffer":
        lo, hi = sorted(b(x) for x in lens)
        return 2 + 2 * lo + (hi - lo)
    if api in ("kasumi_f8_3_buffer", "kasumi_f8_4_buffer"):
        return len(lens) * (1 + b(lens[0]))
    if api == "kasumi_f8_n_buffer":
        return len(lens) + sum(b(x) for x in lens)
    if api == "kasumi_f9_1_buffer":
        return b(lens[0]) + 1
    if api == "kasumi_f9_1_buffer_user":
        return 2 + lens[0] // 64 + 1
    raise ValueError(api)


def est_steps(variant, api, lens, off):
    if family(api) == "kasumi":
        return 44500 * kasumi_blocks(api, lens, off)
    sse = variant.startswith("sse")
    n = len(lens)
    nbytes = sum((x + 7) // 8 if API[api][4] == "bits" else x for x in lens)
    if n == 1:
        return 6500 + 8 * nbytes
    if API[api][2] and sse:               # no AVX2: one single-buffer call per buffer
        return 6500 * n + 8 * nbytes
    groups = (n // 4 + (n % 4) // 2 + n % 2) if sse else (n // 8 + (n % 8) // 4 + (n % 4) // 2 + n % 2)
    if API[api][2]:
        groups = n // 8 + n % 8
    return 2000 + 11000 * groups * (2 if n >= 8 else 1) + 8 * nbytes


# ----------------------------------------------------------------------------------------------
# public classes
# ----------------------------------------------------------------------------------------------
def memcheck_classes(rng, tier):
    """broad sweep for tie (a): every entry point, N in 2,3,5,8,9,16 (and more), equal and unequal lengths"""
    th = tier != "quick"
    C = []
    for ln in [1, 7, 8, 9, 16, 24, 33, 64] + ([100, 255, 256, 1000, 2500] if th else [200]):
        C.append(("kasumi_f8_1_buffer", (ln,), 0))
        C.append(("kasumi_f8_3_buffer", (ln,) * 3, 0))
        C.append(("kasumi_f8_4_buffer", (ln,) * 4, 0))
        C.append(("kasumi_f9_1_buffer", (max(ln, 8),), 0))
        C.append(("snow3g_f8_1_buffer", (ln,), 0))
    for ln, off in [(1, 0), (1, 7), (61, 3), (64, 0), (64, 1), (77, 3), (128, 8), (130, 5), (200, 13)] + \
                   ([(1000, 0), (4000, 9), (20000, 0)] if th else []):
        C.append(("kasumi_f8_1_buffer_bit", (ln,), off))
        C.append(("snow3g_f8_1_buffer_bit", (ln,), off))
        C.append(("kasumi_f9_1_buffer_user", (ln,), off & 1))
        C.append(("snow3g_f9_1_buffer", (ln,), 0))
    for a, b in [(8, 8), (16, 8), (8, 16), (9, 33), (40, 7), (1, 1), (64, 65)] + ([(255, 1000), (2500, 8)] if th else []):
        C.append(("kasumi_f8_2_buffer", (a, b), 0))
        C.append(("snow3g_f8_2_buffer", (a, b), 0))
    pool = [1, 5, 7, 8, 9, 15, 16, 17, 24, 31, 32, 33, 40, 64, 65, 100] + ([255, 256, 1000] if th else [])
    for _ in range(6 if th else 3):
        C.append(("snow3g_f8_4_buffer", tuple(rng.choice(pool) for _ in range(4)), 0))
        for api in ("snow3g_f8_8_buffer", "snow3g_f8_8_buffer_multikey"):
            C.append((api, tuple(rng.choice(pool) for _ in range(8)), 0))
    for ln in (8, 16, 33, 64):
        C.append(("snow3g_f8_4_buffer", (ln,) * 4, 0))
        C.append(("snow3g_f8_8_buffer", (ln,) * 8, 0))
        C.append(("snow3g_f8_8_buffer_multikey", (ln,) * 8, 0))
    for n in (1, 2, 3, 4, 5, 6, 7, 8, 9, 12, 13, 16):
        for api in ("kasumi_f8_n_buffer", "snow3g_f8_n_buffer", "snow3g_f8_n_buffer_multikey"):
            eq = rng.choice([8, 16, 24, 9])
            C.append((api, (eq,) * n, 0))                                         # equal lengths
            C.append((api, tuple(rng.choice(pool[:13]) for _ in range(n)), 0))    # unequal, unsorted
            if th:
                C.append((api, tuple(sorted((rng.choice(pool) for _ in range(n)), reverse=True)), 0))   # already sorted
    return C


def memcheck_lines(rng, tier, keylen=16):
    L = []
    for i, (api, lens, off) in enumerate(memcheck_classes(rng, tier)):
        keys = [rng.bytes(keylen) for _ in range(nkeys(api, len(lens)))]
        L.append(line("dm%d" % i, api, lens, off, keys, rng.bytes(API[api][3]), rng.below(1 << 30)))
    return L


def trace_classes(tier):
    """tie (b) (lackey, SSE / AVX2 type 1): small classes, every entry point"""
    th = tier != "quick"
    C = [("kasumi_f8_1_buffer", (16,), 0), ("kasumi_f8_1_buffer_bit", (61,), 3), ("kasumi_f8_2_buffer", (16, 8), 0),
         ("kasumi_f8_3_buffer", (8,) * 3, 0), ("kasumi_f8_4_buffer", (8,) * 4, 0),
         ("kasumi_f8_n_buffer", (8, 16), 0), ("kasumi_f8_n_buffer", (8, 8, 16, 8, 8), 0),
         ("kasumi_f9_1_buffer", (21,), 0), ("kasumi_f9_1_buffer_user", (77,), 1),
         ("snow3g_f8_1_buffer", (33,), 0), ("snow3g_f8_1_buffer_bit", (77,), 3), ("snow3g_f8_2_buffer", (16, 9), 0),
         ("snow3g_f8_4_buffer", (16, 9, 40, 8), 0), ("snow3g_f8_4_buffer", (32,) * 4, 0),
         ("snow3g_f8_8_buffer", (16, 9, 40, 8, 64, 33, 7, 100), 0),
         ("snow3g_f8_8_buffer_multikey", (16, 9, 40, 8, 64, 33, 7, 100), 0),
         ("snow3g_f8_n_buffer", (16, 9, 40, 8, 64), 0), ("snow3g_f8_n_buffer", (24,) * 9, 0),
         ("snow3g_f8_n_buffer_multikey", (16, 9, 40, 8, 64, 33, 7, 100, 12), 0),
         ("snow3g_f9_1_buffer", (77,), 0)]
    if th:
        C += [("kasumi_f8_n_buffer", (8,) * 3, 0), ("kasumi_f8_n_buffer", (8,) * 8, 0),
              ("kasumi_f8_n_buffer", (16, 8, 8, 9, 8, 8, 8, 8, 24), 0), ("kasumi_f8_2_buffer", (8, 24), 0),
              ("snow3g_f8_n_buffer", (8, 16), 0), ("snow3g_f8_n_buffer", (9, 8, 7), 0),
              ("snow3g_f8_n_buffer", tuple(range(8, 24)), 0), ("snow3g_f8_n_buffer_multikey", (16,) * 8, 0),
              ("snow3g_f8_n_buffer_multikey", (33, 8, 16), 0), ("snow3g_f8_1_buffer", (256,), 0),
              ("snow3g_f9_1_buffer", (300,), 0), ("kasumi_f9_1_buffer_user", (64,), 0)]
    return C


def trace_nkeys(api, tier):
    """KASUMI costs ~60 k lackey lines per block: 5 of the 9 keys in the quick tier"""
    return 5 if (family(api) == "kasumi" and tier == "quick") else 9


def step_classes(tier):
    """tie (d): api -> list of (lens, off).  KASUMI: 8..24 byte messages (44 k steps per block)."""
    th = tier != "quick"
    c = {
        "kasumi_f8_1_buffer": [((8,), 0)] + ([((17,), 0)] if th else []),
        "kasumi_f8_1_buffer_bit": [((61,), 3)] + ([((64,), 0)] if th else []),
        "kasumi_f8_2_buffer": [((16, 8), 0)] + ([((8, 8), 0), ((8, 24), 0)] if th else []),
        "kasumi_f8_3_buffer": [((8,) * 3, 0)] + ([((9,) * 3, 0)] if th else []),
        "kasumi_f8_4_buffer": [((8,) * 4, 0)] + ([((16,) * 4, 0)] if th else []),
        "kasumi_f8_n_buffer": [((8, 16), 0), ((8, 8, 16, 8, 8), 0)] +
                              ([((8,) * 3, 0), ((16, 8, 9), 0), ((8,) * 8, 0), ((8, 8, 8, 16, 8, 8, 8, 8, 8), 0)] if th else []),
        "kasumi_f9_1_buffer": [((8,), 0)] + ([((21,), 0)] if th else []),
        "kasumi_f9_1_buffer_user": [((61,), 1)] + ([((64,), 0)] if th else []),
        "snow3g_f8_1_buffer": [((33,), 0)] + ([((8,), 0), ((256,), 0)] if th else []),
        "snow3g_f8_1_buffer_bit": [((77,), 3)] + ([((64,), 0), ((200,), 13)] if th else []),
        "snow3g_f8_2_buffer": [((16, 9), 0)] + ([((8, 8), 0), ((7, 40), 0)] if th else []),
        "snow3g_f8_4_buffer": [((16, 9, 40, 8), 0)] + ([((32,) * 4, 0), ((5, 64, 8, 17), 0)] if th else []),
        "snow3g_f8_8_buffer": [((16, 9, 40, 8, 64, 33, 7, 100), 0)] + ([((32,) * 8, 0)] if th else []),
        "snow3g_f8_8_buffer_multikey": [((16, 9, 40, 8, 64, 33, 7, 100), 0)] + ([((32,) * 8, 0)] if th else []),
        "snow3g_f8_n_buffer": [((16, 9, 40, 8, 64), 0)] +
                              ([((8, 16), 0), ((9, 8, 7), 0), ((24,) * 8, 0), ((16, 9, 40, 8, 64, 33, 7, 100, 12), 0)] if th else []),
        "snow3g_f8_n_buffer_multikey": [((16, 9, 40, 8, 64, 33, 7, 100, 12), 0)] +
                                       ([((8, 16), 0), ((9, 8, 7), 0), ((24,) * 8, 0), ((16, 9, 40, 8, 64), 0)] if th else []),
        "snow3g_f9_1_buffer": [((77,), 0)] + ([((64,), 0), ((300,), 0)] if th else []),
    }
    return c


SNOW3G_FAMILIES = {"sse": ["sse:f0", "sse:f1", "sse:f2"], "avx2": ["avx2:f0", "avx2:f1"], "avx512": ["avx512:f0", "avx512:f1"]}


def step_plan(rng, tier, variants, key_variants, ivlen_of):
    """tasks of tie (d) for the direct entry points (same task format as c19_step.plan plus 'direct').

    The manager only holds a function pointer per direct entry point: KASUMI dispatches to ONE function
    (kasumi_*_sse) on all 7 variants, SNOW3G to one per architecture (snow3g_*_sse / _avx2 / _avx512; plus
    snow3g_f9_1_buffer_vaes_avx512 on avx512:f0).  The harness reports the dispatched function (fn=) so the
    check can state which distinct kernels were traced.
      quick:    every KASUMI entry point on one variant (round robin over the 7 variants, rotating with the
                seed), 2 keys; every SNOW3G entry point on one variant of each architecture (rotating),
                snow3g_f9_1_buffer on both AVX512 variants; 5 keys (3 for calls above 15 k steps)
      thorough: every KASUMI entry point on 2 variants (one of them AVX512), 3..5 keys; every SNOW3G entry
                point on all 7 variants, 9 keys."""
    th = tier != "quick"
    classes = step_classes(tier)
    rot = rng.below(1 << 20)
    tasks = []

    def add(variant, api, lens, off, nk):
        fam, _, multi, ivl, _, kalgo = API[api]
        keys9 = key_variants(rng, kalgo)
        order = KEY_PRIORITY[:nk]
        # group g: key order[g]; multikey calls: buffer j gets key order[g] + j (a different key per buffer)
        groups = [group_keys(api, len(lens), keys9, order[g]) for g in range(nk)]
        per = est_steps(variant, api, lens, off)
        tasks.append({"variant": variant, "algo": "direct:" + api, "api": api, "dir": len(lens), "len": lens[0], "off": off,
                      "lens": list(lens), "batch": 1, "direct": True, "key_groups": groups, "key_kinds": order,
                      "iv": rng.bytes(ivl), "mseed": rng.below(1 << 30), "cost": per * nk})

    present = [v for v in variants]
    # ---- KASUMI
    for i, api in enumerate(KASUMI_APIS):
        if th:
            a512 = [v for v in present if v.startswith("avx512")] or present
            rest = [v for v in present if not v.startswith("avx512")] or present
            vs = [a512[(i + rot) % len(a512)], rest[(i + rot) % len(rest)]]
        else:
            vs = [present[(i + rot) % len(present)]]
        for v in vs:
            for lens, off in classes[api]:
                blocks = kasumi_blocks(api, lens, off)
                nk = (5 if blocks <= 4 else 3 if blocks <= 12 else 2) if th else 2
                add(v, api, lens, off, nk)
    # ---- SNOW3G
    for i, api in enumerate(SNOW3G_APIS):
        for fi, (fam, fvs) in enumerate(sorted(SNOW3G_FAMILIES.items())):
            have = [v for v in fvs if v in present]
            if not have:
                continue
            if th or (api == "snow3g_f9_1_buffer" and fam == "avx512"):
                vs = have
            else:
                vs = [have[(i + fi + rot) % len(have)]]
            for v in vs:
                for lens, off in classes[api]:
                    per = est_steps(v, api, lens, off)
                    nk = 9 if th else (5 if per <= 15000 else 3)
                    add(v, api, lens, off, nk)
    return tasks


def task_lines(t):
    iv = t["iv"]
    return [line("k%d" % g, t["api"], t["lens"], t["off"], ks, iv, t["mseed"]) for g, ks in enumerate(t["key_groups"])]
