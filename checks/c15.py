"""C15 — initialising a manager at any point (jobs in flight, same or another variant) restores the
pristine state.

Proof:  coq/Props/Properties_C15.v over Mgr/Reset.v instantiated with Gen/GenReset.v, Gen/GenLayout.v
        (translators t7_reset.py / t8_layout.py, re-run on the current tree) and Gen/GenResetImages.v
        (images produced by the compiled ooo_mgr_*_reset functions, compared with the model in Coq).
Tie:    harness/k15_reinit.c — random API histories on every (old variant, new variant) pair, re-init
        after a random prefix, then (a) empty-manager checks, (b) whole-block image comparison against
        a freshly allocated + initialised manager, (c) identical traces/results for a follow-up
        history (and equal to each job run alone), (d) buffers of dropped jobs never written again.
Search: the same oracle (fresh-vs-reinit) IS the property; when a translator, a proof or the
        correspondence breaks, more pairs/histories are run before reporting `no-failing-input-found`."""
import os, sys, json, time, re, concurrent.futures as cf
from . import common, c15_gen
from .common import Rng, Result, log
from .c15_gen import VARIANTS, vname

PID = "C15"
STOP = {"violations": 0}     # once enough failing cases are in, the remaining ones are not started
STOP_AFTER = 12


def make_case(rng, pool, parks, old, new, n_prefix, n_follow, via=None):
    used_old = sorted({f for f in parks[old] if f and f != "immediate"})
    used_new = sorted({f for f in parks[new] if f and f != "immediate"})
    targets_old = [rng.choice(used_old) for _ in range(6)] if used_old else []
    targets_new = [rng.choice(used_new) for _ in range(6)] if used_new else []
    h = c15_gen.History()
    c15_gen.gen_ops(rng, h, pool, parks[old], n_prefix, targets_old, style="submit_only" if rng.chance(1, 2) else "mixed")
    kprefix = len(h.ops)
    c15_gen.gen_ops(rng, h, pool, parks[new], n_follow, targets_new)
    return {"old": list(old), "new": list(new), "how": rng.below(2), "kprefix": kprefix, "via": list(via) if via else None,
            "script": h.lines()}


def run_case(args):
    idx, case, k15, workdir = args
    if STOP["violations"] >= STOP_AFTER:
        return {"idx": idx, "rc": 3, "stderr": "", "fails": [], "imgdiff": [], "summary": {}, "occ": {}, "variant": None, "stale": [],
                "violation": False, "skipped": True}
    sp = os.path.join(workdir, "case_%d.txt" % idx)
    with open(sp, "w") as f:
        f.write("\n".join(case["script"]) + "\n")
    cmd = [k15, "run", case["old"][0], str(case["old"][1]), case["new"][0], str(case["new"][1]), str(case["how"]), sp, str(case["kprefix"])]
    if case.get("via"):
        cmd += ["via", case["via"][0], str(case["via"][1])]
    try:
        p = common.run(cmd, env=common.lib_env(), timeout=120)
        rc, out, err = p.returncode, p.stdout, p.stderr
    except Exception as ex:       # hang inside the library = failure of the property
        rc, out, err = -9, (getattr(ex, "stdout", None) or ""), "harness did not terminate within 120 s"
        if isinstance(out, bytes):
            out = out.decode(errors="replace")
    os.remove(sp)
    lines = out.splitlines()
    r = {"idx": idx, "rc": rc, "stderr": err[-400:], "fails": [l for l in lines if l.startswith("FAIL")][:8],
         "imgdiff": [l for l in lines if l.startswith("IMGDIFF")][:12], "summary": {}, "occ": {}, "variant": None, "stale": []}
    for l in lines:
        if l.startswith("SUMMARY"):
            r["summary"] = {t.split("=")[0]: int(t.split("=")[1]) for t in l.split()[1:] if re.match(r"^\w+=-?\d+$", t)}
        elif l.startswith("P OCC"):
            r["occ"] = {t.split("=")[0]: int(t.split("=")[1]) for t in l.split()[2:] if re.match(r"^\w+=\d+$", t)}
        elif l.startswith("IMGCMP after-init"):
            r["variant"] = re.search(r"variant=(\S+)", l).group(1)
            r["bytes"] = int(re.search(r"bytes=(\d+)", l).group(1))
        elif l.startswith("IMGCMP after-followup"):
            r["data_plane_diff"] = int(re.search(r"diff_scratch=(\d+)", l).group(1))
    r["stale"] = sorted({re.search(r"region=(\S+)", l).group(1) for l in lines if l.startswith("IMGDIFF") and "used=0" in l})
    r["violation"] = (rc not in (0, 3)) or bool(r["fails"])
    r["skipped"] = rc == 3
    if rc == -14:
        r["stderr"] = "harness killed by its own alarm: a call into the library did not return (hang)"
    if r["violation"]:
        STOP["violations"] += 1
        r["tail"] = [l[:300] for l in lines if not l.startswith(("P T", "P R", "X T", "X R"))][-30:]
    return r


def signature(r, case=None):
    """narrow signature of a violation for known_findings: new variant + first FAIL class + first differing field"""
    f = r["fails"][0] if r["fails"] else ("crash rc=%d" % r["rc"])
    cls = f.split(":")[0].replace("FAIL ", "").strip()
    fld = ""
    used = [l for l in r["imgdiff"] if "used=1" in l]
    if used:
        m = re.search(r"region=(\S+) leaf=([A-Za-z_.]+)", used[0])
        fld = "%s.%s" % (m.group(1), m.group(2))
    var = r.get("variant") or (vname(tuple(case["new"])) if case else "?")
    return "%s/%s/%s" % (var, cls.replace(" ", "-"), fld)


def cases_for(rng, pool, parks, tier, variants):
    cases = []
    reps = 1 if tier == "quick" else 16
    for rep in range(reps):
        for old in variants:
            for new in variants:
                npre = rng.below(70) if tier == "quick" else rng.below(260)
                nfol = 30 + rng.below(30) if tier == "quick" else 30 + rng.below(120)
                cases.append(make_case(rng, pool, parks, old, new, npre, nfol))
    # chains through an intermediate variant (stale state of a manager the middle variant never touches)
    nch = 6 if tier == "quick" else 120
    for _ in range(nch):
        old, via, new = rng.choice(variants), rng.choice(variants), rng.choice(variants)
        cases.append(make_case(rng, pool, parks, old, new, 20 + rng.below(60), 30 + rng.below(30), via=via))
    return cases


def main(tier, seed):
    STOP["violations"] = 0
    res = Result(PID, tier, seed, "proof")
    t0 = time.time()
    tb = common.build_lib()
    consts, info, terr = c15_gen.run_translators()
    workdir = os.path.join(common.BUILD, "c15")
    os.makedirs(workdir, exist_ok=True)
    k15 = None
    herr = None
    try:
        k15 = c15_gen.build_k15()
        c15_gen.write_reset_images(k15)
    except Exception as e:
        herr = str(e)[-1500:]
    pres = common.props_check(PID, extra_targets=["Props/Examples_C15.vo"]) if not terr else \
        {"obligations": len(common.coq_theorems("Props/Properties_C15.v")), "discharged": 0, "failed": ["translator: " + terr],
         "axioms": {}, "log": terr, "theorems": common.coq_theorems("Props/Properties_C15.v")}
    common.proof_coverage(res, pres, "make -k Props/Properties_C15.vo Props/Examples_C15.vo (coqc 8.16.1, full .vo) + Print Assumptions",
                          ["Coq 8.16.1 kernel incl. vm_compute (finite-domain lemmas over Gen/GenReset.v, Gen/GenLayout.v, Gen/GenResetImages.v)",
                           "translators/t7_reset.py, t8_layout.py (clang JSON AST + offsetof/sizeof probes built with the library's compiler; "
                           "self-tests: compiled ooo_mgr_table read back from libIPSec_MB.so, gcc vs clang layouts)",
                           "harness/k15_reinit.c + harness/imbh.c (correspondence; images of the compiled ooo_mgr_*_reset functions)",
                           "modelled, not verified: the power-up self test (a function of the scheduling state, see C20), the submit/flush code of "
                           "the out-of-order managers (C04), which managers a variant uses (member accesses in the preprocessed variant source)"])
    results, ncases = [], 0
    parks, probe_failures = {}, []
    if k15:
        pool = c15_gen.load_pool()
        parks, probe_failures = c15_gen.probe_all(k15, pool, workdir)
        variants = [v for v in VARIANTS if v in parks]
        rng = Rng(seed)
        cases = cases_for(rng, pool, parks, tier, variants)
        broken = bool(terr) or pres["discharged"] != pres["obligations"] or bool(pres["failed"]) or pres["obligations"] == 0
        if broken and tier == "quick":   # failing-input search: widen before giving up
            cases += cases_for(Rng(seed + 7919), pool, parks, "thorough", variants)[:150]
        ncases = len(cases)
        with cf.ThreadPoolExecutor(max_workers=common.NCPU) as ex:
            results = list(ex.map(run_case, [(i, c, k15, workdir) for i, c in enumerate(cases)]))
    else:
        broken = True
        cases, variants = [], []

    # ---- coverage, measured
    ran = [r for r in results if not r["skipped"]]
    occ_cov = {}
    for r, c in zip(results, cases):
        for f, n in r["occ"].items():
            occ_cov.setdefault(vname(tuple(c["old"])), {}).setdefault(f, 0)
            occ_cov[vname(tuple(c["old"]))][f] += 1
    nontrivial = sum(1 for r in ran if r["summary"].get("inflight_at_reinit", 0) >= 3 and r["summary"].get("followup_jobs", 0) >= 5)
    stale = {}
    for r in ran:
        for f in r["stale"]:
            stale.setdefault(r["variant"] or "?", set()).add(f)
    pairs = sorted({"%s->%s" % (vname(tuple(c["old"])), vname(tuple(c["new"]))) for r, c in zip(results, cases) if not r["skipped"]})
    res.coverage.update({
        "evaluations": len(ran), "distinct_nontrivial": nontrivial,
        "rule": "one evaluation = one (old variant, new variant, history, re-init point) run on the rebuilt library with checks (a)-(d); "
                "non-trivial = at least 3 jobs in flight in out-of-order managers at the re-init and at least 5 follow-up jobs compared",
        "variant_pairs": len(pairs), "variants": [vname(v) for v in variants],
        "inflight_jobs_dropped": sum(r["summary"].get("inflight_at_reinit", 0) for r in ran),
        "followup_jobs_compared": sum(r["summary"].get("followup_jobs", 0) for r in ran),
        "alone_results_compared": sum(r["summary"].get("alone_checked", 0) for r in ran),
        "managers_with_inflight_lanes_at_reinit": {v: len(d) for v, d in occ_cov.items()},
        "managers_used_per_variant": {vname(v): len({f for f in parks[v] if f and f != "immediate"}) for v in parks},
        "image_bytes_compared_per_evaluation": max([r.get("bytes", 0) for r in ran] + [0]),
        "data_plane_bytes_differing_after_followup (kernel scratch filled from caller registers; reported, not counted)":
            sum(r.get("data_plane_diff", 0) for r in ran),
        "stale_unused_managers (not state of the new variant, reported in notes)": {k: sorted(v) for k, v in stale.items()},
        "reset_images_compared_in_coq": len(info["resets"]) if info else 0,
        "samples": [{"old": c["old"], "new": c["new"], "kprefix": c["kprefix"], "first_ops": c["script"][-8:]} for c in cases[:2]],
        "traces_validated_against_impl": len(ran), "lib_build_s": round(tb, 1), "translator_error": terr, "harness_error": herr,
    })
    res.assumptions = ["the self test run by init_mb_mgr_<arch>() is a function of the scheduling state (checked: image equality after init)",
                       "managers a variant never refers to are not part of its state (stale bytes there are reported, not counted)",
                       "avx2_t3 is compiled but not reachable on this host: covered by the proof and the translators only"]

    # ---- verdicts
    known = [l for kind, l in common.known_findings(PID) if kind == "known"]
    reported = 0
    seen_sig = set()
    for r, c in zip(results, cases):
        if not r["violation"]:
            continue
        sig = signature(r, c)
        k = [l for l in known if ("key=%s " % sig) in l + " "]
        if k:
            if sig not in seen_sig:
                res.known.append(k[0].split(" ", 2)[-1])
            seen_sig.add(sig)
            continue
        if sig in seen_sig or reported >= 4:
            continue
        seen_sig.add(sig)
        res.violation({"property": PID, "kind": "re-initialised manager differs from a fresh one", "signature": sig, "case": c,
                       "fails": r["fails"], "imgdiff": r["imgdiff"], "summary": r["summary"], "rc": r["rc"], "stderr": r["stderr"],
                       "tail": r.get("tail"), "seed": seed}, note="key=%s" % sig, name="reinit_%d" % r["idx"])
        reported += 1
    for v, msg in probe_failures:
        res.violation({"property": PID, "kind": "a freshly allocated manager cannot be initialised / used", "variant": list(v), "detail": msg,
                       "seed": seed}, note="key=%s/init" % vname(v), name="init_%s_%d" % v)
        reported += 1
    for f in pres["failed"]:
        log("proof obligation failed:", f)
    if broken and reported == 0 and not res.known:
        what = {"property": PID, "seed": seed, "broken_obligations": pres["failed"], "translator_error": terr, "harness_error": herr,
                "proof_log_tail": pres["log"][-3000:], "cases_searched": ncases,
                "note": "the model of init/reset (Mgr/Reset.v over Gen/GenReset.v) or a theorem of Props/Properties_C15.v no longer "
                        "checks against this tree; no history on which a re-initialised manager differs from a fresh one was found"}
        res.violation(what, note="no-failing-input-found", name="unproved")
    log("C15: %d cases, %d ran, %d violations, %.1fs" % (ncases, len(ran), len(res.violations), time.time() - t0))
    return res.finish()


def replay(path):
    rp = json.load(open(path))
    common.build_lib()
    consts, info, terr = c15_gen.run_translators()
    if terr:
        print("translator error:", terr)
    k15 = c15_gen.build_k15()
    workdir = os.path.join(common.BUILD, "c15")
    os.makedirs(workdir, exist_ok=True)
    if "case" not in rp:
        print(json.dumps({k: rp.get(k) for k in ("broken_obligations", "translator_error", "note")}, indent=1))
        pres = common.props_check(PID)
        return 0 if (not terr and pres["discharged"] == pres["obligations"] and not pres["failed"]) else 1
    r = run_case((0, rp["case"], k15, workdir))
    print(json.dumps({k: r[k] for k in ("rc", "fails", "imgdiff", "summary", "stale")}, indent=1))
    return 1 if r["violation"] else 0
