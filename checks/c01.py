"""C01 — cipher output equals the published algorithm for every valid input.

Proof side: Props/Properties_C01.v when it exists (common.props_check); until then the obligations are the
known-answer Examples of the cipher Spec test files (FIPS-197 / SP 800-38A / FIPS 46-3 / RFC 8439 / 3GPP / GB/T).
Tie: K1 (checks/k1.py) — the extracted Coq job model (coq/Struct/JobSem.v) against the rebuilt library on every
variant x entry point x {one job, many different jobs in flight}.  Streams: every cipher mode x key size x direction:
dense length sweeps, boundary lengths (> 4 KiB, 65519..65534 in the thorough tier), counter-carry IVs, bit lengths
and bit offsets, source offsets / alignments, key classes, cipher+hash chains where the cipher output matters.
Failing-input search: model != library IS the property failing; class a/b triage, delta-minimised replay."""
from . import k1

PID = "C01"


def main(tier, seed):
    return k1.run_check(PID, tier, seed, k1.gen_c01, test_files=k1.TESTS_C01)


def replay(path):
    return k1.replay(PID, path)
