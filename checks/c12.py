"""C12 -- invalid jobs rejected untouched with the right error; valid ones accepted.

Level "proof": the generated image of is_job_invalid() (T2) is proved equivalent to the hand-written
declarative catalogue of documented constraints for ALL jobs (coq/Proofs/ValidateProofs.v,
coq/Props/Properties_C12.v), and tied to the real library by
  (a) translator validation: extracted model vs the REAL is_job_invalid() compiled from the /repo
      header, on generated descriptors (structured cells x single-field mutations, sampled pairs,
      raw random stream);
  (b) behaviour through the public API (job API + async burst API + the SYNCHRONOUS cipher / hash / AEAD
      burst API incl. the _NOCHECK entry points) on every reachable manager: status, errno, caller
      buffers and descriptor untouched, neighbouring valid jobs unaffected; for the synchronous bursts the
      verdict and errno must equal the extracted validation image on the view the burst function
      validates (see "synchronous burst API" below);
  (m) misuse of the burst calls;  (d) direct-API NULL / over-limit table (forked children).
The property oracle everywhere is the CATALOGUE (documentation), not the code.

main(tier, seed) / replay(path) follow DESIGN.md section 1.1.
"""
import json, os, sys, time, subprocess, collections, concurrent.futures, re
from . import common
from .common import log

# =====================================================================================
# case generator
#   A case is a job_view line (see ocaml/validate_driver.ml) plus a tag (cell, mutated field, value).
#   Pointers are real addresses inside the arena that harness/k12_validate.c maps at ARENA_BASE, so
#   one and the same line drives the OCaml model, the real is_job_invalid() and the API check.
# =====================================================================================
ARENA_BASE = 0x100000000000
ARENA_SIZE = 0x100000
FN_TOKEN = ARENA_BASE + 0xFF000
U64 = (1 << 64) - 1

# arena layout (offsets): every pointer field gets its own region, sized for the largest valid job
REG = {
    "enc_keys": 0x01000, "dec_keys": 0x03000, "iv": 0x05000, "tag": 0x05800, "u0": 0x06000, "u1": 0x08000,
    "u2": 0x0A000, "next_iv": 0x0C000, "ks": 0x0D000, "segs": 0x0F000, "segbuf": 0x10000,
    "src": 0x40000, "dst": 0x60000,
}
# src region: 0x40000..0x5FFFF (128 KiB), dst region: 0x60000..0x7FFFF; 0x80000.. spare (guard for overruns)


def P(name, off=0):
    return ARENA_BASE + REG[name] + off


F = ["enc_keys", "dec_keys", "key_len", "src", "dst", "cipher_off", "cipher_len", "hash_off", "hash_len", "iv",
     "iv_len", "tag", "tag_len", "u0", "u1", "u2", "cipher_mode", "dir", "hash_alg", "chain_order", "cipher_func",
     "hash_func", "sgl_state", "next_iv", "enc_ks0", "enc_ks1", "enc_ks2", "dec_ks0", "dec_ks1", "dec_ks2", "xgem"]
IDX = {n: i for i, n in enumerate(F)}
POINTER_FIELDS = ["enc_keys", "dec_keys", "src", "dst", "iv", "tag", "u0", "u1", "u2", "cipher_func", "hash_func",
                  "next_iv", "enc_ks0", "enc_ks1", "enc_ks2", "dec_ks0", "dec_ks1", "dec_ks2"]

ENC, DEC = 1, 2
CIPHER_HASH, HASH_CIPHER = 1, 2

# cipher templates: mode -> dict(keys=[...], iv_len, len, extra)
CIPHERS = {
    1: dict(name="CBC", keys=[16, 24, 32], iv_len=16, len=64),
    2: dict(name="CNTR", keys=[16, 24, 32], iv_len=16, len=61),
    3: dict(name="NULL", keys=[16], iv_len=0, len=0),
    4: dict(name="DOCSIS_SEC_BPI", keys=[16, 32], iv_len=16, len=61),
    5: dict(name="GCM", keys=[16, 24, 32], iv_len=12, len=61, hash=9),
    6: dict(name="CUSTOM", keys=[16], iv_len=16, len=64),
    7: dict(name="DES", keys=[8], iv_len=8, len=64),
    8: dict(name="DOCSIS_DES", keys=[8], iv_len=8, len=61),
    9: dict(name="CCM", keys=[16, 32], iv_len=13, len=61, hash=11),
    10: dict(name="DES3", keys=[24], iv_len=8, len=64),
    11: dict(name="PON_AES_CNTR", keys=[16], iv_len=16, len=16, hash=19),
    12: dict(name="ECB", keys=[16, 24, 32], iv_len=0, len=64),
    13: dict(name="CNTR_BITLEN", keys=[16, 24, 32], iv_len=16, len=488),
    14: dict(name="ZUC_EEA3", keys=[16, 32], iv_len=16, len=61),
    15: dict(name="SNOW3G_UEA2_BITLEN", keys=[16], iv_len=16, len=488),
    16: dict(name="KASUMI_UEA1_BITLEN", keys=[16], iv_len=8, len=488),
    17: dict(name="CBCS_1_9", keys=[16], iv_len=16, len=160),
    18: dict(name="CHACHA20", keys=[32], iv_len=12, len=61),
    19: dict(name="CHACHA20_POLY1305", keys=[32], iv_len=12, len=61, hash=29),
    20: dict(name="CHACHA20_POLY1305_SGL", keys=[32], iv_len=12, len=61, hash=30, sgl=True),
    21: dict(name="SNOW_V", keys=[32], iv_len=16, len=61),
    22: dict(name="SNOW_V_AEAD", keys=[32], iv_len=16, len=61, hash=32),
    23: dict(name="GCM_SGL", keys=[16, 24, 32], iv_len=12, len=61, hash=33, sgl=True),
    24: dict(name="SM4_ECB", keys=[16], iv_len=0, len=64),
    25: dict(name="SM4_CBC", keys=[16], iv_len=16, len=64),
    26: dict(name="CFB", keys=[16, 24, 32], iv_len=16, len=64),
    27: dict(name="SM4_CNTR", keys=[16], iv_len=16, len=61),
    28: dict(name="SM4_GCM", keys=[16], iv_len=12, len=61, hash=49),
}
# hash templates: alg -> dict(tag_len, len, u=(u0,u1,u2) as 'p' pointer / int, cipher=required cipher)
HASHES = {
    1: dict(name="HMAC_SHA_1", tag=12, len=61, u="pp0"), 2: dict(name="HMAC_SHA_224", tag=14, len=61, u="pp0"),
    3: dict(name="HMAC_SHA_256", tag=16, len=61, u="pp0"), 4: dict(name="HMAC_SHA_384", tag=24, len=61, u="pp0"),
    5: dict(name="HMAC_SHA_512", tag=32, len=61, u="pp0"), 6: dict(name="AES_XCBC", tag=12, len=61, u="ppp"),
    7: dict(name="MD5", tag=12, len=61, u="pp0"), 8: dict(name="NULL", tag=0, len=0, u="000"),
    9: dict(name="AES_GMAC", tag=16, len=61, u="pA0", cipher=5), 10: dict(name="CUSTOM", tag=0, len=0, u="000"),
    11: dict(name="AES_CCM", tag=8, len=61, u="pA0", cipher=9), 12: dict(name="AES_CMAC", tag=16, len=61, u="ppp"),
    13: dict(name="SHA_1", tag=20, len=61, u="000"), 14: dict(name="SHA_224", tag=28, len=61, u="000"),
    15: dict(name="SHA_256", tag=32, len=61, u="000"), 16: dict(name="SHA_384", tag=48, len=61, u="000"),
    17: dict(name="SHA_512", tag=64, len=61, u="000"), 18: dict(name="AES_CMAC_BITLEN", tag=4, len=488, u="ppp"),
    19: dict(name="PON_CRC_BIP", tag=8, len=24, u="000", cipher=11), 20: dict(name="ZUC_EIA3_BITLEN", tag=4, len=488, u="pp0"),
    21: dict(name="DOCSIS_CRC32", tag=4, len=80, u="000", cipher=4), 22: dict(name="SNOW3G_UIA2_BITLEN", tag=4, len=488, u="pp0"),
    23: dict(name="KASUMI_UIA1", tag=4, len=61, u="p00"), 24: dict(name="AES_GMAC_128", tag=16, len=61, u="ppI"),
    25: dict(name="AES_GMAC_192", tag=16, len=61, u="ppI"), 26: dict(name="AES_GMAC_256", tag=16, len=61, u="ppI"),
    27: dict(name="AES_CMAC_256", tag=16, len=61, u="ppp"), 28: dict(name="POLY1305", tag=16, len=61, u="p00"),
    29: dict(name="CHACHA20_POLY1305", tag=16, len=61, u="pA0", cipher=19),
    30: dict(name="CHACHA20_POLY1305_SGL", tag=16, len=61, u="pAp", cipher=20),
    31: dict(name="ZUC256_EIA3_BITLEN", tag=4, len=488, u="ppp"), 32: dict(name="SNOW_V_AEAD", tag=16, len=61, u="pA0", cipher=22),
    33: dict(name="GCM_SGL", tag=16, len=61, u="pAp", cipher=23),
    46: dict(name="GHASH", tag=16, len=61, u="pp0"), 47: dict(name="SM3", tag=32, len=61, u="000"),
    48: dict(name="HMAC_SM3", tag=32, len=61, u="pp0"), 49: dict(name="SM4_GCM", tag=16, len=61, u="pA0", cipher=28),
}
for _h, _n in zip(range(34, 46), ["CRC32_ETHERNET_FCS", "CRC32_SCTP", "CRC32_WIMAX_OFDMA_DATA", "CRC24_LTE_A", "CRC24_LTE_B",
                                  "CRC16_X25", "CRC16_FP_DATA", "CRC11_FP_HEADER", "CRC10_IUUP_DATA",
                                  "CRC8_WIMAX_OFDMA_HCS", "CRC7_FP_HEADER", "CRC6_IUUP_HEADER"]):
    HASHES[_h] = dict(name=_n, tag=4, len=61, u="000")

AAD_LEN = 12


def xgem_word(pli, rest=0x123456789ABC):
    """little-endian load of an 8-byte big-endian XGEM header whose 14 MS bits are the PLI"""
    be = ((pli & 0x3FFF) << 50) | (rest & ((1 << 50) - 1))
    return int.from_bytes(be.to_bytes(8, "big"), "little")


def baseline(cm, key, d, ha, order, sgl_state=None):
    """A job_view (list of 31 ints + segs list) intended to satisfy every documented constraint of
    the cell; the catalogue model decides whether it really does."""
    c, h = CIPHERS[cm], HASHES[ha]
    f = [0] * 31
    segs = []
    f[IDX["enc_keys"]], f[IDX["dec_keys"]] = P("enc_keys"), P("dec_keys")
    f[IDX["key_len"]] = key
    f[IDX["src"]], f[IDX["dst"]] = P("src"), P("dst")
    f[IDX["cipher_off"]], f[IDX["hash_off"]] = 0, 0
    f[IDX["cipher_len"]], f[IDX["hash_len"]] = c["len"], h["len"]
    f[IDX["iv"]] = P("iv")
    f[IDX["iv_len"]] = c["iv_len"]
    if cm == 14 and key == 32:
        f[IDX["iv_len"]] = 25
    f[IDX["tag"]], f[IDX["tag_len"]] = P("tag"), h["tag"]
    for k, ch in enumerate(h["u"]):
        f[IDX["u%d" % k]] = {"p": P("u%d" % k), "0": 0, "A": AAD_LEN, "I": 12}[ch]
    f[IDX["cipher_mode"]], f[IDX["dir"]], f[IDX["hash_alg"]], f[IDX["chain_order"]] = cm, d, ha, order
    f[IDX["cipher_func"]] = FN_TOKEN if cm == 6 else 0
    f[IDX["hash_func"]] = FN_TOKEN if ha == 10 else 0
    f[IDX["sgl_state"]] = 0
    f[IDX["next_iv"]] = P("next_iv")
    for k in range(3):
        f[IDX["enc_ks%d" % k]] = P("ks", 0x200 * k)
        f[IDX["dec_ks%d" % k]] = P("ks", 0x200 * (k + 3))
    f[IDX["xgem"]] = xgem_word(12)
    if cm == 9:      # CCM: one message
        f[IDX["hash_len"]] = f[IDX["cipher_len"]]
    if cm == 11:     # PON: 8-byte XGEM header then ciphered payload, in place
        f[IDX["cipher_off"]] = 8
        f[IDX["dst"]] = f[IDX["src"]] + 8
        f[IDX["hash_len"]] = f[IDX["cipher_len"]] + 8
    if ha == 21:     # DOCSIS CRC32: Ethernet frame, cipher starts after DA+SA, in place
        f[IDX["cipher_off"]] = 12
        f[IDX["cipher_len"]] = 61
        f[IDX["hash_len"]] = 80
        f[IDX["dst"]] = f[IDX["src"]] + 12
        f[IDX["chain_order"]] = HASH_CIPHER if d == ENC else CIPHER_HASH
    if c.get("sgl"):
        st = 1 if sgl_state is None else sgl_state
        f[IDX["sgl_state"]] = st
        if st == 3:
            f[IDX["src"]] = P("segs")
            lens = [16, 0, 45]
            f[IDX["dst"]] = len(lens)
            segs = [(P("segbuf", 0x1000 * i), P("segbuf", 0x8000 + 0x1000 * i), ln) for i, ln in enumerate(lens)]
    return f, segs


def line_of(f, segs):
    return " ".join(map(str, list(f) + [len(segs)] + [x for s in segs for x in s]))


LEN_VALUES = [0, 1, 2, 3, 4, 5, 7, 8, 9, 11, 12, 13, 15, 16, 17, 20, 24, 31, 32, 33, 60, 61, 64, 65, 100, 2500, 2501, 8188, 8189,
              16380, 16384, 16385, 16388, 16392, 16393, 16396, 20000, 20001, 65504, 65505, 65520, 65528, 65534, 65535, 65536,
              65552, 524272, 524273, (1 << 32) - 1, 1 << 32, (1 << 32) + 16, (1 << 36) - 33, (1 << 36) - 32, (1 << 38) - 64,
              (1 << 38) - 63, (1 << 60) - 16, (1 << 60) - 1, 1 << 60, (1 << 63), U64 - 15, U64 - 7, U64 - 3, U64]
NUMERIC = {
    "key_len": [0, 1, 7, 8, 9, 15, 16, 17, 23, 24, 25, 31, 32, 33, 64, (1 << 32) + 8, (1 << 32) + 16, (1 << 32) + 24, (1 << 32) + 32, U64],
    "cipher_len": LEN_VALUES, "hash_len": LEN_VALUES,
    "cipher_off": [0, 1, 4, 8, 11, 12, 13, 16, 24, U64 - 11, U64],
    "hash_off": [0, 1, 4, 8, 12, 13, 16, U64 - 11, U64 - 12, U64],
    "iv_len": [0, 1, 6, 7, 8, 9, 11, 12, 13, 14, 15, 16, 17, 22, 23, 24, 25, 26, 32, (1 << 32) + 16, U64],
    "tag_len": [0, 1, 2, 3, 4, 5, 6, 7, 8, 9, 10, 11, 12, 13, 14, 15, 16, 17, 19, 20, 21, 24, 28, 31, 32, 33, 47, 48, 49, 63, 64, 65, (1 << 32) + 16],
    "cipher_mode": list(range(0, 33)) + [1 << 31, (1 << 32) - 1],
    "hash_alg": list(range(0, 54)) + [1 << 31, (1 << 32) - 1],
    "dir": [0, 1, 2, 3, (1 << 32) - 1], "chain_order": [0, 1, 2, 3], "sgl_state": [0, 1, 2, 3, 4, 5, (1 << 32) - 1],
}
U_NUMERIC = [0, 1, 12, 45, 46, 47, 48, 1 << 32, U64]   # aad_len / GMAC iv_len living in u1 / u2
PLI_VALUES = [0, 1, 3, 4, 5, 8, 12, 15, 16, 17, 20, 100, 16380, 16383]


def mutations(f, segs):
    """Every single-field mutation of a baseline: yields (field, label, f', segs')."""
    for name in POINTER_FIELDS:
        i = IDX[name]
        if f[i] != 0:
            g = list(f)
            g[i] = 0
            yield name, "NULL", g, segs
    for name, vals in NUMERIC.items():
        i = IDX[name]
        v0 = f[i]
        cand = list(vals)
        if name in ("cipher_len", "hash_len"):
            cand += [max(v0 - 16, 0), v0 - 1 if v0 else 0, v0 + 1, v0 + 3, v0 + 4, v0 + 8, v0 + 16]
        for v in dict.fromkeys(cand):
            if v != v0 and 0 <= v <= U64:
                g = list(f)
                g[i] = v
                yield name, str(v), g, segs
    for name in ("u1", "u2"):
        i = IDX[name]
        if f[i] < ARENA_BASE:      # numeric use of the union word in this cell
            for v in U_NUMERIC:
                if v != f[i]:
                    g = list(f)
                    g[i] = v
                    yield name, str(v), g, segs
    if f[IDX["cipher_mode"]] == 11:
        for pli in PLI_VALUES:
            g = list(f)
            g[IDX["xgem"]] = xgem_word(pli)
            yield "xgem", "pli=%d" % pli, g, segs
        g = list(f)
        g[IDX["dst"]] = f[IDX["src"]]
        yield "dst", "dst=src", g, segs
        g = list(f)
        g[IDX["dst"]] = f[IDX["dst"]] + 1
        yield "dst", "dst+1", g, segs
    if segs:
        big = (1 << 36) - 32
        variants = {
            "seg.in=NULL": [(0, o, l) if k == 0 else (a, o, l) for k, (a, o, l) in enumerate(segs)],
            "seg.out=NULL": [(a, 0, l) if k == 0 else (a, o, l) for k, (a, o, l) in enumerate(segs)],
            "emptyseg.in=NULL": [(0, o, l) if l == 0 else (a, o, l) for (a, o, l) in segs],
            "emptyseg.out=NULL": [(a, 0, l) if l == 0 else (a, o, l) for (a, o, l) in segs],
            "total=max": [(a, o, big - 1 - 45 - (0 if k else 0)) if k == 0 else (a, o, l) for k, (a, o, l) in enumerate(segs)],
            "total=max+1": [(a, o, big - 45) if k == 0 else (a, o, l) for k, (a, o, l) in enumerate(segs)],
            "total=chacha-max": [(a, o, (1 << 38) - 64 - 45) if k == 0 else (a, o, l) for k, (a, o, l) in enumerate(segs)],
            "total=chacha-max+1": [(a, o, (1 << 38) - 63 - 45) if k == 0 else (a, o, l) for k, (a, o, l) in enumerate(segs)],
            "total-wraps": [(a, o, 1 << 63) if k != 1 else (a, o, l) for k, (a, o, l) in enumerate(segs)],
        }
        for lab, s2 in variants.items():
            yield "segs", lab, list(f), s2
        g = list(f)
        g[IDX["dst"]] = 0
        yield "dst", "nsegs=0", g, []
        g = list(f)
        g[IDX["dst"]] = 1
        yield "dst", "nsegs=1", g, segs[:1]


def cells(full):
    """(cm, key, dir, ha, order[, sgl_state]) cells.  full=False: a stratified subset."""
    out = []
    plain_ciphers = [cm for cm, c in CIPHERS.items() if "hash" not in c]
    plain_hashes = [ha for ha, h in HASHES.items() if "cipher" not in h]
    for cm, c in CIPHERS.items():
        for key in c["keys"]:
            for d in (ENC, DEC):
                if "hash" in c:
                    states = [0, 1, 2, 3] if c.get("sgl") else [None]
                    for st in states:
                        for order in (CIPHER_HASH, HASH_CIPHER):
                            out.append((cm, key, d, c["hash"], order, st))
                    continue
                hs = plain_hashes + ([21] if cm == 4 else [])
                for ha in hs:
                    for order in (CIPHER_HASH, HASH_CIPHER):
                        if not full:
                            # stratified: every cipher with NULL/HMAC-SHA1/one rotating hash, every hash with NULL/CBC-128
                            keep = ha in (8, 1) or (cm in (3, 1) and key == 16) or ha == 21 or \
                                (ha == plain_hashes[(cm * 7 + key + d) % len(plain_hashes)])
                            if not keep or (order == HASH_CIPHER and ha not in (21, 1)):
                                continue
                        out.append((cm, key, d, ha, order, None))
    return out


def cell_name(cell):
    cm, key, d, ha, order, st = cell
    s = "%s-%d/%s/%s/%s" % (CIPHERS[cm]["name"], key * 8, "ENC" if d == ENC else "DEC", HASHES[ha]["name"],
                            "CH" if order == CIPHER_HASH else "HC")
    return s + ("" if st is None else "/sgl%d" % st)


def random_view(rng):
    """Raw random stream: independent random choices per field from boundary pools (mostly invalid)."""
    f = [0] * 31
    pick = lambda l: l[rng.below(len(l))]
    for name in POINTER_FIELDS:
        reg = {"enc_keys": "enc_keys", "dec_keys": "dec_keys", "src": "src", "dst": "dst", "iv": "iv", "tag": "tag",
               "u0": "u0", "u1": "u1", "u2": "u2", "next_iv": "next_iv"}.get(name, "ks")
        f[IDX[name]] = 0 if rng.below(8) == 0 else P(reg, 0x100 * (IDX[name] % 7) if reg == "ks" else 0)
    f[IDX["cipher_func"]] = 0 if rng.below(3) == 0 else FN_TOKEN
    f[IDX["hash_func"]] = 0 if rng.below(3) == 0 else FN_TOKEN
    cm = pick(list(CIPHERS) * 4 + [0, 29, 30, 31])
    ha = pick(list(HASHES) * 4 + [0, 50, 51])
    if "hash" in CIPHERS.get(cm, {}) and rng.below(4) != 0:
        ha = CIPHERS[cm]["hash"]
    if cm == 4 and rng.below(3) == 0:
        ha = 21
    f[IDX["cipher_mode"]], f[IDX["hash_alg"]] = cm, ha
    f[IDX["dir"]] = pick([1, 1, 1, 2, 2, 2, 0, 3])
    f[IDX["chain_order"]] = pick([1, 2, 1, 2, 0, 3])
    f[IDX["sgl_state"]] = pick([0, 1, 2, 3, 3, 4])
    f[IDX["key_len"]] = pick([8, 16, 16, 16, 24, 32, 32, 0, 33, (1 << 32) + 16])
    f[IDX["cipher_len"]] = pick(LEN_VALUES + [16, 64, 64, 61, 160, 488] * 6)
    f[IDX["hash_len"]] = pick(LEN_VALUES + [61, 64, 24, 80, 488] * 6)
    f[IDX["cipher_off"]] = pick([0, 0, 0, 8, 12, 16, U64])
    f[IDX["hash_off"]] = pick([0, 0, 0, 4, 8])
    f[IDX["iv_len"]] = pick(NUMERIC["iv_len"] + [16, 12, 8] * 5)
    f[IDX["tag_len"]] = pick(NUMERIC["tag_len"] + [4, 8, 12, 16] * 4)
    if rng.below(3):
        f[IDX["u1"]] = pick([P("u1")] * 3 + U_NUMERIC)
        f[IDX["u2"]] = pick([P("u2")] * 3 + U_NUMERIC)
    f[IDX["xgem"]] = xgem_word(pick(PLI_VALUES))
    segs = []
    if cm == 11:
        if f[IDX["cipher_off"]] > 64:
            f[IDX["cipher_off"]] = 8
        if f[IDX["src"]] and rng.below(5):
            f[IDX["dst"]] = (f[IDX["src"]] + f[IDX["cipher_off"]]) & U64
    if cm in (20, 23) and f[IDX["sgl_state"]] == 3:
        n = pick([0, 1, 2, 3, 5])
        f[IDX["src"]] = 0 if rng.below(10) == 0 else P("segs")
        f[IDX["dst"]] = n
        for i in range(n):
            ln = pick([0, 1, 16, 45, 100, (1 << 36) - 32, 1 << 35, 1 << 63, (1 << 38) - 64, 1 << 37])
            segs.append((0 if rng.below(9) == 0 else P("segbuf", 0x1000 * i), 0 if rng.below(9) == 0 else P("segbuf", 0x8000 + 0x1000 * i), ln))
    return f, segs


# =====================================================================================
# orchestration
# =====================================================================================
PID = "C12"
WORK = os.path.join(common.BUILD, "c12")
DRIVER = os.path.join(common.BUILD, "bin", "validate_driver")


def _rebind_paths():
    """common.BUILD can be redirected (mutation trials run on a scratch tree)."""
    global WORK, DRIVER
    WORK = os.path.join(common.BUILD, "c12")
    DRIVER = os.path.join(common.BUILD, "bin", "validate_driver")
HARNESS_FLAGS = ["-O2", "-DSAFE_PARAM", "-DSAFE_DATA", "-DSAFE_LOOKUP", "-fno-delete-null-pointer-checks", "-fwrapv",
                 "-fno-strict-overflow"]   # the flags the library itself compiles the checker with
STATUS_COMPLETED, STATUS_INVALID_ARGS = 3, 4
TRUSTED = [
    "Coq 8.16.1 kernel + coqc; OCaml extraction (ExtrOcamlBasic) and ocamlopt",
    "T1 translators/t1_enums.py (clang JSON AST cross-checked with compiled C, gcc and clang)",
    "T2 translators/t2_validate.py (clang JSON AST of 3 library TUs -> Gen/GenValidate.v); validated by tie (a)",
    "hand-written catalogue coq/Mgr/Validate.v is the reading of the documentation (sources cited per rule)",
    "job_view abstraction (coq/Mgr/JobView.v): descriptor slots + 3DES key pointers + XGEM word + SGL array",
    "harness/k12_validate.c, gcc, the host CPU (SSE/AVX2/AVX512 managers)",
    "synchronous burst API: checks/c12.py sync_view() = hand-read table of the arguments each submit_*_burst function of "
    "lib/include/mb_mgr_burst.h passes to is_job_invalid() (not translated; a wrong argument shows up as a verdict difference)",
]
DISC_KEYS = {   # discrepancy class -> (finding key, text)
    "D1": ("C12-D1-chacha20-poly1305-pairing", "cipher CHACHA20_POLY1305(_SGL) accepted with a hash other than its AEAD hash (README Table 3); job is processed"),
    "D2": ("C12-D2-key-len-truncated-to-32-bits", "key_len_in_bytes >= 2^32 is truncated to 32 bits before validation; unsupported key length accepted"),
    "D3": ("C12-D3-sgl-total-length-wraps", "SGL total length is summed modulo 2^64; over-limit total accepted"),
    "D4": ("C12-D4-cbcs-192-256-key", "CBCS_1_9 documented as AES-128 only; 24/32-byte keys accepted and processed as AES-128"),
    "D6": ("C12-D6-sm4-ecb-cbc-key-len-unchecked", "SM4-ECB/CBC key length not validated on job submission; unsupported key length accepted"),
    "D8": ("C12-D8-docsis-offset-sum-wraps", "DOCSIS CRC32 hash offset + 12 computed modulo 2^64; out-of-order offsets accepted"),
    "E2": ("C12-E2-zuc-errno-with-truncated-key", "ZUC-EEA3 with key_len >= 2^32: rejected with IV_LEN although the violated constraint is the key length"),
}


def sh(cmd, **kw):
    return common.run(cmd, **kw)


def ocaml_dir():
    return os.path.join(os.path.dirname(common.COQDIR), "ocaml")   # where Extract/ExtractValidate.v writes ("../ocaml")


def run_translators():
    """T1 then T2.  Returns (ok, messages)."""
    msgs, ok = [], True
    env = {"IMB_REPO": common.REPO, "IMB_COQ_DIR": common.COQDIR, "IMB_LIB_BUILD_DIR": common.LIBDIR}
    for t in ("t1_enums.py", "t2_validate.py"):
        p = sh([sys.executable, os.path.join(common.VERIF, "translators", t)], timeout=600, env=env)
        msgs.append((p.stdout + p.stderr).strip()[-2000:])
        if p.returncode != 0:
            ok = False
            break
    return ok, msgs


def build_model():
    """Extraction + driver.  Returns (ok, message)."""
    okc, out = common.coq_make(["Extract/ExtractValidate.vo"], timeout=900)
    ml = os.path.join(ocaml_dir(), "validate_model.ml")
    if not os.path.exists(ml):
        return False, "extraction did not produce ocaml/validate_model.ml\n" + out[-3000:]
    os.makedirs(os.path.dirname(DRIVER), exist_ok=True)
    # the extracted model sits next to the Coq directory in use (a private copy for scratch trees); the driver is ours
    srcs = [os.path.join(ocaml_dir(), f) for f in ("validate_model.mli", "validate_model.ml")] + \
           [os.path.join(common.VERIF, "ocaml", "validate_driver.ml")]
    if os.path.exists(DRIVER) and os.path.getmtime(DRIVER) > max(os.path.getmtime(s) for s in srcs):
        return okc, "driver up to date"
    bdir = os.path.join(WORK, "ocaml")
    os.makedirs(bdir, exist_ok=True)
    for s in srcs:
        sh(["cp", s, bdir], check=True)
    p = sh(["ocamlfind", "ocamlopt", "-O3", "-w", "-a", "validate_model.mli", "validate_model.ml", "validate_driver.ml",
            "-o", DRIVER], cwd=bdir, timeout=600)
    if p.returncode != 0:
        return False, "driver build failed: " + p.stderr[-2000:]
    return okc, "driver rebuilt" if okc else "extraction target reported errors (using existing extraction)\n" + out[-1500:]


HNAME = "k12_validate"


def build_harness():
    exe = os.path.join(common.BUILD, "bin", HNAME)
    deps = [os.path.join(common.HARNESS, HNAME + ".c"), os.path.join(common.REPO, "lib", "include", "mb_mgr_job_check.h"),
            os.path.join(common.REPO, "lib", "intel-ipsec-mb.h"), os.path.join(common.LIBSO_DIR, "libIPSec_MB.so")]
    from . import c12_direct_extra
    inc, nextra = c12_direct_extra.generate()
    deps.append(inc)
    if os.path.exists(exe) and os.path.getmtime(exe) > max(os.path.getmtime(d) for d in deps if os.path.exists(d)):
        return exe
    if os.path.exists(exe):
        os.remove(exe)
    return common.build_harness(HNAME, extra_flags=HARNESS_FLAGS + ["-DK12_EXTRA", "-I", os.path.dirname(inc)])


def shard_run(cmd_for, files, workers):
    """Run one process per shard file; returns list of stdout line lists (in shard order)."""
    def one(f):
        p = subprocess.run(cmd_for(f), stdout=subprocess.PIPE, stderr=subprocess.PIPE, text=True,
                           env=dict(os.environ, **common.lib_env()))
        return p.returncode, p.stdout.splitlines(), p.stderr[-2000:]
    with concurrent.futures.ThreadPoolExecutor(max_workers=workers) as ex:
        return list(ex.map(one, files))


def write_shards(lines, prefix, nshards):
    os.makedirs(WORK, exist_ok=True)
    n = max(1, min(nshards, (len(lines) + 999) // 1000))
    per = (len(lines) + n - 1) // n
    files = []
    for k in range(n):
        f = os.path.join(WORK, "%s.%02d.txt" % (prefix, k))
        with open(f, "w") as fo:
            chunk = lines[k * per:(k + 1) * per]
            fo.write("\n".join(chunk) + ("\n" if chunk else ""))
        files.append(f)
    return files


def run_model(lines, prefix="cases"):
    files = write_shards(lines, prefix, common.NCPU)
    res = shard_run(lambda f: ["sh", "-c", "%s < %s" % (DRIVER, f)], files, common.NCPU)
    out = []
    for rc, o, e in res:
        if rc != 0:
            raise RuntimeError("model driver failed: " + e)
        out.extend(o)
    if len(out) != len(lines):
        raise RuntimeError("model driver returned %d lines for %d cases" % (len(out), len(lines)))
    parsed = []
    for l in out:
        code, cat, wf, disc = [x.strip() for x in l.split("|")]
        parsed.append((code, cat, wf == "wf", [] if disc == "-" else disc.split(",")))
    return parsed, files


def run_light(exe, files, nlines):
    """is_job_invalid_light(): extracted image vs the real function (as called by imb_set_session)."""
    m = shard_run(lambda f: ["sh", "-c", "%s light < %s" % (DRIVER, f)], files, common.NCPU)
    r = shard_run(lambda f: [exe, "l", f], files, common.NCPU)
    mo = [l.split("|")[0].strip() for rc, o, e in m for l in o]
    ro = [l for rc, o, e in r for l in o]
    if len(mo) != nlines or len(ro) != nlines:
        raise RuntimeError("light tie: %d / %d lines for %d cases" % (len(mo), len(ro), nlines))
    return sum(1 for a, b in zip(mo, ro) if b != "skip" and a != b), sum(1 for b in ro if b.startswith("reject"))


def run_suite_ids(exe, files, nlines):
    """suite id (cipher/hash dispatch-table indices): translated set_cipher_suite_id vs the library's set_suite_id."""
    m = shard_run(lambda f: ["sh", "-c", "%s suite < %s" % (DRIVER, f)], files, common.NCPU)
    r = shard_run(lambda f: [exe, "i", f], files, common.NCPU)
    mo = [l.strip() for rc, o, e in m for l in o]
    ro = [l.strip() for rc, o, e in r for l in o]
    if len(mo) != nlines or len(ro) != nlines:
        raise RuntimeError("suite-id tie: %d / %d lines for %d cases" % (len(mo), len(ro), nlines))
    return sum(1 for a, b in zip(mo, ro) if a != b), len(set(ro))


def run_real_a(exe, files, nlines):
    res = shard_run(lambda f: [exe, "a", f], files, common.NCPU)
    out = []
    for rc, o, e in res:
        if rc != 0:
            raise RuntimeError("harness (a) failed rc=%d: %s" % (rc, e))
        out.extend(o)
    if len(out) != nlines:
        raise RuntimeError("harness (a) returned %d lines for %d cases" % (len(out), nlines))
    return out


def run_real_b(exe, lines, prefix="b", sel=None):
    """sel: optional selector string, one character per line ('0' job + async burst, '1' + synchronous burst,
    '2' / '3' synchronous burst only, on a rotating pair of managers / on all); sharded exactly like the lines."""
    files = write_shards(lines, prefix, common.NCPU)
    if sel is not None:
        assert len(sel) == len(lines)
        base = 0
        for f in files:
            n = sum(1 for _ in open(f))
            open(f[:-4] + ".sel", "w").write(sel[base:base + n] + "\n")
            base += n
    res = shard_run(lambda f: [exe, "b", f] + ([f[:-4] + ".sel"] if sel is not None else []), files, common.NCPU)
    recs, base, mgrs = [], 0, {}
    for (rc, o, e), f in zip(res, files):
        n = sum(1 for _ in open(f))
        if rc != 0:
            raise RuntimeError("harness (b) failed rc=%d: %s" % (rc, e))
        for l in o:
            w = l.split()
            if w[0] == "M":
                mgrs[w[1]] = w[2]
            elif w[0] == "E":
                mgrs["errno:" + w[1]] = w[2]
            elif w[0] == "R":
                if len(w) < 5 or "=" not in w[4]:
                    recs.append((base + int(w[1]), w[2], w[3] if len(w) > 3 else "", {"skip": w[4] if len(w) > 4 else (w[3] if len(w) > 3 else "skip")}))
                else:
                    recs.append((base + int(w[1]), w[2], w[3], {k: int(v) for k, v in (x.split("=") for x in w[4:])}))
        base += n
    return recs, mgrs


def cat_errnos(cat):
    return [] if cat == "ok" else [int(x) for x in cat.split()[1].split(",")]


def classify(real, cat, disc):
    """Property verdict of one case from the REAL checker verdict and the catalogue.
    Returns None (agrees with the documentation) or a failure kind."""
    if real == "accept" or real.startswith("accept errno-set"):   # the latter: returned 0 after setting an error code
        return None if cat == "ok" else "invalid-accepted"
    if not real.startswith("reject"):
        return "harness:" + real
    e = int(real.split()[1])
    if cat == "ok":
        return "valid-rejected"
    return None if e in cat_errnos(cat) else "wrong-errno"


def gen_cases(tier, seed):
    """Returns (lines, tags); tags = (stream, cell-name, field, label)."""
    rng = common.Rng(seed)
    full = tier != "quick"
    cs = cells(full)
    lines, tags = [], []
    singles = {}   # cell index -> list of (field,label,f,segs)
    for ci, c in enumerate(cs):
        f, s = baseline(*c)
        name = cell_name(c)
        lines.append(line_of(f, s))
        tags.append(("baseline", name, "-", "-"))
        ms = list(mutations(f, s))
        singles[ci] = (f, s, ms)
        for fld, lab, g, s2 in ms:
            lines.append(line_of(g, s2))
            tags.append(("single", name, fld, lab))
    # pairs of mutations (sampled): two different fields mutated at once
    npairs = 300000 if full else 20000
    for _ in range(npairs):
        ci = rng.below(len(cs))
        f, s, ms = singles[ci]
        a, b = ms[rng.below(len(ms))], ms[rng.below(len(ms))]
        if a[0] == b[0]:
            continue
        g = list(a[2])
        for i, (x, y) in enumerate(zip(f, b[2])):
            if x != y:
                g[i] = y
        segs = b[3] if b[3] is not a[3] and b[0] in ("segs", "dst") else a[3]
        if g[IDX["sgl_state"]] == 3 and g[IDX["cipher_mode"]] in (20, 23) and g[IDX["dst"]] != len(segs) and g[IDX["src"]] != 0:
            continue   # the view would not mirror memory (segment count vs array): not a well-formed case
        lines.append(line_of(g, segs))
        tags.append(("pair", cell_name(cs[ci]), a[0] + "+" + b[0], a[1] + "+" + b[1]))
    nrand = 300000 if full else 30000
    for _ in range(nrand):
        f, s = random_view(rng)
        lines.append(line_of(f, s))
        tags.append(("random", "-", "-", "-"))
    return lines, tags, cs


def select_b(tier, seed, lines, tags, model, cs_count):
    """Indices of the cases that also go through the public API."""
    rng = common.Rng(seed + 7)
    idx = []
    if tier != "quick":
        idx = [i for i, t in enumerate(tags) if t[0] in ("baseline", "single")]
        idx += [i for i, t in enumerate(tags) if t[0] in ("pair", "random") and rng.below(20) == 0]
        return idx
    by_cell = collections.defaultdict(list)
    for i, t in enumerate(tags):
        if t[0] == "baseline":
            idx.append(i)
        elif t[0] == "single":
            by_cell[t[1]].append(i)
    for name, l in by_cell.items():
        for _ in range(5):
            idx.append(l[rng.below(len(l))])
        idx += [i for i in l if tags[i][3] == "NULL"]     # every pointer-NULL mutation of every cell
    others = [i for i, t in enumerate(tags) if t[0] in ("pair", "random")]
    for _ in range(600):
        idx.append(others[rng.below(len(others))])
    return sorted(set(idx))


def b_safe(line, cat, max_len=65535):
    """Can this descriptor be handed to the real library?  A job that the CATALOGUE accepts will be
    processed, so its buffers must really be as long as it says: such jobs are only submitted when
    every length fits the arena regions (several algorithms document no upper limit at all).  Jobs
    the catalogue rejects are never restricted: if one is wrongly accepted, the fault IS the finding."""
    if cat != "ok":
        return True
    w = [int(x) for x in line.split()]
    if w[IDX["cipher_len"]] > max_len or w[IDX["hash_len"]] > max_len or w[IDX["cipher_off"]] > 64 or w[IDX["hash_off"]] > 64:
        return False
    if w[IDX["iv_len"]] > 2048 or w[IDX["tag_len"]] > 2048:
        return False
    ha, cm = w[IDX["hash_alg"]], w[IDX["cipher_mode"]]
    num_u1 = ha in (9, 11, 29, 30, 32, 33, 49)     # aad_len_in_bytes
    num_u2 = ha in (24, 25, 26)                    # u.GMAC.iv_len_in_bytes
    if (num_u1 and w[IDX["u1"]] > 4096) or (num_u2 and w[IDX["u2"]] > 2048):
        return False
    sgl_all = cm in (20, 23) and w[IDX["sgl_state"]] == 3     # then `dst` is the segment count
    for name in POINTER_FIELDS:
        v = w[IDX[name]]
        if v == 0 or (name == "u1" and num_u1) or (name == "u2" and num_u2) or (name == "dst" and sgl_all):
            continue
        if name in ("cipher_func", "hash_func"):
            if v != FN_TOKEN:
                return False
            continue
        if not (ARENA_BASE <= v < ARENA_BASE + ARENA_SIZE - 0x20000):
            return False     # a non-NULL word that is not a buffer of ours sitting in a field the library may dereference
    ns = w[31]
    return all(w[32 + 3 * i + 2] <= 0x1000 for i in range(ns))


def analyse_b(recs, idx_map, lines, tags, model):
    """Check every API record against the catalogue.  Returns (failures, stats)."""
    fails, stats = [], collections.Counter()
    for ci, mgr, api, kv in recs:
        if api == "sync":
            continue     # analyse_sync
        gi = idx_map[ci]
        code, cat, wf, disc = model[gi]
        if "skip" in kv:
            stats["skipped-unsafe-view"] += 1
            continue
        stats["records"] += 1
        st, err = kv["status"], kv["errno"]
        why = None
        if kv["fault"]:
            why = "library-fault signal=%d" % kv["fault"]
        elif kv.get("rc", 0) != 0:
            why = "harness-protocol rc=%d" % kv["rc"]
        elif cat == "ok":
            if st != STATUS_COMPLETED or err != 0:
                why = "valid job not completed: status=%d errno=%d" % (st, err)
            elif kv["nbr"] or kv["order"]:
                why = "valid job disturbed its neighbours/order"
        else:
            if st != STATUS_INVALID_ARGS:
                why = "invalid job not rejected: status=%d errno=%d" % (st, err)
            elif err not in cat_errnos(cat):
                why = "errno %d does not name a violated constraint %s" % (err, cat_errnos(cat))
            elif kv["desc"] or kv["arena"]:
                why = "rejected job: descriptor changed=%d buffers changed=%d" % (kv["desc"], kv["arena"])
            elif kv["nbr"]:
                why = "rejected job disturbed a neighbouring valid job"
            elif api == "burst" and kv["order"]:
                why = "rejected burst: jobs[0] is not the invalid job"
            elif api == "job" and kv["order"]:
                why = "jobs returned out of order / not exactly once"
        if why:
            fails.append((gi, mgr, api, why, kv))
            stats["fail"] += 1
        else:
            stats["ok-accepted" if cat == "ok" else "ok-rejected"] += 1
    return fails, stats


# =====================================================================================
# synchronous burst API (IMB_SUBMIT_CIPHER_BURST / _HASH_BURST / _AEAD_BURST, lib/include/mb_mgr_burst.h)
#   Third API kind of harness mode b.  Applicability and call arguments are derived from the descriptor
#   (harness: sync_kind()); the EXPECTED verdict is the validation image's verdict on the view
#   `sync_view(line)` = the descriptor with exactly the parameters the burst function hands to
#   is_job_invalid():
#     submit_aes_cbc_burst_enc/_dec, _ecb_enc/_dec_burst, _cfb_burst_enc/_dec : (cipher, IMB_AUTH_NULL, dir of the call, key_size)
#     submit_aes_ctr_burst                                                     : (CNTR, IMB_AUTH_NULL, IMB_DIR_ENCRYPT, key_size)
#     submit_burst_hmac_sha_x / submit_burst_sha_x                             : (IMB_CIPHER_NULL, hash, IMB_DIR_ENCRYPT, job->key_len_in_bytes)
#     submit_aes_cmac_burst                                                    : (IMB_CIPHER_NULL, IMB_AUTH_AES_CMAC, IMB_DIR_ENCRYPT, job->key_len_in_bytes)
#                         (the three CMAC labels share one case group, which reads job->hash_alg itself: the view keeps the job's hash)
#     submit_aes_ccm_burst                                                     : (CCM, IMB_AUTH_AES_CCM, dir, key_size)
#   plus the burst-level tests in front of them: submit_cipher_burst_and_check() refuses a direction other than
#   ENCRYPT / DECRYPT with IMB_ERR_JOB_CIPH_DIR before looking at any job (no job status is written then).
# =====================================================================================
SYNC_CIPHER, SYNC_HASH, SYNC_AEAD = 1, 2, 3
SYNC_CIPHER_MODES = (1, 2, 12, 26)                         # CBC, CNTR, ECB, CFB
SYNC_HASH_ALGS = (1, 2, 3, 4, 5, 13, 14, 15, 16, 17, 12, 18, 27)
SYNC_API = {1: "IMB_SUBMIT_CIPHER_BURST", 2: "IMB_SUBMIT_HASH_BURST", 3: "IMB_SUBMIT_AEAD_BURST"}
SYNC_MAX_LEN = 0x1F000     # src / dst regions of the arena are 128 KiB each


def sync_kind(w):
    """0 = the synchronous burst API cannot run this descriptor (mirrors harness sync_kind())."""
    cm, ha, key = w[IDX["cipher_mode"]], w[IDX["hash_alg"]], w[IDX["key_len"]]
    if ha == 8 and cm in SYNC_CIPHER_MODES:
        return SYNC_CIPHER if key < (1 << 32) else 0
    if cm == 3 and ha in SYNC_HASH_ALGS:
        return SYNC_HASH
    if cm == 9 and ha == 11:
        return SYNC_AEAD if key < (1 << 32) else 0
    return 0


def sync_view(line):
    """(kind, view line the validation image is evaluated on, burst-level errno name or None)"""
    w = [int(x) for x in line.split()]
    k = sync_kind(w)
    if not k:
        return 0, None, None
    early = None
    if k == SYNC_CIPHER and w[IDX["dir"]] not in (ENC, DEC):
        early = "IMB_ERR_JOB_CIPH_DIR"
    elif (k == SYNC_CIPHER and w[IDX["cipher_mode"]] == 2) or k == SYNC_HASH:
        w[IDX["dir"]] = ENC
    return k, " ".join(map(str, w)), early


def sync_alg_name(w, kind):
    if kind == SYNC_HASH:
        return HASHES[w[IDX["hash_alg"]]]["name"]
    d = w[IDX["dir"]]
    return "%s-%s" % (CIPHERS[w[IDX["cipher_mode"]]]["name"], {ENC: "ENC", DEC: "DEC"}.get(d, "DIRINVALID"))


def analyse_sync(recs, idx_map, lines, sync_model, errno_names):
    """sync_model: global case index -> (kind, (code, cat, wf, disc) of sync_view, early-errno name).
    Returns (failures [(gi, mgr, api-name, symptom, why, kv)], stats)."""
    fails, stats = [], collections.Counter()
    for ci, mgr, api, kv in recs:
        if api != "sync":
            continue
        gi = idx_map[ci]
        if "skip" in kv:
            stats["skip:" + str(kv["skip"])] += 1
            continue
        kind, (code, cat, wf, disc), early = sync_model[gi]
        apiname = SYNC_API[kind] + ("" if kv["chk"] else "_NOCHECK")
        stats["records"] += 1
        stats["records.%s" % apiname] += 1
        exp_acc = code == "accept" and early is None
        exp_err = None if exp_acc else (int(errno_names[early]) if early else int(code.split()[1]))
        st, err, ret, n = kv["status"], kv["errno"], kv["ret"], kv["n"]
        sym = why = None
        if kv["phase"] == 1:
            sym, why = "reference", "job-API reference run of the descriptor / the neighbour jobs failed: fault=%d rc=%d status=%d errno=%d" % (
                kv["fault"], kv["rc"], kv["refst"], kv["referr"])
        elif kv["fault"]:
            sym = "fault"
            why = "library-fault signal=%d inside %s (validation image: %s)" % (kv["fault"], apiname, "accept" if exp_acc else "reject %d -- the job should have been rejected" % exp_err)
        elif kv["rc"]:
            sym, why = "harness", "harness-protocol rc=%d" % kv["rc"]
        elif not kv["chk"] and not exp_acc:
            stats["nocheck-after-wrong-accept"] += 1     # the checked run of the same layout is already a failure
            continue
        elif exp_acc:
            if ret == 0 and err != 0:
                sym, why = "valid-rejected-%d" % err, "valid job rejected: ret=0 errno=%d status=%d (validation image: accept)" % (err, st)
            elif ret != n or err != 0 or st != STATUS_COMPLETED:
                sym, why = "valid-not-completed", "valid job not completed: ret=%d of %d errno=%d status=%d" % (ret, n, err, st)
            elif kv["nbr"]:
                sym, why = "neighbour", "accepted burst: a neighbouring valid job did not complete with its reference output"
            elif kv["out"] == 1:
                sym, why = "output", "accepted job: dst/tag differ from what IMB_SUBMIT_JOB produces for the same descriptor"
            elif kv["out"] == -1:
                sym, why = "reference", "accepted by the burst, but IMB_SUBMIT_JOB did not complete the same descriptor (status=%d errno=%d)" % (kv["refst"], kv["referr"])
        else:
            if not (ret == 0 and err != 0):
                sym, why = "invalid-accepted", "invalid job not rejected: ret=%d of %d errno=%d status=%d (validation image: reject %d)" % (ret, n, err, st, exp_err)
            elif err != exp_err:
                sym, why = "wrong-errno", "rejected with errno %d, the validation image gives %d" % (err, exp_err)
            elif early is None and st != STATUS_INVALID_ARGS:
                sym, why = "status", "rejected burst: status of the invalid job is %d, not IMB_STATUS_INVALID_ARGS" % st
            elif kv["desc"] or kv["arena"]:
                sym, why = "touched", "rejected burst: descriptor changed=%d buffers changed=%d" % (kv["desc"], kv["arena"])
            elif kv["nbr"]:
                sym, why = "neighbour", "rejected burst: a neighbouring valid job was touched, or the valid jobs alone no longer complete"
            elif kv["order"]:
                sym, why = "order", "rejected burst: IMB_STATUS_INVALID_ARGS is not (only) on the invalid job"
        if sym:
            fails.append((gi, mgr, apiname, sym, why + " [burst of %d, case at position %d]" % (n, kv["pos"]), kv))
            stats["fail"] += 1
        else:
            stats[("ok-accepted" if exp_acc else "ok-rejected-early" if early else "ok-rejected") + ("" if kv["chk"] else "-nocheck")] += 1
            stats["layout.%d/%d" % (kv["pos"], n)] += 1
    return fails, stats


def sync_replay_info(line, kind, sm, early, apiname):
    w = [int(x) for x in line.split()]
    args = {"cipher": w[IDX["cipher_mode"]], "dir": w[IDX["dir"]], "key_size": w[IDX["key_len"]]} if kind != SYNC_HASH else {"hash": w[IDX["hash_alg"]]}
    return {"entry_point": apiname, "call_arguments": args, "algorithm": sync_alg_name(w, kind) + ("" if kind == SYNC_HASH else " key_len=%d" % w[IDX["key_len"]]),
            "view_validated_by_the_burst_function": sync_view(line)[1], "burst_level_rejection": early,
            "validation_image_on_that_view": {"code": sm[0], "catalogue": sm[1], "discrepancy": sm[3]},
            "how": "k12_validate b <view> <selector '1'>: the descriptor sits in a contiguous IMB_JOB array at position pos of n, the other "
                   "entries are valid jobs of the same algorithm; records `R 0 <mgr> sync ...` (see harness run_sync)"}


def plan_sync(lines, model, real, bidx):
    """Every generated case (all streams) the synchronous burst API can run goes through it: the ones that already
    run through the job / async burst API get selector '1', the others are added as '2' (sync only).
    Returns (case index list, selector string, {gi: (kind, view)}, counters)."""
    cm_c, cm_h = {str(x) for x in SYNC_CIPHER_MODES}, {str(x) for x in SYNC_HASH_ALGS}
    inb, cand, cnt = set(bidx), {}, collections.Counter()
    for i, l in enumerate(lines):
        f = l.split(" ", 19)
        cm, ha = f[IDX["cipher_mode"]], f[IDX["hash_alg"]]
        if not ((ha == "8" and cm in cm_c) or (cm == "3" and ha in cm_h) or (cm == "9" and ha == "11")):
            continue
        if not model[i][2] or real[i] == "skip":
            cnt["not-well-formed-or-unsafe-view"] += 1
            continue
        k, view, early = sync_view(l)
        if k:
            cand[i] = (k, view, early)
        else:
            cnt["key-size-not-representable"] += 1
    return cand, cnt


def finding_class(disc, kind):
    if kind == "wrong-errno" and "D2" in disc:
        return "E2"
    for d in ("D1", "D4", "D6", "D3", "D8", "D2"):
        if d in disc:
            return d
    return None


def replay_obj(seed, tier, line, tag, model_entry, real_a, b_records, note):
    return {"property": PID, "seed": seed, "tier": tier, "kind": "job_view", "view": line,
            "fields": dict(zip(F + ["nsegs"], line.split()[:32])), "tag": list(tag),
            "model": {"code": model_entry[0], "catalogue": model_entry[1], "well_formed": model_entry[2], "discrepancy": model_entry[3]},
            "real_is_job_invalid": real_a, "api_records": b_records, "note": note}


def main(tier, seed):
    _rebind_paths()
    res = common.Result(PID, tier, seed, level="proof")
    known = common.known_findings(PID)
    t0 = time.time()
    times = {}
    os.makedirs(WORK, exist_ok=True)
    broken = []          # broken obligations / correspondences (names)

    times["build_lib"] = round(common.build_lib(), 1)
    tok, tmsgs = run_translators()
    for m in tmsgs:
        log(m)
    if not tok:
        broken.append("translator T1/T2 failed loudly: " + tmsgs[-1][-300:])
    t1 = time.time()
    pres = common.props_check(PID)
    times["proofs"] = round(time.time() - t1, 1)
    if pres["failed"]:
        broken.append("proof obligations: " + "; ".join(pres["failed"]))
    checker_cmd = "cd coq && make Props/Properties_C12.vo  (coqc 8.16.1; Print Assumptions must say 'Closed under the global context')"
    common.proof_coverage(res, pres, checker_cmd, TRUSTED)

    mok, mmsg = build_model()
    log("model:", mmsg)
    if not os.path.exists(DRIVER):
        res.violation({"property": PID, "broken": broken + ["no extracted model available: " + mmsg]},
                      "model cannot be built; no-failing-input-found", name="no_model")
        return res.finish()
    if not mok:
        broken.append("extraction target: " + mmsg[-300:])
    exe = build_harness()

    # ---------------- cases
    t1 = time.time()
    lines, tags, cs = gen_cases(tier, seed)
    times["generate"] = round(time.time() - t1, 1)
    t1 = time.time()
    model, files = run_model(lines)
    times["model"] = round(time.time() - t1, 1)
    t1 = time.time()
    real = run_real_a(exe, files, len(lines))
    times["real_a"] = round(time.time() - t1, 1)
    light_diff, light_rej = run_light(exe, files, len(lines))
    if light_diff:
        broken.append("tie (a-light): extracted is_job_invalid_light disagrees with the real function on %d descriptors" % light_diff)
    suite_diff, suite_distinct = run_suite_ids(exe, files, len(lines))
    if suite_diff:
        broken.append("tie (a-suite): translated set_cipher_suite_id disagrees with IMB_MGR.set_suite_id on %d descriptors" % suite_diff)

    # ---------------- (a) translator validation + static property verdict
    stats = collections.Counter()
    errno_hist = collections.Counter()
    model_ne_code = []
    prop_fail = collections.defaultdict(list)    # class -> [case index]
    nontrivial = set()
    accepted_cells = set()
    for i, ((code, cat, wf, disc), r, tag) in enumerate(zip(model, real, tags)):
        stats["cases." + tag[0]] += 1
        if r == "skip" or not wf:
            stats["not-well-formed-or-unsafe"] += 1
            continue
        stats["evaluated"] += 1
        if r != code:
            model_ne_code.append(i)
        if r.startswith("reject"):
            errno_hist[r.split()[1]] += 1
            if tag[0] == "single":
                nontrivial.add((tag[1], tag[2], tag[3]))
        elif tag[0] == "baseline":
            accepted_cells.add(tag[1])
        k = classify(r, cat, disc)
        if k:
            cls = finding_class(disc, k) or "NEW:" + k
            prop_fail[cls].append(i)
    stats["model_ne_code"] = len(model_ne_code)
    if model_ne_code:
        broken.append("tie (a): extracted GenValidate disagrees with the real is_job_invalid() on %d descriptors" % len(model_ne_code))

    # ---------------- (b) API behaviour
    t1 = time.time()
    bidx = select_b(tier, seed, lines, tags, model, len(cs))
    # every statically detected doc-vs-code disagreement is confirmed through the API as well
    extra = []
    for cls, l in prop_fail.items():
        extra += l[:40]
    for i in model_ne_code[:200]:
        extra.append(i)
    bidx = sorted(set(bidx) | set(extra))
    bidx = [i for i in bidx if model[i][2] and real[i] != "skip" and b_safe(lines[i], model[i][1])]
    # synchronous burst API: expected verdict = the image on the view the burst function validates (sync_view)
    scand, scnt = plan_sync(lines, model, real, bidx)
    sgi = sorted(scand)
    smodel, _ = run_model([scand[i][1] for i in sgi], prefix="syncview")
    sync_model, inb = {}, set(bidx)
    for i, m in zip(sgi, smodel):
        k, view, early = scand[i]
        # a job the image accepts WILL be processed: its lengths must fit the arena (as b_safe, with the real region size)
        if b_safe(view, m[1], SYNC_MAX_LEN) and b_safe(lines[i], m[1], SYNC_MAX_LEN):
            sync_model[i] = (k, m, early)
        else:
            scnt["accepted-but-too-long-for-the-arena"] += 1
    bidx = sorted(inb | set(sync_model))
    # sync-only cases: quick tier visits a rotating pair of managers per case, thorough tier all six
    # (job/burst cases the synchronous API cannot run keep '1': the harness prints one skip-not-applicable record for each)
    bsel = "".join(("0" if (i in scand and i not in sync_model) else "1") if i in inb else ("2" if tier == "quick" else "3") for i in bidx)
    brecs, mgrs = run_real_b(exe, [lines[i] for i in bidx], sel=bsel)
    times["real_b"] = round(time.time() - t1, 1)
    bfails, bstats = analyse_b(brecs, bidx, lines, tags, model)
    errno_names = {k[6:]: v for k, v in mgrs.items() if k.startswith("errno:")}
    mgrs = {k: v for k, v in mgrs.items() if not k.startswith("errno:")}
    sfails, sstats = analyse_sync(brecs, bidx, lines, sync_model, errno_names)
    by_case = collections.defaultdict(list)
    for ci, mgr, api, kv in brecs:
        by_case[bidx[ci]].append({"mgr": mgr, "api": api, **kv})

    # ---------------- (m) burst misuse, (d) direct API
    t1 = time.time()
    pm = sh([exe, "m"], env=common.lib_env(), timeout=300)
    mlines = [l for l in pm.stdout.splitlines() if l.startswith("U ")]
    mfail = [l for l in mlines if not l.rstrip().endswith("OK")]
    ps = sh([exe, "s"], env=common.lib_env(), timeout=600)
    slines = [l for l in ps.stdout.splitlines() if l.startswith("S ")]
    sfail = [l for l in slines if not l.rstrip().endswith("OK")]
    if ps.returncode != 0 or not slines:
        broken.append("harness mode s did not run: rc=%d %s" % (ps.returncode, ps.stderr[-200:]))
    pd = sh([exe, "d"], env=common.lib_env(), timeout=900)
    dlines = [l for l in pd.stdout.splitlines() if l.startswith("D ") or l.startswith("DX ")]
    dfail = [l for l in dlines if not l.rstrip().endswith("OK")]
    times["misuse_direct"] = round(time.time() - t1, 1)
    if pm.returncode != 0 or not mlines:
        broken.append("harness mode m did not run: rc=%d %s" % (pm.returncode, pm.stderr[-200:]))
    if pd.returncode != 0 or not dlines:
        broken.append("harness mode d did not run: rc=%d %s" % (pd.returncode, pd.stderr[-200:]))

    # ---------------- findings
    findings = collections.OrderedDict()   # key -> (note, replay object)
    bfail_by_case = collections.defaultdict(list)
    for gi, mgr, api, why, kv in bfails:
        bfail_by_case[gi].append((mgr, api, why))
    # API-level failures grouped by discrepancy class
    for gi, l in bfail_by_case.items():
        code, cat, wf, disc = model[gi]
        kind = classify(real[gi], cat, disc) or "api-only"
        cls = finding_class(disc, kind)
        if cls is None and cat == "ok" and any("library-fault" in x[2] for x in l):
            # a job that satisfies every documented constraint is accepted -- and then faults inside the library
            w = lines[gi].split()
            cls = "VF:cipher=%s,dir=%s" % (w[IDX["cipher_mode"]], w[IDX["dir"]])
        if cls is None and cat == "ok" and any(x[2].startswith("valid job not completed: status=4") for x in l):
            w = lines[gi].split()
            cls = "VR:cipher=%s,hash=%s,%s" % (w[IDX["cipher_mode"]], w[IDX["hash_alg"]], l[0][2].split()[-1])
        if cls is None and cat == "ok" and any(x[2].startswith("valid job not completed") for x in l):
            w = lines[gi].split()
            cls = "VE:cipher=%s,dir=%s" % (w[IDX["cipher_mode"]], w[IDX["dir"]])
        if cls is None:
            # anything else is NEW: name it by what failed and by the algorithm pair, not by the individual job
            w = lines[gi].split()
            why0 = l[0][2]
            what = ("wrong-errno-%s" % why0.split()[1] if why0.startswith("errno") else
                    "invalid-job-accepted" if why0.startswith("invalid job not rejected") else
                    "rejected-job-touched" if why0.startswith("rejected job:") else
                    "neighbour-disturbed" if "neighbour" in why0 else
                    "library-fault-on-invalid-job" if "library-fault" in why0 else
                    re.sub(r"[^a-z0-9]+", "-", why0.lower())[:40])
            cls = "NEW:%s-cipher-%s" % (what, w[IDX["cipher_mode"]]) if what.startswith(("invalid-job", "library-fault")) else \
                "NEW:%s-cipher-%s-hash-%s" % (what, w[IDX["cipher_mode"]], w[IDX["hash_alg"]])
        if cls not in findings:
            key, text = DISC_KEYS.get(cls, (cls, l[0][2]))
            if cls.startswith("VR:"):
                key = "C12-valid-job-rejected-" + re.sub(r"[^a-z0-9]+", "-", cls[3:])
                text = "a job satisfying every documented constraint is rejected: " + l[0][2]
            if cls.startswith("VE:"):
                key = "C12-valid-job-not-processed-" + re.sub(r"[^a-z0-9]+", "-", cls[3:])
                text = "a job satisfying every documented constraint is accepted but handed back without being processed / with an error code: " + l[0][2]
            if cls.startswith("VF:"):
                key = "C12-valid-job-faults-" + re.sub(r"[^a-z0-9]+", "-", cls[3:])
                text = "a job satisfying every documented constraint is accepted and then faults in the library (managers: %s)" % \
                    ",".join(sorted(set(x[0] for x in l if "library-fault" in x[2])))
            findings[cls] = (key, text + " -- e.g. " + l[0][2] + " on " + l[0][0] + "/" + l[0][1],
                             replay_obj(seed, tier, lines[gi], tags[gi], model[gi], real[gi], by_case.get(gi, []), l[0][2]), len(l))
    # synchronous burst API: one finding per (entry point, algorithm + direction, symptom)
    sgroups = collections.OrderedDict()
    for gi, mgr, apiname, sym, why, kv in sfails:
        w = [int(x) for x in lines[gi].split()]
        sgroups.setdefault((apiname, sync_alg_name(w, sync_model[gi][0]), sym), []).append((gi, mgr, why, kv))
    for (apiname, alg, sym), l in sgroups.items():
        gi, mgr, why, kv = l[0]
        kind, sm, early = sync_model[gi]
        key = "C12-sync-%s-%s-%s" % (apiname[len("IMB_SUBMIT_"):], alg, sym)
        robj = replay_obj(seed, tier, lines[gi], tags[gi], model[gi], real[gi], by_case.get(gi, []), why)
        robj["sync"] = sync_replay_info(lines[gi], kind, sm, early, apiname)
        findings["SYNC:" + key] = (key, "%s [%s]: %s -- e.g. on manager %s, descriptor tag %s; %d records on %d descriptors" % (
            apiname, alg, why, mgr, "/".join(tags[gi]), len(l), len(set(x[0] for x in l))), robj, len(l))
    # statically detected classes that the API run did not confirm (should not happen)
    for cls, l in prop_fail.items():
        if cls not in findings and not any(gi in bfail_by_case for gi in l[:40]):
            gi = l[0]
            key, text = DISC_KEYS.get(cls, (cls, classify(real[gi], model[gi][1], model[gi][3])))
            findings[cls] = (key, text + " (checker verdict vs catalogue; API run did not show a failure)",
                             replay_obj(seed, tier, lines[gi], tags[gi], model[gi], real[gi], by_case.get(gi, []), "static"), 0)
    for l in mfail:
        what = re.sub(r"[^a-z0-9]+", "-", l.split(" ", 2)[2].split(" ret=")[0].strip().lower()).strip("-")
        findings.setdefault("M:" + what, ("C12-api-sequence-" + what, "API sequence check failed: " + l,
                                          {"property": PID, "kind": "misuse", "line": l}, 1))
    for l in sfail:
        m = re.search(r"case=(\w+)", l)
        what = "burst-suite-id-" + (m.group(1) if m else "setup")
        findings.setdefault("S:" + what, ("C12-" + what, "checked burst with stale suite id: " + l,
                                          {"property": PID, "kind": "suite", "line": l,
                                           "how": "k12_validate s: burst of n jobs, job at pos carries suite_id words of another valid suite (wr = cipher word, rw = hash word, ww = both)"}, len([x for x in sfail if what[15:] in x])))
    for l in dfail:
        w = l.split()
        findings.setdefault("DA:" + w[3] + ":" + w[4], ("C12-direct-api-" + w[3] + "-" + w[4], "direct API: " + l,
                                                          {"property": PID, "kind": "direct", "line": l}, 1))

    # ---------------- evidence
    res.coverage.update({
        "evaluations": stats["evaluated"], "cases_generated": len(lines),
        "streams": {k[6:]: v for k, v in stats.items() if k.startswith("cases.")},
        "cells": len(cs), "accepted_valid_cells": len(accepted_cells),
        "distinct_nontrivial": len(nontrivial) + len(accepted_cells),
        "distinct_nontrivial_rule": "distinct (cell, mutated field, boundary value) triples whose real verdict is reject + cells whose baseline is accepted",
        "errno_histogram": dict(sorted(errno_hist.items(), key=lambda x: -x[1])),
        "translator_validation": {"descriptors": stats["evaluated"], "model_ne_code": len(model_ne_code),
                                  "skipped_not_well_formed_or_unsafe": stats["not-well-formed-or-unsafe"]},
        "light_check_tie": {"descriptors": len(lines), "model_ne_code": light_diff, "rejected": light_rej},
        "doc_vs_code_classes": {c: len(l) for c, l in prop_fail.items()},
        "api_behaviour": {"cases": len(bidx) - bsel.count("2") - bsel.count("3"), "records": bstats["records"], "managers": mgrs,
                          "ok_rejected": bstats["ok-rejected"], "ok_accepted": bstats["ok-accepted"], "fail": bstats["fail"],
                          "skipped": bstats["skipped-unsafe-view"]},
        "sync_burst_api": {
            "cases": len(sync_model), "cases_sync_only": bsel.count("2") + bsel.count("3"), "records": sstats["records"], "fail": sstats["fail"],
            "records_per_entry_point": {k[8:]: v for k, v in sstats.items() if k.startswith("records.")},
            "ok_accepted": sstats["ok-accepted"], "ok_accepted_nocheck": sstats["ok-accepted-nocheck"],
            "ok_rejected_by_job_validation": sstats["ok-rejected"], "ok_rejected_at_burst_level": sstats["ok-rejected-early"],
            "layouts_pos/n": {k[7:]: v for k, v in sstats.items() if k.startswith("layout.")},
            "kinds": dict(collections.Counter({1: "cipher", 2: "hash", 3: "aead"}[v[0]] for v in sync_model.values())),
            "algorithms": dict(collections.Counter(sync_alg_name([int(x) for x in lines[i].split()], v[0]) for i, v in sync_model.items())),
            "skipped": dict(scnt, **{"cases_not_applicable": sum(v for k, v in sstats.items() if k == "skip:skip-not-applicable"),
                                     "records_unsafe_view": sstats["skip:skip-unsafe-view"]}),
            "oracle": "verdict + errno == extracted validation image on the view the burst function validates (sync_view); rejected: ret 0, "
                      "status INVALID_ARGS, descriptor/arena/neighbours untouched, valid jobs still complete; accepted: all COMPLETED, "
                      "arena == arena after IMB_SUBMIT_JOB of the same descriptor, neighbours == job-API reference",
        },
        "entry_points_covered": ["IMB_SUBMIT_JOB", "IMB_SUBMIT_BURST", "imb_set_session (light check)",
                                 "IMB_SUBMIT_CIPHER_BURST", "IMB_SUBMIT_CIPHER_BURST_NOCHECK (accepted jobs)",
                                 "IMB_SUBMIT_HASH_BURST", "IMB_SUBMIT_HASH_BURST_NOCHECK (accepted jobs)",
                                 "IMB_SUBMIT_AEAD_BURST", "IMB_SUBMIT_AEAD_BURST_NOCHECK (accepted jobs)",
                                 "IMB_GET_NEXT_BURST / IMB_FLUSH_BURST (misuse rows)", "direct API (mode d table)"],
        "burst_misuse": {"rows": len(mlines), "fail": len(mfail)},
        "burst_suite_id": {"rows": len(slines), "fail": len(sfail),
                           "cases": dict(collections.Counter(re.search(r"case=(\w+)", l).group(1) for l in slines if "case=" in l))},
        "suite_id_tie": {"descriptors": len(lines), "model_ne_code": suite_diff, "distinct_ids": suite_distinct},
        "direct_api": {"rows": len(dlines), "fail": len(dfail), "summary": [l for l in pd.stdout.splitlines() if l.startswith("D-SUMMARY")]},
        "translators": tmsgs, "times_s": times,
        "samples": [{"tag": list(tags[i]), "view": lines[i], "model": model[i][0], "catalogue": model[i][1], "real": real[i]}
                    for i in list(range(0, len(lines), max(1, len(lines) // 12)))[:12]],
    })
    res.assumptions = [
        "C harness compiles the checker from the same header with the library's own flags; the library binary is exercised by tie (b)",
        "level note: the theorems are about is_job_invalid()/submit_burst_and_check(); that the synchronous burst functions call it with the "
        "right arguments for every job of the array is established dynamically only (tie (b) kind sync: every generated descriptor "
        "the API can run, at the first / middle / last position of a burst, quick tier on a rotating pair of managers for descriptors that "
        "do not also go through the job API)",
        "well_formed: field widths + (SGL ALL) segment list mirrors the array and the array does not wrap the address space",
        "quick tier assumes an incremental Coq build (ValidateProofs.vo ~2 min from scratch)",
    ]

    # ---------------- verdict (DESIGN 1.1)
    for cls, (key, note, robj, n) in findings.items():
        kf = [k for k in known if key in k[1]]
        if kf:
            res.known.append("%s %s (%d API failures)" % (key, note[:160], n))
        else:
            res.violation(robj, "%s: %s" % (key, note[:400]), name=re.sub(r"[^A-Za-z0-9_.-]", "_", key)[:90 if key.startswith("C12-sync-") else 60])
    if broken and not res.violations:
        # broken obligation/correspondence but the failing-input search above found no input on which the
        # PROPERTY fails on the real library
        res.violation({"property": PID, "broken": broken, "seed": seed, "tier": tier,
                       "searched": {"descriptors": stats["evaluated"], "api_cases": len(bidx)}},
                      "broken: %s no-failing-input-found" % "; ".join(b[:200] for b in broken), name="broken_obligation")
    elif broken:
        res.coverage["broken_obligations"] = broken
        log("broken obligations (a failing input WAS found, see violations): " + "; ".join(broken))
    log("C12 %s: %d descriptors, model!=code %d, api cases %d (fail %d), sync-burst cases %d records %d (fail %d), misuse %d/%d, burst-suite %d/%d, direct %d/%d, %.1fs" % (
        tier, stats["evaluated"], len(model_ne_code), len(bidx), bstats["fail"], len(sync_model), sstats["records"], sstats["fail"], len(mlines) - len(mfail), len(mlines),
        len(slines) - len(sfail), len(slines), len(dlines) - len(dfail), len(dlines), time.time() - t0))
    return res.finish()


def replay(path):
    """Re-run exactly one recorded case on the current tree; exit 1 if the property still fails."""
    _rebind_paths()
    r = json.load(open(path))
    common.build_lib()
    exe = build_harness()
    if r.get("kind") == "suite":
        p = sh([exe, "s"], env=common.lib_env(), timeout=600)
        key = " ".join(r["line"].split()[1:7])     # manager, n, pos, x, stale, case
        now = [l for l in p.stdout.splitlines() if key in l]
        print("\n".join(now))
        return 1 if (not now or any(not l.rstrip().endswith("OK") for l in now)) else 0
    if r.get("kind") in ("misuse", "direct"):
        mode = "m" if r["kind"] == "misuse" else "d"
        p = sh([exe, mode], env=common.lib_env(), timeout=900)
        w = r["line"].split()
        key = " ".join(w[1:5]) if mode == "d" else r["line"].split(" ret=")[0].split(" ", 1)[1]
        now = [l for l in p.stdout.splitlines() if key in l]
        bad = [l for l in now if not l.rstrip().endswith("OK")]
        print("\n".join(now))
        return 1 if bad or not now else 0
    if r.get("kind") != "job_view":
        print("replay file names a broken obligation, not an input: %s" % r.get("broken"))
        run_translators()
        pres = common.props_check(PID)
        print("obligations %d discharged %d failed %s" % (pres["obligations"], pres["discharged"], pres["failed"]))
        return 1 if pres["failed"] else 0
    line = r["view"]
    os.makedirs(WORK, exist_ok=True)
    model = None
    if os.path.exists(DRIVER):
        model, _ = run_model([line], prefix="replay")
    f = os.path.join(WORK, "replay.b.txt")
    open(f, "w").write(line + "\n")
    pa = sh([exe, "a", f], env=common.lib_env())
    m = model[0] if model else (r["model"]["code"], r["model"]["catalogue"], True, r["model"]["discrepancy"])
    # synchronous burst API: expected verdict = validation image on the view the burst function validates
    skind, sview, searly = sync_view(line)
    sync_model = {}
    if skind:
        if os.path.exists(DRIVER):
            sm = run_model([sview], prefix="replay.syncview")[0][0]
        else:
            si = r.get("sync", {}).get("validation_image_on_that_view")
            sm = (si["code"], si["catalogue"], True, si["discrepancy"]) if si else None
        if sm and b_safe(sview, sm[1], SYNC_MAX_LEN) and b_safe(line, sm[1], SYNC_MAX_LEN):
            sync_model[0] = (skind, sm, searly)
    job_api = "api_records" not in r or any(x.get("api") in ("job", "burst") for x in r["api_records"]) or not sync_model
    sel = ("1" if sync_model else "0") if job_api else "3"
    recs, mg = run_real_b(exe, [line], prefix="replay.b", sel=sel)
    print("view:", line)
    print("catalogue/model:", model[0] if model else r["model"])
    print("real is_job_invalid:", pa.stdout.strip())
    for ci, mgr, api, kv in recs:
        print("R", mgr, api, " ".join("%s=%s" % x for x in kv.items()))
    fails, _ = analyse_b(recs, [0], [line], [tuple(r.get("tag", ["replay", "-", "-", "-"]))], [m])
    k = classify(pa.stdout.strip(), m[1], m[3])
    for gi, mgr, api, why, kv in fails:
        print("PROPERTY FAILS: %s/%s: %s" % (mgr, api, why))
    sfails = []
    if sync_model:
        print("synchronous burst: %s, view validated by the burst function: %s" % (SYNC_API[skind], sview))
        print("validation image on that view: %s%s" % (sync_model[0][1][0], " (burst-level: %s)" % searly if searly else ""))
        sfails, _ = analyse_sync(recs, [0], [line], sync_model, {kk[6:]: v for kk, v in mg.items() if kk.startswith("errno:")})
        for gi, mgr, apiname, sym, why, kv in sfails:
            print("PROPERTY FAILS: %s/%s [%s]: %s" % (mgr, apiname, sync_alg_name([int(x) for x in line.split()], skind), why))
    if k:
        print("checker verdict vs documentation:", k)
    return 1 if (fails or sfails or k) else 0
