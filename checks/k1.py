"""K1 — algorithm differential correspondence: extracted Coq job model (coq/Struct/JobSem.v)
against the rebuilt library driven by harness/k1_algo.c, on every implementation variant,
every API entry point and with one or many jobs in flight.

The engine is shared by checks C01 (cipher modes), C02 (hash/MAC) and C03 (AEAD / combined
modes); those modules only choose which generator streams to run.

Vocabulary
  item      one K1 work item (a line of a case file, harness/K1_FORMAT.md)
  path      (variant, entry point, batch size) through which an item was run
  outcome   what one path produced for one item (status, errno, dst, tag, canary, src, niv)
  disagreement  an item for which some path's outcome differs from the model, or for which the
            paths differ among themselves
  class a   every path gives the same outcome and it is not the model's: suspect the model/spec
            first (triage), the library second
  class b   some paths differ from others: a defect of the library on those paths
  class ab  no path agrees with the model AND the paths differ among themselves

Known findings: lines of /verif/known_findings.txt
      property=C01 key=<constraints> <free text>
  suppress exactly the disagreements whose attributes satisfy every constraint of the key.
  <constraints> is a comma separated list attr=value without blanks; value is a literal, a list
  a|b|c or an integer range lo..hi.  Attributes: cipher hash dir order class vars eps batch field
  tag klen ivlen aadlen clen hlen coff hoff inplace.  `vars` is `all`, or `+`-joined
  implementation families (sse, avx2, avx512) / single variant names; `eps` is `all` or
  `.`-joined entry point numbers; `batch` is `1`, `>1` or `any`; `field` is the `+`-joined sorted
  set of outcome fields that differ (dst tag niv status crash canary src dst-loose tag-unspec).
  Lines starting with `fixed:` suppress nothing.  The file is never written here.
"""
import os, sys, json, time, subprocess, collections, concurrent.futures as cf
from . import common
from .common import Rng, Result, log

NSHARD = max(4, min(32, common.NCPU))
FAMILIES = ("sse", "avx2", "avx512")
ALL_EPS = (0, 1, 2, 3, 4, 5, 6)

C_NULL, H_NULL = 3, 8
BIT_CIPHERS = (13, 15, 16)
BITOFF_CIPHERS = (15, 16)
BIT_HASHES = (18, 20, 22, 31)

CIPHER_NAMES = {1: "CBC", 2: "CNTR", 3: "NULL", 4: "DOCSIS_SEC_BPI", 5: "GCM", 7: "DES", 8: "DOCSIS_DES", 9: "CCM",
                10: "DES3", 11: "PON_AES_CNTR", 12: "ECB", 13: "CNTR_BITLEN", 14: "ZUC_EEA3", 15: "SNOW3G_UEA2_BITLEN",
                16: "KASUMI_UEA1_BITLEN", 17: "CBCS_1_9", 18: "CHACHA20", 19: "CHACHA20_POLY1305", 21: "SNOW_V",
                22: "SNOW_V_AEAD", 24: "SM4_ECB", 25: "SM4_CBC", 26: "CFB", 27: "SM4_CNTR", 28: "SM4_GCM"}
HASH_NAMES = {1: "HMAC_SHA_1", 2: "HMAC_SHA_224", 3: "HMAC_SHA_256", 4: "HMAC_SHA_384", 5: "HMAC_SHA_512", 6: "AES_XCBC",
              7: "HMAC_MD5", 8: "NULL", 9: "AES_GMAC", 11: "AES_CCM", 12: "AES_CMAC", 13: "SHA_1", 14: "SHA_224",
              15: "SHA_256", 16: "SHA_384", 17: "SHA_512", 18: "AES_CMAC_BITLEN", 19: "PON_CRC_BIP", 20: "ZUC_EIA3_BITLEN",
              21: "DOCSIS_CRC32", 22: "SNOW3G_UIA2_BITLEN", 23: "KASUMI_UIA1", 24: "AES_GMAC_128", 25: "AES_GMAC_192",
              26: "AES_GMAC_256", 27: "AES_CMAC_256", 28: "POLY1305", 29: "CHACHA20_POLY1305", 31: "ZUC256_EIA3_BITLEN",
              32: "SNOW_V_AEAD", 34: "CRC32_ETHERNET_FCS", 35: "CRC32_SCTP", 36: "CRC32_WIMAX_OFDMA_DATA", 37: "CRC24_LTE_A",
              38: "CRC24_LTE_B", 39: "CRC16_X25", 40: "CRC16_FP_DATA", 41: "CRC11_FP_HEADER", 42: "CRC10_IUUP_DATA",
              43: "CRC8_WIMAX_OFDMA_HCS", 44: "CRC7_FP_HEADER", 45: "CRC6_IUUP_HEADER", 46: "GHASH", 47: "SM3",
              48: "HMAC_SM3", 49: "SM4_GCM"}


def algo_name(c, h):
    return "%s+%s" % (CIPHER_NAMES.get(c, "c%d" % c), HASH_NAMES.get(h, "h%d" % h))


# ------------------------------------------------------------------------------------------------
# building
# ------------------------------------------------------------------------------------------------
def build_model_driver():
    """compile Struct/JobSem.v, extract it into .build/ocaml and build the OCaml driver"""
    ok, out = common.coq_make(["Struct/JobSem.vo"])
    vsrc = os.path.join(common.COQDIR, "Struct", "JobSem.v")
    vobj = vsrc + "o"
    if not ok:
        # the shared Makefile can be broken by an unrelated entry of _CoqProject (a file another
        # check lists but has not written yet): compile the one file directly
        if not (os.path.exists(vobj) and os.path.getmtime(vobj) >= os.path.getmtime(vsrc)):
            p = common.run(["timeout", "900", "coqc", "-Q", ".", "IMB", "Struct/JobSem.v"], cwd=common.COQDIR, timeout=930)
            if p.returncode != 0:
                raise RuntimeError("coq build of Struct/JobSem.v failed:\n" + out[-1500:] + p.stdout[-1500:] + p.stderr[-1500:])
    od = os.path.join(common.BUILD, "ocaml")
    os.makedirs(od, exist_ok=True)
    os.makedirs(os.path.join(common.BUILD, "bin"), exist_ok=True)
    exe = os.path.join(common.BUILD, "bin", "k1_driver")
    src = os.path.join(common.VERIF, "ocaml", "k1_driver.ml")
    ext = os.path.join(common.COQDIR, "Extract", "ExtractK1.v")
    vo = os.path.join(common.COQDIR, "Struct", "JobSem.vo")
    ml = os.path.join(od, "k1_model.ml")
    if (not os.path.exists(ml)) or os.path.getmtime(ml) < max(os.path.getmtime(vo), os.path.getmtime(ext)):
        # extraction target is relative to the working directory: nothing generated lands in coq/ or ocaml/
        common.run(["timeout", "900", "coqc", "-Q", common.COQDIR, "IMB", ext], cwd=od, check=True, timeout=930)
    if (not os.path.exists(exe)) or os.path.getmtime(exe) < max(os.path.getmtime(ml), os.path.getmtime(src)):
        common.run("cp %s %s/ && cd %s && timeout 600 ocamlfind ocamlopt -w -a k1_model.mli k1_model.ml k1_driver.ml -o %s"
                   % (src, od, od, exe), check=True, timeout=630)
    return exe


class Tools:
    def __init__(self):
        self.lib_build_s = common.build_lib()
        self.k1 = common.build_harness("k1_algo", extra_src=("imbh.c",))
        self.drv = build_model_driver()
        self.work = os.path.join(common.BUILD, "k1")
        os.makedirs(self.work, exist_ok=True)
        p = common.run([self.k1, "--list-variants"], env=common.lib_env(), timeout=120)
        self.variant_table = [l for l in p.stdout.splitlines() if l.startswith("variant=")]
        self.variants = [l.split()[0][8:] for l in self.variant_table]
        if not self.variants:
            raise RuntimeError("k1_algo found no implementation variant:\n" + p.stdout + p.stderr)


# ------------------------------------------------------------------------------------------------
# items
# ------------------------------------------------------------------------------------------------
def hx(b):
    return b.hex() if b else "-"


def item_line(it):
    t = ["id=%d cipher=%d hash=%d dir=%d order=%d" % (it["id"], it["cipher"], it["hash"], it["dir"], it["order"]),
         "key=" + hx(it["key"]), "akey=" + hx(it["akey"]), "iv=" + hx(it["iv"]), "aiv=" + hx(it["aiv"]),
         "aad=" + hx(it["aad"]), "msg=" + hx(it["msg"]),
         "coff=%d clen=%d hoff=%d hlen=%d tag=%d inplace=%d salign=%d dalign=%d"
         % (it["coff"], it["clen"], it["hoff"], it["hlen"], it["tag"], it["inplace"], it["salign"], it["dalign"])]
    if it.get("doff") is not None:
        t.append("doff=%d" % it["doff"])
    if it.get("hdst"):
        t.append("hdst=1")
    return " ".join(t)


def item_from_line(line):
    kv = dict(t.split("=", 1) for t in line.split() if "=" in t)
    g = lambda k: bytes.fromhex(kv[k]) if kv.get(k, "-") != "-" else b""
    it = dict(id=int(kv["id"]), cipher=int(kv["cipher"]), hash=int(kv["hash"]), dir=int(kv.get("dir", 1)),
              order=int(kv.get("order", 1)), key=g("key"), akey=g("akey"), iv=g("iv"), aiv=g("aiv"), aad=g("aad"),
              msg=g("msg"), coff=int(kv.get("coff", 0)), clen=int(kv.get("clen", 0)), hoff=int(kv.get("hoff", 0)),
              hlen=int(kv.get("hlen", 0)), tag=int(kv.get("tag", 0)), inplace=int(kv.get("inplace", 0)),
              salign=int(kv.get("salign", 0)), dalign=int(kv.get("dalign", 0)),
              doff=int(kv["doff"]) if "doff" in kv else None, hdst=int(kv.get("hdst", 0)))
    it.update(_stream="replay", _valid=True, _iv="?")
    return it


class Gen:
    """Builds work items; every random choice comes from the one Rng."""

    def __init__(self, rng, first_id=1):
        self.rng = rng
        self.items = []
        self.next_id = first_id
        self.n = 0

    def rnd(self, n):
        return self.rng.bytes(n)

    def add(self, cipher, hash, stream, dir=1, order=1, key=b"", akey=b"", iv=b"", aiv=b"", aad=b"", msg=b"",
            coff=0, clen=0, hoff=0, hlen=0, tag=0, inplace=None, salign=None, dalign=None, doff=None, hdst=0,
            valid=True, ivcls="rnd", **meta):
        self.n += 1
        if inplace is None:
            inplace = self.n & 1
        if salign is None:
            salign = (self.n * 7) % 64       # every residue 0..63 once per 64 items
        if dalign is None:
            dalign = (self.n * 11 + 5) % 64
        it = dict(id=self.next_id, cipher=cipher, hash=hash, dir=dir, order=order, key=key, akey=akey, iv=iv, aiv=aiv,
                  aad=aad, msg=msg, coff=coff, clen=clen, hoff=hoff, hlen=hlen, tag=tag, inplace=int(inplace),
                  salign=salign, dalign=dalign, doff=doff, hdst=hdst, _stream=stream, _valid=valid, _iv=ivcls)
        for k, v in meta.items():
            it["_" + k] = v
        self.next_id += 1
        self.items.append(it)
        return it


def cipher_bytes(it):
    """bytes the cipher stage touches"""
    c = it["cipher"]
    if c == C_NULL:
        return 0
    return (it["clen"] + 7) // 8 if c in BIT_CIPHERS else it["clen"]


def hash_bytes(it):
    h = it["hash"]
    if h == H_NULL:
        return 0
    return (it["hlen"] + 7) // 8 if h in BIT_HASHES else it["hlen"]


HASH_COST = {4: 4, 5: 4, 16: 4, 17: 4, 1: 1, 2: 1.5, 3: 1.5, 14: 1.5, 15: 1.5, 47: 1.5, 48: 1.5, 46: 2, 24: 3, 25: 3, 26: 3}


def model_cost(it):
    """rough model evaluation cost (arbitrary units) for shard balancing"""
    return 40 + cipher_bytes(it) * (3 if it["cipher"] in (7, 8, 10, 16, 24, 25, 27, 28) else 1) \
        + hash_bytes(it) * HASH_COST.get(it["hash"], 1) + len(it["aad"]) * 2


def distinct_key(it):
    return (it["cipher"], it["hash"], len(it["key"]), len(it["akey"]), it["dir"], it["order"], it["clen"], it["hlen"],
            it["coff"], it["hoff"], len(it["iv"]), len(it["aiv"]), it["_iv"], len(it["aad"]), it["tag"], it["inplace"],
            it.get("hdst", 0))


# ------------------------------------------------------------------------------------------------
# model side
# ------------------------------------------------------------------------------------------------
def _run_driver(args):
    drv, path, shard, n = args
    p = subprocess.run("ulimit -s unlimited 2>/dev/null; exec %s %s %d %d" % (drv, path, shard, n), shell=True,
                       stdout=subprocess.PIPE, stderr=subprocess.PIPE, text=True, timeout=3000)
    if p.returncode != 0:
        raise RuntimeError("k1_driver failed (%d): %s" % (p.returncode, p.stderr[-1000:]))
    return p.stdout


def parse_model_output(txt, out):
    for line in txt.splitlines():
        t = line.split(" ")
        if len(t) < 2 or not t[0].startswith("id="):
            continue
        iid = int(t[0][3:])
        if t[1].startswith("unmodelled"):
            out[iid] = None
            continue
        d = dict(dst=t[1][4:], tag=t[2][4:], niv=None, loose=None)
        for x in t[3:]:
            if x.startswith("niv="):
                d["niv"] = x[4:]
            elif x.startswith("loose="):
                d["loose"] = [tuple(int(v) for v in p.split(":")) for p in x[6:].split(",")]
        if d["dst"] == "-":
            d["dst"] = ""
        if d["tag"] == "-":
            d["tag"] = ""
        out[iid] = d
    return out


def run_model(tools, items, tag="m"):
    """{id: None | dict(dst, tag, niv, loose)} via the extracted model, NSHARD processes"""
    if not items:
        return {}
    # order by decreasing cost so that the round-robin shards are balanced
    order = sorted(items, key=model_cost, reverse=True)
    path = os.path.join(tools.work, "model_%s_%d.txt" % (tag, os.getpid()))
    with open(path, "w") as f:
        for it in order:
            f.write(item_line(it) + "\n")
    n = min(NSHARD, max(1, len(items)))
    out = {}
    with cf.ThreadPoolExecutor(max_workers=n) as ex:
        for txt in ex.map(_run_driver, [(tools.drv, path, i, n) for i in range(n)]):
            parse_model_output(txt, out)
    os.remove(path)
    missing = [it["id"] for it in items if it["id"] not in out]
    if missing:
        raise RuntimeError("model driver produced no line for items %s" % missing[:5])
    return out


def is_nontrivial(it, m):
    """the model output differs from the untouched buffers"""
    if m is None:
        return False
    changed = False
    if it["cipher"] != C_NULL:
        changed = (m["dst"] != it["msg"].hex()) if it["inplace"] else cipher_bytes(it) > 0
    if it["hash"] != H_NULL and hash_bytes(it) > 0 and m["tag"]:
        changed = True
    return changed


# ------------------------------------------------------------------------------------------------
# library side + comparison (runs inside worker processes)
# ------------------------------------------------------------------------------------------------
def compare_outcome(o, m, it):
    """fields in which outcome o (dict) differs from the model m; o: status errno dst tag canary src niv crash"""
    bad = []
    if o.get("crash") is not None:
        return ["crash"]
    if o["status"] != 3:
        if m is not None and it["_valid"]:
            bad.append("status")
        return bad
    if o["canary"] != "ok":
        bad.append("canary")
    if o["src"] == "changed":
        bad.append("src")
    if m is None:
        return bad
    if o["dst"] != m["dst"]:
        strict = True
        if m["loose"] and len(o["dst"]) == len(m["dst"]):
            a = bytearray(bytes.fromhex(o["dst"]))
            b = bytearray(bytes.fromhex(m["dst"]))
            for idx, mask in m["loose"]:
                if idx < len(a):
                    a[idx] &= ~mask & 255
                    b[idx] &= ~mask & 255
            strict = a != b
        bad.append("dst" if strict else "dst-loose")
    if o["tag"] != m["tag"]:
        want = it["tag"] * 2
        if len(m["tag"]) < want and len(o["tag"]) == want and o["tag"].startswith(m["tag"]):
            pass    # the model leaves the trailing tag bytes unspecified
        else:
            bad.append("tag")
    if m["niv"] is not None and o.get("niv") != m["niv"]:
        bad.append("niv")
    return bad


def first_diff(a, b):
    """first differing byte offset of two hex strings + 16-byte excerpts"""
    n = min(len(a), len(b))
    i = 0
    while i < n and a[i:i + 64] == b[i:i + 64]:
        i += 64
    while i < n and a[i:i + 2] == b[i:i + 2]:
        i += 2
    return {"offset": i // 2, "model": a[i:i + 32], "library": b[i:i + 32], "len_model": len(a) // 2, "len_library": len(b) // 2}


def run_lib(tools_k1, casefile, items, model, batches, variants=None, eps=None, detail=False, timeout=1500):
    """Run a case file through k1_algo for each batch size and evaluate.
    Returns (stats, problems): problems = [{id, groups:[{paths, outcome(small|full), bad}], n_paths}]"""
    byid = {it["id"]: it for it in items}
    per_item = {it["id"]: {} for it in items}      # id -> {key: [outcome, [paths]]}
    npaths = collections.Counter()
    stats = collections.Counter()
    env = dict(os.environ)
    env.update(common.lib_env())
    for batch in batches:
        cmd = [tools_k1, casefile, "--batch", str(batch)]
        if variants:
            cmd += ["--variants", ",".join(variants)]
        if eps is not None:
            cmd += ["--eps", ",".join(str(e) for e in eps)]
        p = subprocess.Popen(cmd, stdout=subprocess.PIPE, stderr=subprocess.DEVNULL, env=env, text=True, bufsize=1 << 20)
        t_end = time.time() + timeout
        for line in p.stdout:
            t = line.rstrip("\n").split(" ")
            if len(t) < 4 or not t[0].startswith("id="):
                continue
            iid = int(t[0][3:])
            var = t[1][4:]
            ep = int(t[2][3:])
            if t[3].startswith("skip="):
                stats["skip_" + t[3][5:]] += 1
                continue
            if t[3] == "CRASH":
                key = ("crash", t[4])
                o = {"crash": t[4][4:], "status": -9}
            else:
                st = int(t[3][7:])
                if st < 0:
                    stats["not_run"] += 1       # harness refused (range / key preparation)
                    continue
                niv = t[9][4:] if len(t) > 9 else None
                dst = t[5][4:]
                tg = t[6][4:]
                if dst == "-":
                    dst = ""
                if tg == "-":
                    tg = ""
                key = (st, t[4], dst, tg, t[7], t[8], niv)
                o = None
            stats["results"] += 1
            stats["var_" + var] += 1
            stats["ep_%d" % ep] += 1
            g = per_item[iid]
            e = g.get(key)
            if e is None:
                if o is None:
                    o = {"status": key[0], "errno": int(key[1][6:]), "dst": key[2], "tag": key[3], "canary": key[4][7:],
                         "src": key[5][4:], "niv": key[6]}
                g[key] = e = [o, []]
            e[1].append((var, ep, batch))
            npaths[iid] += 1
            if time.time() > t_end:
                p.kill()
                break
        p.wait()
    problems = []
    for iid, g in per_item.items():
        it = byid[iid]
        m = model.get(iid)
        if not g:
            stats["items_without_result"] += 1
            continue
        groups = []
        anybad = False
        done = 0
        for key, (o, paths) in g.items():
            bad = compare_outcome(o, m, it)
            if o.get("status") == 3:
                done += len(paths)
            elif o.get("status") == 4:
                stats["rejected_results"] += len(paths)
            if bad:
                anybad = True
            groups.append((o, paths, bad))
        stats["completed_results"] += done
        if m is None:
            stats["unmodelled_items"] += 1
        if not anybad and len(groups) == 1:
            if done:
                stats["items_agree"] += 1
            else:
                stats["items_rejected_everywhere"] += 1
            continue
        # checked entry points reject / unchecked skip: several groups only if outcomes really differ
        rec = {"id": iid, "n_paths": npaths[iid], "groups": []}
        for o, paths, bad in groups:
            small = {k: o.get(k) for k in ("status", "errno", "canary", "src", "crash")}
            if m is not None and o.get("status") == 3:
                if "dst" in bad or "dst-loose" in bad:
                    small["dst_diff"] = first_diff(m["dst"], o["dst"])
                if "tag" in bad:
                    small["tag_model"], small["tag_library"] = m["tag"], o["tag"]
                if "niv" in bad:
                    small["niv_model"], small["niv_library"] = m["niv"], o.get("niv")
            if detail:
                small["dst"], small["tag"], small["niv"] = o.get("dst"), o.get("tag"), o.get("niv")
            else:
                small["tag"] = o.get("tag")
                small["dst_digest"] = hash(o.get("dst")) & 0xffffffff
            rec["groups"].append({"paths": paths, "bad": bad, "outcome": small})
        problems.append(rec)
    return dict(stats), problems


def _lib_worker(args):
    """one chunk: model (unless supplied) + library on every path + comparison"""
    k1, drv, casefile, items, model, batches = args
    if model is None:
        model = parse_model_output(_run_driver((drv, casefile, 0, 1)), {})
        missing = [it["id"] for it in items if it["id"] not in model]
        if missing:
            raise RuntimeError("model driver produced no line for items %s" % missing[:5])
    st, pr = run_lib(k1, casefile, items, model, batches)
    flags = {it["id"]: (model.get(it["id"]) is not None, is_nontrivial(it, model.get(it["id"]))) for it in items}
    return st, pr, flags


# ------------------------------------------------------------------------------------------------
# classification
# ------------------------------------------------------------------------------------------------
def path_classes(bad, allp):
    vb, va = {p[0] for p in bad}, {p[0] for p in allp}
    if vb == va:
        vs = "all"
    else:
        parts = []
        for fam in FAMILIES:
            fa = {v for v in va if v.startswith(fam + ":")}
            fb = {v for v in vb if v.startswith(fam + ":")}
            if fb and fb == fa:
                parts.append(fam)
            else:
                parts += sorted(fb)
        vs = "+".join(parts)
    eb, ea = {p[1] for p in bad}, {p[1] for p in allp}
    es = "all" if eb == ea else ".".join(str(e) for e in sorted(eb))
    bb, ba = {p[2] for p in bad}, {p[2] for p in allp}
    if bb == ba or (1 in bb and len(bb) > 1):
        bs = "any"
    elif bb == {1}:
        bs = "1"
    else:
        bs = ">1"
    return vs, es, bs


def classify(rec, it, m):
    """One problem record -> list of disagreement dicts (attrs + description)."""
    groups = rec["groups"]
    allp = [p for g in groups for p in g["paths"]]
    out = []
    badg = [g for g in groups if g["bad"]]
    okg = [g for g in groups if not g["bad"]]
    base = dict(cipher=it["cipher"], hash=it["hash"], dir=it["dir"], order=it["order"], tag=it["tag"], klen=len(it["key"]),
                ivlen=len(it["iv"]), aadlen=len(it["aad"]), clen=it["clen"], hlen=it["hlen"], coff=it["coff"],
                hoff=it["hoff"], inplace=it["inplace"])
    if it["hash"] == 21:
        # DOCSIS frame geometry: standard = a CRC is defined (>= 14 hashed bytes), the ciphered range starts inside the
        # frame and ends exactly behind the 4 CRC bytes that follow the hashed range, and holds more than the CRC
        std = (it["hlen"] >= 14 and it["coff"] >= it["hoff"] and it["coff"] + it["clen"] == it["hoff"] + it["hlen"] + 4
               and it["clen"] > 4)
        # fewer than 14 hashed bytes: no CRC is defined, the job is the cipher alone (only the tag bytes are unspecified)
        base["geom"] = "std" if (std or it["cipher"] != 4) else ("nocrc" if it["hlen"] < 14 else "nonstd")
    if badg:
        if len(groups) == 1:
            cls = "a"
        elif okg:
            cls = "b"
        else:
            cls = "ab"
        # merge bad groups with the same field set
        byf = collections.OrderedDict()
        for g in badg:
            byf.setdefault("+".join(sorted(g["bad"])), []).append(g)
        for fld, gs in byf.items():
            paths = [p for g in gs for p in g["paths"]]
            vs, es, bs = path_classes(paths, allp)
            a = dict(base)
            a.update({"class": cls, "vars": vs, "eps": es, "batch": bs, "field": fld})
            out.append({"attrs": a, "id": it["id"], "paths": paths, "outcome": gs[0]["outcome"], "n_paths": len(allp),
                        "modelled": m is not None})
    if not badg and len(groups) > 1:
        # the model has no objection (unmodelled item, unspecified tag bytes or rejected/accepted
        # mix) but the paths disagree among themselves: the minority outcomes are the suspects
        groups_sorted = sorted(groups, key=lambda g: -len(g["paths"]))
        ref = groups_sorted[0]
        r = ref["outcome"]

        def fld_of(o):
            if o.get("status") != r.get("status"):
                return "status"
            if o.get("tag") != r.get("tag") and o.get("dst_digest", o.get("dst")) == r.get("dst_digest", r.get("dst")):
                return "tag-unspec" if m is not None else "tag"
            return "dst-unmodelled" if m is None else "dst"
        byf = collections.OrderedDict()
        for g in groups_sorted[1:]:
            byf.setdefault(fld_of(g["outcome"]), []).append(g)
        for fld, gs in byf.items():
            paths = [p for g in gs for p in g["paths"]]
            if len(gs) > 1:
                # many different values (left-over register contents and the like): one disagreement
                vs, es, bs = "mixed", "mixed", "any"
            else:
                vs, es, bs = path_classes(paths, allp)
            a = dict(base)
            a.update({"class": "b", "vars": vs, "eps": es, "batch": bs, "field": fld})
            out.append({"attrs": a, "id": it["id"], "paths": paths, "outcome": gs[0]["outcome"], "n_paths": len(allp),
                        "modelled": m is not None, "majority_outcome": r, "distinct_outcomes": len(groups)})
    return out


def group_key(a):
    """Attribution used to group disagreements into findings: a wrong destination is charged to the
    cipher whatever hash is chained behind it (a wrong tag is then only a consequence), a wrong tag
    over a correct destination to the hash; the entry point class is dropped because with several
    jobs in flight it depends on lane timing."""
    f = a["field"]
    if f.startswith("dst") or "+dst" in f or f.startswith("canary") or f.startswith("crash") or f == "niv" or "src" in f:
        who = "cipher=%d" % a["cipher"] if a["cipher"] != C_NULL else "hash=%d" % a["hash"]
    elif f.startswith("status"):
        who = "cipher=%d,hash=%d" % (a["cipher"], a["hash"])
    else:
        who = "hash=%d" % a["hash"] if a["hash"] != H_NULL else "cipher=%d" % a["cipher"]
    core = "dst" if ("dst" in f.split("+")) else f
    return "%s,class=%s,vars=%s,batch=%s,field=%s" % (who, a["class"], a["vars"], a["batch"], core)


def signature(a):
    return "cipher=%d,hash=%d,class=%s,vars=%s,eps=%s,batch=%s,field=%s" % (
        a["cipher"], a["hash"], a["class"], a["vars"], a["eps"], a["batch"], a["field"])


def parse_known(pid):
    out = []
    for kind, line in common.known_findings(pid):
        if kind != "known":
            continue
        key = None
        for t in line.split():
            if t.startswith("key="):
                key = t[4:]
        if key is None:
            continue
        cons = []
        for c in key.split(","):
            if "=" not in c:
                continue
            k, v = c.split("=", 1)
            cons.append((k, v))
        out.append((cons, line))
    return out


def known_match(cons, attrs):
    for k, v in cons:
        if k not in attrs:
            return False
        x = attrs[k]
        ok = False
        for alt in v.split("|"):
            if ".." in alt and not isinstance(x, str):
                lo, hi = alt.split("..", 1)
                try:
                    if int(lo) <= int(x) <= int(hi):
                        ok = True
                except ValueError:
                    pass
            elif str(x) == alt:
                ok = True
        if not ok:
            return False
    return True


# ------------------------------------------------------------------------------------------------
# minimisation
# ------------------------------------------------------------------------------------------------
def block_unit(it):
    c = it["cipher"]
    if c in (1, 12, 17, 24, 25, 26):
        return 16
    if c in (7, 10):
        return 8
    return 1


def resize(it, n):
    """copy of the item with its primary length set to n (unit of that length); None if not resizable"""
    c, h = it["cipher"], it["hash"]
    if c in (4, 11) and h in (19, 21):
        return None
    new = dict(it)
    if c != C_NULL:
        old = it["clen"]
        if n >= old:
            return None
        new["clen"] = n
        if h != H_NULL and h not in BIT_HASHES and c not in BIT_CIPHERS:
            if it["hlen"] == old and it["hoff"] == it["coff"]:
                new["hlen"] = n
            elif it["hoff"] + it["hlen"] == it["coff"] + old:
                new["hlen"] = it["coff"] + n - it["hoff"]
    else:
        if n >= it["hlen"]:
            return None
        new["hlen"] = n
    cend = 0
    if c != C_NULL:
        if c in BITOFF_CIPHERS:
            cend = (new["coff"] + new["clen"] + 7) // 8
        elif c in BIT_CIPHERS:
            cend = new["coff"] + (new["clen"] + 7) // 8
        else:
            cend = new["coff"] + new["clen"]
    hend = 0
    if h != H_NULL:
        hend = new["hoff"] + ((new["hlen"] + 7) // 8 if h in BIT_HASHES else new["hlen"])
    need = max(cend, hend)
    if need > len(it["msg"]):
        return None
    new["msg"] = it["msg"][:need]
    return new


def shrink_candidates(it):
    u = block_unit(it)
    n0 = it["clen"] if it["cipher"] != C_NULL else it["hlen"]
    ks = [1, 2, 3, 4, 5, 6, 7, 8, 9, 12, 15, 16, 17, 24, 31, 32, 33, 48, 63, 64, 65, 96, 127, 128, 129, 192, 255, 256, 257,
          511, 512, 513, 1023, 1024, 1025, 2048, 4095, 4096, 4097, 8192, 16384]
    cand = sorted({k * u for k in ks if k * u < n0} | {(n0 // 2) // u * u, (n0 * 3 // 4) // u * u})
    return [c for c in cand if 0 < c < n0 or (c == 0 and it["cipher"] == C_NULL)]


class Engine:
    def __init__(self, pid, tier, seed, tools=None):
        self.pid, self.tier, self.seed = pid, tier, seed
        self.tools = tools or Tools()
        self.batches = (1, 16) if tier == "quick" else (1, 5, 32)
        self.stats = collections.Counter()
        self.uid = 0

    # -- running -------------------------------------------------------------------------------
    def write_cases(self, items, name):
        path = os.path.join(self.tools.work, "%s_%s_%d.txt" % (self.pid, name, os.getpid()))
        with open(path, "w") as f:
            for it in items:
                f.write(item_line(it) + "\n")
        return path

    def run_all(self, items, model=None):
        """model + library side over many contiguous chunks (so that batches hold consecutive items),
        scheduled dynamically on NSHARD worker processes, most expensive chunks first"""
        def cost(it):
            c = model_cost(it)
            if it["cipher"] in (7, 8, 10):       # C implementation on SSE/AVX2: the library is slow too
                c *= 3 if it["cipher"] == 10 else 2
            return c
        total = sum(cost(it) for it in items) or 1
        per = total / (6 * NSHARD)
        shards, cur, acc = [], [], 0
        for it in items:
            cur.append(it)
            acc += cost(it)
            if acc >= per and len(cur) >= 32:
                shards.append((acc, cur))
                cur, acc = [], 0
        if cur:
            shards.append((acc, cur))
        self.shards = [sh for _, sh in shards]
        self.shard_of = {}
        for i, sh in enumerate(self.shards):
            for pos, it in enumerate(sh):
                self.shard_of[it["id"]] = (i, pos)
        jobs = []
        for i, (c, sh) in enumerate(shards):
            path = self.write_cases(sh, "lib%d" % i)
            mm = None if model is None else {it["id"]: model.get(it["id"]) for it in sh}
            jobs.append((c, (self.tools.k1, self.tools.drv, path, sh, mm, self.batches)))
        jobs.sort(key=lambda j: -j[0])
        problems = []
        self.flags = {}
        with cf.ProcessPoolExecutor(max_workers=min(NSHARD, len(jobs) or 1)) as ex:
            for st, pr, fl in ex.map(_lib_worker, [j[1] for j in jobs]):
                self.stats.update(st)
                problems += pr
                self.flags.update(fl)
        for j in jobs:
            try:
                os.remove(j[1][2])
            except OSError:
                pass
        return problems

    def run_detail(self, items, batch, variants=None, eps=None, model=None):
        """small re-run with full outcomes (minimiser, replay)"""
        self.uid += 1
        if model is None:
            model = run_model(self.tools, items, tag="d%d" % self.uid)
        path = self.write_cases(items, "det%d" % self.uid)
        try:
            st, pr = run_lib(self.tools.k1, path, items, model, (batch,), variants, eps, detail=True, timeout=300)
        finally:
            os.remove(path)
        return model, pr

    # -- minimisation --------------------------------------------------------------------------
    def reproduces(self, dis_list, want):
        """same algorithm and same differing fields (the variant class changes when fewer variants run)"""
        for d in dis_list:
            a = d["attrs"]
            if all(a[k] == want[k] for k in ("cipher", "hash", "field")):
                return d
        return None

    def eval_items(self, items, batch, variants, eps):
        model, pr = self.run_detail(items, batch, variants, eps)
        byid = {it["id"]: it for it in items}
        dis = []
        for rec in pr:
            dis += classify(rec, byid[rec["id"]], model.get(rec["id"]))
        return model, pr, dis

    def minimise(self, d, byid, budget_s=25):
        """shorter message, fewer jobs in flight; returns (items, batch, variants, eps, model, problems, disagreement)"""
        t0 = time.time()
        it = byid[d["id"]]
        a = d["attrs"]
        bad_vars = sorted({p[0] for p in d["paths"]})
        bad_eps = sorted({p[1] for p in d["paths"]})
        # one failing variant + one that agrees (if any) is enough to show class b
        allv = self.tools.variants
        good = [v for v in allv if v not in bad_vars]
        variants = bad_vars[:1] + good[:1] if a["class"] != "a" else bad_vars[:2]
        eps = bad_eps[:2] if a["eps"] != "all" else [bad_eps[0]]
        if a["eps"] != "all" and 0 not in eps:
            eps = [0] + eps
        want = dict(a)
        batch = 1
        ctx = [it]
        if a["batch"] == ">1":
            bsz = max(b for (_, _, b) in d["paths"])
            si, pos = self.shard_of[it["id"]]
            lo = pos - pos % bsz
            mates = self.shards[si][lo:lo + bsz]
            batch = len(mates)
            ctx = mates
            # fewer jobs: the item with one neighbour
            for other in [m for m in mates if m["id"] != it["id"]][:6]:
                pair = [other, it] if other["id"] < it["id"] else [it, other]
                for pr_ in (pair, pair[::-1]):
                    _, _, dis = self.eval_items(pr_, 2, variants, eps)
                    if self.reproduces([x for x in dis if x["id"] == it["id"]], want):
                        ctx, batch = pr_, 2
                        break
                if batch == 2 or time.time() - t0 > budget_s / 2:
                    break
        # shorter lengths (all candidates in one run; each candidate group = one batch)
        improved = True
        rounds = 0
        while improved and rounds < 3 and time.time() - t0 < budget_s:
            improved = False
            rounds += 1
            target = [x for x in ctx if x["id"] == it["id"]][0]
            cands = shrink_candidates(target)[:24]
            if not cands:
                break
            trial, groups = [], []
            nid = 900000
            for n in cands:
                grp = []
                for x in ctx:
                    # the target gets length n; its batch mates a different small length
                    y = resize(x, n if x["id"] == it["id"] else n + block_unit(x))
                    if y is None:
                        y = dict(x)
                    y = dict(y)
                    y["_orig"] = x["id"]
                    y["id"] = nid
                    nid += 1
                    grp.append(y)
                groups.append((n, grp))
                trial += grp
            _, _, dis = self.eval_items(trial, batch, variants, eps)
            for n, grp in groups:
                tid = [y["id"] for y in grp if y["_orig"] == it["id"]][0]
                if self.reproduces([x for x in dis if x["id"] == tid], want):
                    newctx = []
                    for y in grp:
                        z = dict(y)
                        z["id"] = z.pop("_orig")
                        newctx.append(z)
                    ctx = newctx
                    it = [x for x in ctx if x["id"] == it["id"]][0]
                    improved = True
                    break
        model, pr, dis = self.eval_items(ctx, batch, variants, eps)
        dd = self.reproduces([x for x in dis if x["id"] == d["id"]], want)
        return ctx, batch, variants, eps, model, pr, dd


# ------------------------------------------------------------------------------------------------
# the check proper
# ------------------------------------------------------------------------------------------------
LEN_BUCKETS = [(0, 0), (1, 15), (16, 63), (64, 255), (256, 1023), (1024, 4095), (4096, 16383), (16384, 1 << 30)]


def length_hist(items):
    h = collections.OrderedDict(("%d-%d" % b if b[1] < (1 << 30) else "%d+" % b[0], 0) for b in LEN_BUCKETS)
    keys = list(h.keys())
    for it in items:
        n = max(cipher_bytes(it), hash_bytes(it))
        for i, (lo, hi) in enumerate(LEN_BUCKETS):
            if lo <= n <= hi:
                h[keys[i]] += 1
                break
    return h


def vector_obligations(test_files):
    """obligations when Props/Properties_<id>.v does not exist yet: the known-answer `Example`s of the
    Spec/*_Tests.v files (each one is checked by vm_compute when its .vo builds)"""
    import re
    names, per = [], {}
    for f in test_files:
        src = open(os.path.join(common.COQDIR, f)).read()
        ex = re.findall(r"^\s*(?:Example|Lemma|Theorem)\s+([A-Za-z0-9_']+)", src, re.M)
        per[f] = len(ex)
        names += ["%s:%s" % (os.path.basename(f)[:-2], e) for e in ex]
    ok, out = common.coq_make([f + "o" for f in test_files] + ["Struct/JobSem.vo"])
    discharged = 0
    failed = []
    for f in test_files:
        if os.path.exists(os.path.join(common.COQDIR, f + "o")) and \
                os.path.getmtime(os.path.join(common.COQDIR, f + "o")) >= os.path.getmtime(os.path.join(common.COQDIR, f)):
            discharged += per[f]
        else:
            failed.append("build of %so failed" % f)
    bad = common.forbidden_tokens()
    if bad:
        failed += ["forbidden token: " + b for b in bad[:10]]
    return {"obligations": len(names), "discharged": discharged if not bad else 0, "failed": failed,
            "theorems": names[:40] + (["... %d more" % (len(names) - 40)] if len(names) > 40 else []), "axioms": {},
            "log": out[-3000:]}


def run_check(pid, tier, seed, generate, derive=None, test_files=(), title="", trusted_extra=()):
    """generate(Gen, tier) fills the generator; derive(Gen, items, model) may add second-phase items
    (decrypt jobs fed the model ciphertext) and returns (new_items, selfcheck_failures)."""
    res = Result(pid, tier, seed, "proof")
    t_start = time.time()
    # replays of earlier runs of this check would be mistaken for findings of this one
    if os.path.isdir(common.REPLAYS):
        for f in os.listdir(common.REPLAYS):
            if f.startswith(pid + "_k1_") or f.startswith(pid + "_selfcheck_") or f == pid + "_unproved.json":
                try:
                    os.remove(os.path.join(common.REPLAYS, f))
                except OSError:
                    pass
    tools = Tools()
    eng = Engine(pid, tier, seed, tools)
    props = os.path.join(common.COQDIR, "Props", "Properties_%s.v" % pid)
    if os.path.exists(props):
        pres = common.props_check(pid)
        checker = "make -k Props/Properties_%s.vo (coqc 8.16.1) + Print Assumptions" % pid
    else:
        pres = vector_obligations(list(test_files))
        checker = ("make -k %s Struct/JobSem.vo (coqc 8.16.1; Props/Properties_%s.v not written yet: the obligations are the "
                   "known-answer Examples of the Spec test files, each closed by vm_compute; reflexivity)"
                   % (" ".join(f + "o" for f in test_files), pid))
    common.proof_coverage(res, pres, checker,
                          ["Coq 8.16.1 kernel incl. vm_compute (the vector Examples are computations)",
                           "coq/Spec/*.v + coq/Struct/JobSem.v as transcriptions of the published algorithms and of the documented job API",
                           "extraction (ExtrOcamlBasic only) + ocaml/k1_driver.ml",
                           "harness/k1_algo.c + imbh.c (buffers, key preparation with the library's own helpers, canaries)",
                           "checks/k1.py (generation, comparison, classification)"] + list(trusted_extra))
    t_build = time.time() - t_start
    rng = Rng(seed)
    gen = Gen(rng)
    generate(gen, tier)
    items = gen.items
    t0 = time.time()
    model = None
    selfcheck = []
    if derive is not None:
        model = run_model(tools, items, tag="p1")
        n0 = len(items)
        derive(gen, items, model)
        new = gen.items[n0:]
        if new:
            model.update(run_model(tools, new, tag="p2"))
        items = gen.items
        # inside the model: the decrypt job over the model ciphertext restores the plaintext and
        # outputs the identical tag (the property's second sentence, checked on the model itself)
        first = {it["id"]: it for it in items}
        for it in new:
            e = first.get(it.get("_enc_of"))
            md, me = model.get(it["id"]), model.get(it.get("_enc_of"))
            if e is None or md is None or me is None:
                continue
            if md["tag"] != me["tag"]:
                selfcheck.append({"enc_id": e["id"], "dec_id": it["id"], "what": "decrypt tag differs from encrypt tag",
                                  "enc_tag": me["tag"], "dec_tag": md["tag"]})
            if it.get("_roundtrip"):
                lo, hi = it["_roundtrip"]
                d0 = e.get("doff") if e.get("doff") is not None else e["coff"]
                want = e["msg"][e["coff"]:e["coff"] + (hi - lo)].hex()
                got = md["dst"][2 * d0:2 * (d0 + hi - lo)]
                if want != got:
                    selfcheck.append({"enc_id": e["id"], "dec_id": it["id"], "what": "decrypt(encrypt(m)) differs from m"})
    t_model = time.time() - t0
    byid = {it["id"]: it for it in items}
    t0 = time.time()
    problems = eng.run_all(items, model)
    t_lib = time.time() - t0

    # ---- classification ----
    dis = []
    for rec in problems:
        dis += classify(rec, byid[rec["id"]], {} if eng.flags.get(rec["id"], (False,))[0] else None)
    known = parse_known(pid)
    known_hits = collections.Counter()
    groups = collections.OrderedDict()
    for d in dis:
        hit = None
        for cons, line in known:
            if known_match(cons, d["attrs"]):
                hit = line
                break
        if hit:
            known_hits[hit] += 1
            continue
        groups.setdefault(group_key(d["attrs"]), []).append(d)
    for line, n in known_hits.items():
        res.known.append("%s [matched %d disagreeing items in this run]" % (line.split(" ", 1)[1] if " " in line else line, n))

    # ---- statistics / evidence ----
    per_algo = collections.Counter(algo_name(it["cipher"], it["hash"]) for it in items)
    per_stream = collections.Counter(it["_stream"] for it in items)
    nontrivial = set()
    modelled = 0
    for it in items:
        fm, fn = eng.flags.get(it["id"], (False, False))
        modelled += 1 if fm else 0
        if fn:
            nontrivial.add(distinct_key(it))
    sample_ids = sorted({items[0]["id"], items[len(items) // 3]["id"], items[-1]["id"]}) if items else []
    samples = []
    smodel = run_model(tools, [byid[i] for i in sample_ids], tag="s")
    for sid in sample_ids:
        it = byid[sid]
        line = item_line(it)
        m = smodel.get(sid)
        samples.append({"stream": it["_stream"], "work_item": line if len(line) < 900 else line[:900] + "...",
                        "model": None if m is None else {"dst": m["dst"][:96], "tag": m["tag"]}})
    st = eng.stats
    res.coverage.update({
        "evaluations": int(st.get("results", 0)),
        "distinct_nontrivial": len(nontrivial),
        "rule": "one evaluation = one work item run through one (variant, entry point, batch size) path of the rebuilt "
                "library and compared byte for byte (dst area, tag, CBCS next_iv, canaries, source intact) with the extracted "
                "Coq job model; items come from structured streams (dense length sweeps covering every residue mod 16 and "
                "every block-count residue of the by-N kernels, padding thresholds, counter-carry IVs, >4 KiB messages, "
                "offsets/alignments, accepted tag lengths, key classes), all drawn from Rng(seed). non-trivial = the model "
                "output differs from the untouched buffers (cipher changed the area / a MAC over >0 bytes); distinct by "
                "(cipher, hash, key/iv/aad lengths, direction, order, lengths, offsets, IV class, tag length, in/out of place)",
        "items": len(items), "items_modelled": modelled,
        "items_unmodelled": len(items) - modelled,
        "per_algorithm_items": dict(sorted(per_algo.items())),
        "per_stream_items": dict(sorted(per_stream.items())),
        "length_histogram_bytes": length_hist(items),
        "variants": tools.variants, "variant_table": tools.variant_table,
        "entry_points_results": {k[3:]: v for k, v in sorted(st.items()) if k.startswith("ep_")},
        "variant_results": {k[4:]: v for k, v in sorted(st.items()) if k.startswith("var_")},
        "batch_sizes": list(eng.batches),
        "completed_results": int(st.get("completed_results", 0)),
        "rejected_results": int(st.get("rejected_results", 0)),
        "skipped": {k[5:]: v for k, v in st.items() if k.startswith("skip_")},
        "items_agreeing_on_every_path": int(st.get("items_agree", 0)),
        "items_disagreeing": len({d["id"] for d in dis}),
        "disagreement_groups": {k: len(v) for k, v in groups.items()},
        "disagreement_signatures": dict(collections.Counter(signature(d["attrs"]) for v in groups.values() for d in v).most_common(60)),
        "known_finding_hits": sum(known_hits.values()),
        "model_selfcheck_failures": selfcheck[:10],
        "traces_validated_against_impl": int(st.get("completed_results", 0)),
        "samples": samples,
        "timing_s": {"build": round(t_build, 1), "model": round(t_model, 1), "library_and_compare": round(t_lib, 1)},
        "lib_build_s": round(tools.lib_build_s, 1),
    })
    res.assumptions = [
        "the model is the published algorithm + the documented API conventions (coq/Struct/K1_NOTES.md); the assembly kernels "
        "are tied to it only on the inputs explored here",
        "work items the model does not define (unmodelled / unspecified) are only checked for agreement between paths",
        "destination bits beyond the last message bit of a bit-length cipher job and tag bytes the documentation leaves "
        "undefined are excluded from the model comparison (but not from the path-vs-path comparison)"]

    # ---- verdicts ----
    for f in pres["failed"]:
        log("proof obligation failed:", f)
    for s in selfcheck[:5]:
        res.violation({"property": pid, "kind": "model self-check failed (decrypt(encrypt) round trip inside the model)", "detail": s,
                       "seed": seed}, note="model-selfcheck " + str(s)[:120], name="selfcheck_%d" % len(res.violations))
    t_min0 = time.time()
    budget = 40 if tier == "quick" else 240
    for sig, ds in groups.items():
        # smallest example first, preferring items without a second algorithm chained in
        ds.sort(key=lambda d: (byid[d["id"]]["cipher"] != C_NULL and byid[d["id"]]["hash"] != H_NULL,
                               len(byid[d["id"]]["msg"]), d["id"]))
        d = ds[0]
        sigs = collections.Counter(signature(x["attrs"]) for x in ds)
        a = d["attrs"]
        it = byid[d["id"]]
        ctx, batch, variants, eps, mm, pr, dd = [it], max(p[2] for p in d["paths"]), None, None, None, None, None
        if time.time() - t_min0 < budget:
            try:
                ctx, batch, variants, eps, mm, pr, dd = eng.minimise(d, byid)
            except Exception as ex:      # never lose a finding because the shrinker tripped
                log("minimiser failed for %s: %r" % (sig, ex))
                ctx, batch, variants, eps, mm, pr, dd = [it], max(p[2] for p in d["paths"]), None, None, None, None, None
        if mm is None:
            if a["batch"] == ">1":
                si, pos = eng.shard_of[it["id"]]
                lo = pos - pos % batch
                ctx = eng.shards[si][lo:lo + batch]
            mm, pr = eng.run_detail(ctx, batch, None, None)
        what = {"a": "ALL variants and entry points agree with each other but not with the model: suspect a spec/model bug "
                     "(triage before recording a library finding)",
                "b": "paths disagree: library defect on the listed paths (the other paths agree with the model)",
                "ab": "no path agrees with the model AND the paths disagree among themselves"}[a["class"]]
        if not d["modelled"] or a["field"] in ("tag-unspec", "dst-unmodelled"):
            what = "paths disagree among themselves on an item/bytes the model leaves unspecified: " \
                   "implementation-dependent output"
        if a["field"] == "dst-loose":
            what = "UNDOCUMENTED CORNER: differs from the model only in destination bits beyond the last message bit " \
                   "(the standard and the header are silent there); " + what
        target = [x for x in ctx if x["id"] == d["id"]][0]
        replay = {
            "property": pid, "kind": "K1 disagreement", "class": a["class"], "group": sig, "signature": signature(a),
            "signatures_in_group": dict(sigs.most_common(12)), "meaning": what,
            "attrs": a, "items_in_this_run_with_this_signature": len(ds),
            "other_item_ids": [x["id"] for x in ds[1:20]],
            "batch": batch, "variants": variants or "all", "eps": eps if eps is not None else "all",
            "work_items": [item_line(x) for x in ctx], "failing_item_id": d["id"],
            "expected_model": {str(k): (None if v is None else {"dst": v["dst"], "tag": v["tag"], "niv": v["niv"], "loose": v["loose"]})
                               for k, v in (mm or {}).items()},
            "observed": [{"id": r["id"], "groups": r["groups"]} for r in (pr or [])],
            "first_observation": {"paths": d["paths"][:12], "outcome": d["outcome"]},
            "reproduced_after_minimisation": dd is not None,
            "seed": seed, "tier": tier,
        }
        note = "%s [%s] %s len=%d items=%d :: %s" % (sig, signature(a), algo_name(a["cipher"], a["hash"]),
                                                max(cipher_bytes(target), hash_bytes(target)), len(ds), what.split(":")[0])
        res.violation(replay, note=note, name="k1_%s_%d" % (a["class"], len(res.violations)))
    broken = pres["discharged"] != pres["obligations"] or pres["failed"] or pres["obligations"] == 0
    if broken and not res.violations:
        res.violation({"property": pid, "seed": seed, "broken_obligations": pres["failed"], "proof_log_tail": pres["log"][-2000:],
                       "note": "an obligation no longer checks; the differential run found no disagreeing input"},
                      note="no-failing-input-found", name="unproved")
    res.coverage["timing_s"]["minimise"] = round(time.time() - t_min0, 1)
    return res.finish()


def replay(pid, path):
    rp = json.load(open(path))
    if "work_items" not in rp:
        print(json.dumps(rp, indent=1)[:2000])
        return 1
    tools = Tools()
    eng = Engine(pid, "quick", rp.get("seed", 1), tools)
    items = [item_from_line(l) for l in rp["work_items"]]
    variants = None if rp.get("variants") in (None, "all") else rp["variants"]
    eps = None if rp.get("eps") in (None, "all") else rp["eps"]
    model, pr = eng.run_detail(items, int(rp.get("batch", 1)), variants, eps)
    byid = {it["id"]: it for it in items}
    dis = []
    for rec in pr:
        dis += classify(rec, byid[rec["id"]], model.get(rec["id"]))
    out = []
    for d in dis:
        out.append({"id": d["id"], "signature": signature(d["attrs"]), "paths": d["paths"][:8], "outcome": d["outcome"]})
    print(json.dumps({"disagreements": out, "model": {str(k): (v and {"dst": v["dst"][:128], "tag": v["tag"]}) for k, v in model.items()}},
                     indent=1, default=str))
    return 1 if dis else 0


# ------------------------------------------------------------------------------------------------
# generator streams (DESIGN.md C01/C02/C03 "Enumerated / generated")
# ------------------------------------------------------------------------------------------------
# boundary message lengths in bytes; the first twelve are the ones beyond 4 KiB (counter low byte /
# low word carries of the by-N CTR kernels), so that a round-robin over <= 12 parameter
# combinations gives each of them one
BOUNDARY_QUICK = [4096, 4097, 4095, 4112, 4111, 4080, 8192, 8191, 8193, 16384, 16383, 16385,
                  1023, 1024, 1025, 2047, 2048, 2049]
BOUNDARY_THOROUGH = BOUNDARY_QUICK + list(range(4081, 4095)) + list(range(4098, 4111)) + \
    [32767, 32768, 32769, 65519, 65520, 65521, 65533, 65534]
WEAK_DES_KEYS = [bytes.fromhex(x) for x in ("0101010101010101", "fefefefefefefefe", "e0e0e0e0f1f1f1f1", "1f1f1f1f0e0e0e0e",
                                            "0000000000000000", "ffffffffffffffff", "01fe01fe01fe01fe", "e001e001f101f101")]
SRC_OFFSETS = [0, 0, 0, 1, 2, 3, 15, 16, 17]


def dense_lengths(tier, unit=16, lmax=1057, lo=1):
    """stream modes: every length lo..lmax (thorough) or a stratified sample that still holds every
    residue mod unit and every block-count residue mod 4/8/16/32 (quick)"""
    if tier != "quick":
        return list(range(lo, lmax + 1))
    s = set(range(lo, 5 * unit + 1))
    k = 5
    while unit * k + (k % unit) <= lmax:
        s.add(unit * k + (k % unit))
        k += 1
    return sorted(x for x in s if x >= lo)


def block_lengths(blk, lmax=1057):
    return [blk * k for k in range(1, lmax // blk + 1)]


def boundaries(tier, blk=1, maxlen=65534, minlen=1):
    b = BOUNDARY_QUICK if tier == "quick" else BOUNDARY_THOROUGH
    out = []
    for x in b:
        x = x // blk * blk
        if minlen <= x <= maxlen and x not in out:
            out.append(x)
    if maxlen < 65534 and maxlen not in out:
        out += [v for v in (maxlen - blk, maxlen) if v >= minlen and v not in out]
    return out


def special_key(g, klen, n, des=False):
    """key classes: mostly random, now and then all-zero / all-one / weak DES"""
    if des:
        if n % 9 == 4:
            w = WEAK_DES_KEYS[(n // 9) % len(WEAK_DES_KEYS)]
            return (w * 3)[:klen]
        return g.rnd(klen)
    if n % 23 == 7:
        return bytes(klen)
    if n % 29 == 11:
        return b"\xff" * klen
    return g.rnd(klen)


def be(n, v):
    return (v % (1 << (8 * n))).to_bytes(n, "big")


# ---- cipher-only ---------------------------------------------------------------------------
# code: (key lengths, iv lengths, block, maxlen bytes, min len, des)
CIPHER_SPECS = {
    1: ([16, 24, 32], [16], 16, 65520, 16),
    12: ([16, 24, 32], [0], 16, 65520, 16),
    26: ([16, 24, 32], [16], 16, 65520, 16),
    2: ([16, 24, 32], [12, 16], 1, 65534, 1),
    4: ([16, 32], [16], 1, 65534, 1),
    7: ([8], [8], 8, 65528, 8),
    10: ([24], [8], 8, 65528, 8),
    8: ([8], [8], 1, 65534, 1),
    18: ([32], [12], 1, 65534, 1),
    21: ([32], [16], 1, 65534, 1),
    24: ([16], [0], 16, 65520, 16),
    25: ([16], [16], 16, 65520, 16),
    27: ([16], [12, 16], 1, 65534, 1),
}


def add_cipher_item(g, c, klen, ivlen, d, n, stream, coff=0, key=None, iv=None, ivcls="rnd", hash=H_NULL, **kw):
    key = key if key is not None else special_key(g, klen, g.n, des=c in (7, 8, 10))
    iv = iv if iv is not None else g.rnd(ivlen)
    tail = g.rng.below(4)
    msg = g.rnd(coff + n + tail)
    return g.add(c, hash, stream, dir=d, key=key, iv=iv, msg=msg, coff=coff, clen=n, ivcls=ivcls, **kw)


def gen_byte_cipher(g, tier, c):
    keys, ivs, blk, maxlen, minlen = CIPHER_SPECS[c]
    name = CIPHER_NAMES[c]
    unit = 64 if c == 18 else 16
    lmax = 2081 if c == 18 else 1057
    combos = [(k, i, d) for k in keys for i in ivs for d in (1, 2)]
    dense = block_lengths(blk, lmax) if blk > 1 else dense_lengths(tier, unit, lmax)
    for (k, i, d) in combos:
        for j, n in enumerate(dense):
            coff = SRC_OFFSETS[(j + k + d) % len(SRC_OFFSETS)] if j % 5 == 2 else 0
            add_cipher_item(g, c, k, i, d, n, "%s/dense" % name, coff=coff)
    bl = boundaries(tier, blk, maxlen, minlen)
    if tier == "quick":
        for j, n in enumerate(bl):
            k, i, d = combos[j % len(combos)]
            add_cipher_item(g, c, k, i, d, n, "%s/boundary" % name, coff=SRC_OFFSETS[j % len(SRC_OFFSETS)])
    else:
        for (k, i, d) in combos:
            for j, n in enumerate(bl):
                add_cipher_item(g, c, k, i, d, n, "%s/boundary" % name, coff=SRC_OFFSETS[j % len(SRC_OFFSETS)])
    if c in (4, 21):     # zero-length message is accepted
        for (k, i, d) in combos:
            add_cipher_item(g, c, k, i, d, 0, "%s/empty" % name)


def gen_ctr_carry(g, tier, c):
    """counter-carry IVs for the 32-bit counter modes (CNTR, SM4_CNTR): ffffffff-k in the last word,
    ff-k in the last byte, all-zero, all-one"""
    keys = CIPHER_SPECS[c][0]
    name = CIPHER_NAMES[c]
    ks = list(range(0, 33)) + [255, 256]
    for j, k in enumerate(ks):
        kl = keys[j % len(keys)]
        for d in ((1, 2) if tier != "quick" else ((1 + j % 2),)):
            iv = g.rnd(12) + be(4, 0xffffffff - k)
            # the wrap happens inside the message, and the message ends a few blocks later
            for n in ((k + 3) * 16 + 5, (k + 1) * 16, (k + 34) * 16 + 1):
                add_cipher_item(g, c, kl, 16, d, n, "%s/ctr32-carry" % name, iv=iv, ivcls="ffffffff-%d" % k)
    for k in range(0, 9):
        iv = g.rnd(15) + bytes([0xff - k])
        add_cipher_item(g, c, keys[k % len(keys)], 16, 1 + k % 2, (k + 3) * 16 + 7, "%s/ctr8-carry" % name, iv=iv, ivcls="ff-%d" % k)
        iv = g.rnd(14) + b"\xff" + bytes([0xff - k])
        add_cipher_item(g, c, keys[k % len(keys)], 16, 1 + k % 2, (k + 20) * 16 + 3, "%s/ctr16-carry" % name, iv=iv, ivcls="ffff-%d" % k)
    for kl in keys:
        add_cipher_item(g, c, kl, 16, 1, 100, "%s/iv-const" % name, iv=bytes(16), ivcls="zero")
        add_cipher_item(g, c, kl, 16, 2, 100, "%s/iv-const" % name, iv=b"\xff" * 16, ivcls="ones")
        add_cipher_item(g, c, kl, 12, 1, 100, "%s/iv-const" % name, iv=b"\xff" * 12, ivcls="ones12")


def bit_lengths(tier, maxbits):
    s = set(range(1, 131))
    for B in (64, 128, 512, 1024, 4096):
        for dlt in (range(-7, 8) if tier != "quick" else (-7, -3, -1, 0, 1, 2, 5)):
            s.add(B * 8 + dlt)
    for n in dense_lengths("quick", 16, 1057):
        s.add(8 * n)
    if tier != "quick":
        for n in range(1, 1058):
            s.add(8 * n - (n % 8))
    return sorted(x for x in s if 1 <= x <= maxbits)


def gen_cntr_bitlen(g, tier):
    keys = [16, 24, 32]
    for j, bits in enumerate(bit_lengths(tier, 65534 * 8)):
        for d in ((1, 2) if tier != "quick" or j % 4 == 0 else (1 + j % 2,)):
            kl = keys[j % 3]
            nb = (bits + 7) // 8
            coff = SRC_OFFSETS[j % len(SRC_OFFSETS)]
            msg = g.rnd(coff + nb + g.rng.below(3))
            g.add(13, H_NULL, "CNTR_BITLEN/bits", dir=d, key=special_key(g, kl, g.n), iv=g.rnd(16), msg=msg, coff=coff, clen=bits)
    for n in boundaries(tier, 1, 65534):
        j = n
        g.add(13, H_NULL, "CNTR_BITLEN/boundary", dir=1 + j % 2, key=g.rnd(keys[j % 3]), iv=g.rnd(16),
              msg=g.rnd(n + 1), coff=0, clen=8 * n - (j % 8))
    # 64-bit counter: carries out of the low 32 bits and wrap of the 64 bits
    for k in list(range(0, 10)) + [16, 32, 255, 256]:
        for hi in (b"\x00\x00\x00\x00", b"\xff\xff\xff\xff", g.rnd(4)):
            iv = g.rnd(8) + hi + be(4, 0xffffffff - k)
            n = (k + 3) * 16 + 5
            g.add(13, H_NULL, "CNTR_BITLEN/ctr64-carry", dir=1 + k % 2, key=g.rnd(keys[k % 3]), iv=iv, msg=g.rnd(n + 1),
                  clen=8 * n - (k % 8), ivcls="%s:ffffffff-%d" % (hi.hex(), k))


def gen_zuc_eea3(g, tier):
    for (kl, il) in ((16, 16), (32, 25), (32, 23)):
        for d in (1, 2):
            for j, n in enumerate(dense_lengths(tier, 16, 1057)):
                if tier == "quick" and (j + d) % 2 and n > 80:
                    continue
                add_cipher_item(g, 14, kl, il, d, n, "ZUC_EEA3/dense", coff=SRC_OFFSETS[j % len(SRC_OFFSETS)] if j % 5 == 2 else 0)
        for j, n in enumerate(boundaries(tier, 1, 8188)):
            add_cipher_item(g, 14, kl, il, 1 + j % 2, n, "ZUC_EEA3/boundary")


def gen_bit_stream_cipher(g, tier, c):
    """SNOW3G UEA2 / KASUMI F8: bit lengths x bit offsets 0..7 (+ byte offsets)"""
    name = CIPHER_NAMES[c]
    ivl = 16 if c == 15 else 8
    maxbits = 20000 if c == 16 else 65534 * 8
    for j, bits in enumerate(bit_lengths(tier, maxbits)):
        offs = range(0, 8) if (tier != "quick" or bits <= 20 or bits % 8 == 0 and bits <= 64) else ((j % 8), (j * 3 + 1) % 8)
        for ob in sorted(set(offs)):
            q = (j % 3) * (1 if j % 4 else 0)          # some whole bytes in front
            coff = 8 * q + ob
            nb = (coff + bits + 7) // 8
            msg = g.rnd(nb + g.rng.below(3))
            g.add(c, H_NULL, "%s/bits" % name, dir=1 + (j + ob) % 2, key=special_key(g, 16, g.n), iv=g.rnd(ivl), msg=msg,
                  coff=coff, clen=bits)
    for j, n in enumerate(boundaries(tier, 1, maxbits // 8)):
        ob = j % 8
        bits = 8 * n - ob - (j % 3)
        g.add(c, H_NULL, "%s/boundary" % name, dir=1 + j % 2, key=g.rnd(16), iv=g.rnd(ivl), msg=g.rnd(n + 2), coff=ob, clen=bits)
        g.add(c, H_NULL, "%s/boundary" % name, dir=1 + j % 2, key=g.rnd(16), iv=g.rnd(ivl), msg=g.rnd(n + 16), coff=8 * (j % 9), clen=8 * n)


def gen_cbcs(g, tier, keys=(16,), stream="CBCS_1_9", valid=True):
    for kl in keys:
        for d in (1, 2):
            for j, n in enumerate(block_lengths(16, 1057) + [160 * 10, 160 * 10 + 16, 160 * 26, 4096, 4112]):
                add_cipher_item(g, 17, kl, 16, d, n, "%s/dense" % stream, coff=16 * (j % 2) if j % 5 == 2 else 0, valid=valid)


CHAIN_HASHES = [(1, 20), (3, 32), (12, 16), (5, 64), (6, 12), (7, 16), (2, 14), (4, 24), (48, 32)]


def akey_for(g, h):
    if h in (1, 2, 3, 4, 5, 7, 48):
        return g.rnd([20, 16, 64, 65, 32, 1, 128][g.n % 7] if h != 7 else [16, 20, 64, 8][g.n % 4])
    if h in (6, 12, 18, 20, 22, 23, 24, 46):
        return g.rnd(16)
    if h == 25:
        return g.rnd(24)
    if h in (26, 27, 28, 31):
        return g.rnd(32)
    return b""


def gen_chained(g, tier, ciphers, hashes, stream, lens=(16, 48, 272, 1040)):
    """cipher + hash in one job: both orders, in place and out of place, hash over header + cipher range"""
    j = 0
    for c in ciphers:
        keys, ivs, blk, maxlen, minlen = CIPHER_SPECS.get(c, ([16], [16], 1, 65534, 1))
        if c == 14:
            keys, ivs = [16], [16]
        if c in (15, 16):
            keys, ivs = [16], [16 if c == 15 else 8]
        if c == 13:
            keys, ivs = [16, 24, 32], [16]
        if c == 17:
            keys, ivs, blk = [16], [16], 16
        for hi in range(len(hashes) if tier != "quick" else 3):
            h, tg = hashes[(j + hi) % len(hashes)]
            for n in lens:
                n = max(blk, n // blk * blk)
                for (d, order, inplace, hdst) in ((1, 1, 1, 0), (2, 2, 1, 0), (1, 1, 0, 1), (1, 1, 0, 0), (2, 2, 0, 0), (1, 2, 1, 0), (2, 1, 0, 1)):
                    if tier == "quick" and (j + n + d + order + inplace + hdst) % 3 == 0 and (d, order, inplace) != (1, 1, 1):
                        continue
                    hdr = 16 if blk != 8 else 8
                    kl = keys[j % len(keys)]
                    il = ivs[j % len(ivs)]
                    msg = g.rnd(hdr + n + 4)
                    if c in BITOFF_CIPHERS:
                        coff, clen = 8 * hdr, 8 * n
                    elif c in BIT_CIPHERS:
                        coff, clen = hdr, 8 * n
                    else:
                        coff, clen = hdr, n
                    g.add(c, h, stream, dir=d, order=order, key=g.rnd(kl), akey=akey_for(g, h), iv=g.rnd(il), msg=msg,
                          aiv=g.rnd(16) if h == 46 else b"",
                          coff=coff, clen=clen, hoff=0, hlen=hdr + n, tag=tg, inplace=inplace, hdst=hdst)
                    j += 1


def gen_c01(g, tier):
    for c in (1, 12, 26, 2, 4, 7, 10, 8, 18, 21, 24, 25, 27):
        gen_byte_cipher(g, tier, c)
    gen_ctr_carry(g, tier, 2)
    gen_ctr_carry(g, tier, 27)
    gen_cntr_bitlen(g, tier)
    gen_zuc_eea3(g, tier)
    gen_bit_stream_cipher(g, tier, 15)
    gen_bit_stream_cipher(g, tier, 16)
    gen_cbcs(g, tier, (16,))
    # README: only AES128-CBCS is offered; the job check nevertheless accepts 24/32-byte keys.  Rejecting them is
    # fine (valid=False), completing them with anything but AES-192/256 CBCS is not.
    gen_cbcs(g, tier, (24, 32), stream="CBCS_1_9-192-256", valid=False)
    gen_chained(g, tier, (1, 2, 12, 26, 4, 7, 10, 8, 13, 14, 15, 16, 18, 21, 24, 25, 27), CHAIN_HASHES, "chained/cipher-major")


# ---- hash-only -----------------------------------------------------------------------------
# code: (block size for the dense range, tag lengths, minimum length, maximum length)
HASH_SPECS = {
    1: (64, [20, 12], 1, 65534), 2: (64, [28, 14], 1, 65534), 3: (64, [32, 16], 1, 65534),
    4: (128, [48, 24], 1, 65534), 5: (128, [64, 32], 1, 65534), 7: (64, [16, 12], 1, 65534),
    13: (64, [20], 0, 65534), 14: (64, [28], 0, 65534), 15: (64, [32], 0, 65534), 16: (128, [48], 0, 65534),
    17: (128, [64], 0, 65534),
    6: (16, [12], 0, 65534), 12: (16, [16, 12, 8, 4, 1, 15], 0, 65534), 27: (16, [16, 12, 8, 4, 1, 15], 0, 65534),
    24: (16, [16, 12, 8, 4, 1, 15, 13], 0, 65534), 25: (16, [16, 12, 8, 4], 0, 65534), 26: (16, [16, 12, 8, 4], 0, 65534),
    46: (16, [16], 1, 65534), 28: (16, [16], 0, 65534),
    23: (8, [4], 9, 2500),
    47: (64, list(range(32, 0, -1)), 0, 65534), 48: (64, list(range(32, 0, -1)), 1, 65534),
}
for _h in range(34, 46):
    HASH_SPECS[_h] = (16, [4], 0, 65534)


def add_hash_item(g, h, n, tag, stream, hoff=0, akey=None, aiv=None, bits=None, cipher=C_NULL, **kw):
    akey = akey if akey is not None else akey_for(g, h)
    if aiv is None:
        if h in (24, 25, 26):
            aiv = g.rnd([12, 12, 12, 16, 1, 8, 33, 13][g.n % 8])
        elif h == 46:
            aiv = g.rnd(16)
        elif h in (20, 22):
            aiv = g.rnd(16)
        elif h == 31:
            aiv = g.rnd([25, 23][g.n % 2])
        else:
            aiv = b""
    nb = n if bits is None else (bits + 7) // 8
    msg = g.rnd(hoff + nb + g.rng.below(3))
    return g.add(cipher, h, stream, akey=akey, aiv=aiv, msg=msg, hoff=hoff, hlen=n if bits is None else bits, tag=tag, **kw)


def gen_byte_hash(g, tier, h):
    B, tags, lo, hi = HASH_SPECS[h]
    name = HASH_NAMES[h]
    dense = list(range(lo, 3 * B + 10)) if B >= 64 else list(range(lo, 141 if tier == "quick" else 400))
    if h == 23:
        dense = list(range(9, 141))
    for j, n in enumerate(dense):
        if len(tags) > 6:
            tg = tags[j % len(tags)]              # SM3: every tag length 1..32 in turn
        else:
            tg = tags[0] if j % 3 else tags[j % len(tags)]
        add_hash_item(g, h, n, tg, "%s/dense" % name, hoff=j % 4)
    bl = set()
    for k in (4, 8, 16, 32, 64):
        bl |= {k * B - 1, k * B, k * B + 1}
    bl |= {4095, 4096, 4097}
    if tier != "quick":
        bl |= {65519, 65520, 65533, 65534, 16384, 32768}
    for j, n in enumerate(sorted(x for x in bl if lo <= x <= hi) + ([hi - 1, hi] if hi < 65534 else [])):
        for tg in (tags if tier != "quick" or len(tags) <= 2 else (tags[0], tags[1 + j % (len(tags) - 1)])):
            add_hash_item(g, h, n, tg, "%s/boundary" % name, hoff=j % 4)
    if len(tags) > 6:     # SM3 / HMAC-SM3: every tag length at a few fixed lengths as well
        for tg in tags:
            for n in (lo, 55, 64, 119):
                add_hash_item(g, h, max(n, lo), tg, "%s/tags" % name)


def gen_bit_hash(g, tier, h):
    name = HASH_NAMES[h]
    maxbits = 65504 if h in (20, 31) else 65534 * 8
    tags = {18: [4, 16, 8, 12, 1], 20: [4], 22: [4], 31: [4, 8, 16]}[h]
    bl = set(range(1, 131)) | {8 * n for n in range(17, 141)}
    for B in (64, 128, 512, 1024, 4096, maxbits // 8):
        for dlt in range(-3, 4):
            bl.add(8 * B + dlt)
    if h == 18:
        bl.add(0)
        bl |= set(range(121, 129)) | set(range(249, 257))
    for j, bits in enumerate(sorted(x for x in bl if (0 if h == 18 else 1) <= x <= maxbits)):
        for tg in (tags if (tier != "quick" or h == 31) else (tags[0 if j % 3 else j % len(tags)],)):
            add_hash_item(g, h, 0, tg, "%s/bits" % name, hoff=j % 4, bits=bits)


def gen_poly1305_edges(g, tier):
    """Poly1305 arithmetic edges.  With random keys and data the carries out of the 130-bit accumulator's limbs and the
    final reduction are taken with negligible probability, so a kernel that drops one is never exposed: here the key
    half r is a power of two, all-ones (after clamping) or tiny, s is 0 or all-ones, and the message blocks are
    all-ones / almost all-ones / zero / one patterns in every mixture of up to 8 blocks, so that block products sit next
    to 2^128 and 2^130 - 5."""
    rs = [bytes([1] + [0] * 15), bytes([2] + [0] * 15), bytes([4] + [0] * 15), bytes([8] + [0] * 15), bytes([16] + [0] * 15),
          bytes([0] * 4 + [4] + [0] * 11), bytes([0] * 8 + [4] + [0] * 7), bytes([0] * 12 + [4] + [0] * 3),
          bytes([0xff] * 16), bytes([0xfc, 0xff, 0xff, 0x0f] * 4), bytes([3] + [0] * 15), bytes([5] + [0] * 15)]
    ss = [bytes(16), bytes([0xff] * 16), bytes([0xfb] + [0xff] * 15)]
    blocks = [bytes([0xff] * 16), bytes([0xfe] + [0xff] * 15), bytes(16), bytes([1] + [0] * 15), bytes([0xfb] + [0xff] * 15),
              bytes([0xff] * 15 + [0x7f]), bytes([0] * 15 + [0x80])]
    n = 0
    for r in rs:
        for s_ in ss:
            combos = []
            for b in blocks:
                combos += [[b], [b, b], [bytes(16)] * 3 + [b] + [bytes(16)] * 3, [b] * 8]
            for k in range(12 if tier == "quick" else 60):
                combos.append([blocks[g.rng.below(len(blocks))] for _ in range(1 + g.rng.below(8))])
            for cb in combos:
                n += 1
                if tier == "quick" and n % 3:
                    continue
                msg = b"".join(cb)
                tail = [b"", b"", bytes([0xff] * 7), bytes([0xff] * 15), bytes([1])][n % 5]
                m = msg + tail
                g.add(C_NULL, 28, "POLY1305/edges", akey=r + s_, msg=m, hoff=0, hlen=len(m), tag=16)


def gen_c02(g, tier):
    gen_poly1305_edges(g, tier)
    for h in (1, 2, 3, 4, 5, 7, 13, 14, 15, 16, 17, 6, 12, 27, 24, 25, 26, 46, 28, 23, 47, 48):
        gen_byte_hash(g, tier, h)
    for h in range(34, 46):
        gen_byte_hash(g, tier, h)
    for h in (18, 20, 31, 22):
        gen_bit_hash(g, tier, h)
    # chained: every keyed / plain hash behind a cipher (the hash reads what the cipher wrote)
    hs = [(1, 12), (2, 28), (3, 32), (4, 48), (5, 32), (7, 12), (6, 12), (12, 16), (27, 16), (13, 20), (15, 32), (17, 64),
          (47, 32), (48, 20), (28, 16), (46, 16)]
    gen_chained(g, "thorough" if tier != "quick" else "quick", (1, 2, 10, 18), hs, "chained/hash-major", lens=(32, 264))


# ---- AEAD / combined -----------------------------------------------------------------------
def aead_lengths(tier, unit=16, lmax=1569, lo=0):
    return dense_lengths(tier, unit, lmax, lo)


def gen_gcm(g, tier, c=5, h=9):
    name = CIPHER_NAMES[c]
    keys = [16, 24, 32] if c == 5 else [16]
    j = 0
    lmax = 1569 if c == 5 else 400
    for kl in keys:
        for n in aead_lengths(tier, 16, lmax):
            aadl = [0, 8, 12, 16, 20, 1, 31, 32, 33, 64][j % 10]
            coff = SRC_OFFSETS[j % len(SRC_OFFSETS)] if j % 5 == 2 else 0
            g.add(c, h, "%s/text" % name, dir=1, order=1 + j % 2, key=special_key(g, kl, g.n), iv=g.rnd(12), aad=g.rnd(aadl),
                  msg=g.rnd(coff + n + j % 3), coff=coff, clen=n, hoff=coff, hlen=n, tag=16 - (j % 16) if j % 4 == 0 else 16)
            j += 1
        for aadl in list(range(0, 65)) + [255, 256, 257, 1024] + ([4096, 65535, 65536] if tier != "quick" else []):
            n = [0, 1, 16, 33, 80][j % 5]
            g.add(c, h, "%s/aad" % name, dir=1, key=g.rnd(kl), iv=g.rnd(12), aad=g.rnd(aadl), msg=g.rnd(n), clen=n, hlen=n,
                  tag=[16, 12, 8][j % 3])
            j += 1
        for ivl in (list(range(1, 65 if tier != "quick" else 34)) + [64, 128, 255, 256]) if c == 5 else ():
            n = [0, 1, 16, 33, 80, 256, 400][j % 7]
            g.add(c, h, "%s/ivlen" % name, dir=1, key=g.rnd(kl), iv=g.rnd(ivl), aad=g.rnd(j % 21), msg=g.rnd(n), clen=n, hlen=n,
                  tag=[16, 12, 8, 4][j % 4], ivcls="len%d" % ivl)
            j += 1
        for tg in range(1, 17):
            for n in (0, 5, 16, 47):
                g.add(c, h, "%s/taglen" % name, dir=1, key=g.rnd(kl), iv=g.rnd(12), aad=g.rnd(13), msg=g.rnd(n), clen=n, hlen=n, tag=tg)
                j += 1
        # non-12-byte IVs: J0 is pseudo-random, many short messages make the counter low byte carry
        for t in range(24 if tier == "quick" else 200):
            n = 16 * (17 + t % 20) + t % 16
            if c != 5:
                break
            g.add(c, h, "%s/j0-random" % name, dir=1, key=g.rnd(kl), iv=g.rnd(16 if t % 2 else 8), aad=g.rnd(t % 17), msg=g.rnd(n),
                  clen=n, hlen=n, tag=16, ivcls="j0rnd")
            j += 1
        for jj, n in enumerate(boundaries(tier, 1, 65534 if c == 5 else 16385, 1) + ([65535, 65536] if (tier != "quick" and c == 5) else [])):
            if tier == "quick" and (jj + kl // 8) % 3 and n > 4200:
                continue
            g.add(c, h, "%s/boundary" % name, dir=1, key=g.rnd(kl), iv=g.rnd(12), aad=g.rnd(jj % 40), msg=g.rnd(n), clen=n, hlen=n,
                  tag=16)
            j += 1


def gen_ccm(g, tier):
    j = 0
    for kl in (16, 32):
        for n in aead_lengths(tier, 16, 1057):
            nl = 7 + j % 7
            aadl = [0, 8, 14, 15, 16, 30, 31, 46, 1, 22][j % 10]
            tg = 4 + 2 * (j % 7)
            coff = [0, 0, 8, 16, 1][j % 5]
            g.add(9, 11, "CCM/text", dir=1, order=2, key=special_key(g, kl, g.n), iv=g.rnd(nl), aad=g.rnd(aadl),
                  msg=g.rnd(coff + n + j % 3), coff=coff, clen=n, hoff=coff, hlen=n, tag=tg, ivcls="n%d" % nl)
            j += 1
        for aadl in range(0, 47):
            for n in (0, 17):
                g.add(9, 11, "CCM/aad", dir=1, order=2, key=g.rnd(kl), iv=g.rnd(7 + j % 7), aad=g.rnd(aadl), msg=g.rnd(n), clen=n,
                      hlen=n, tag=4 + 2 * (j % 7))
                j += 1
        for nl in range(7, 14):
            for tg in range(4, 17, 2):
                n = [0, 1, 16, 31, 64][j % 5]
                g.add(9, 11, "CCM/nonce-tag", dir=1, order=2, key=g.rnd(kl), iv=g.rnd(nl), aad=g.rnd(j % 47), msg=g.rnd(n), clen=n,
                      hlen=n, tag=tg, ivcls="n%d" % nl)
                j += 1
        for jj, n in enumerate(boundaries(tier, 1, 65534)):
            nl = 7 + jj % 7
            if n >= (1 << (8 * (15 - nl))):
                nl = 13 if n < 65536 else 12
            if tier == "quick" and jj % 2 and n > 4200:
                continue
            g.add(9, 11, "CCM/boundary", dir=1, order=2, key=g.rnd(kl), iv=g.rnd(nl), aad=g.rnd(jj % 47), msg=g.rnd(n), clen=n, hlen=n,
                  tag=16 - 2 * (jj % 3))
            j += 1


def gen_chachapoly(g, tier):
    j = 0
    for n in aead_lengths(tier, 64, 2081):
        aadl = [0, 12, 16, 1, 15, 17, 32, 48, 64, 100][j % 10]
        coff = SRC_OFFSETS[j % len(SRC_OFFSETS)] if j % 5 == 2 else 0
        g.add(19, 29, "CHACHA20_POLY1305/text", dir=1, order=1, key=special_key(g, 32, g.n), iv=g.rnd(12), aad=g.rnd(aadl),
              msg=g.rnd(coff + n + j % 3), coff=coff, clen=n, hoff=coff, hlen=n, tag=16)
        j += 1
    for aadl in list(range(0, 65)) + [255, 256, 257, 1024]:
        n = [0, 1, 16, 64, 65][j % 5]
        g.add(19, 29, "CHACHA20_POLY1305/aad", dir=1, key=g.rnd(32), iv=g.rnd(12), aad=g.rnd(aadl), msg=g.rnd(n), clen=n, hlen=n, tag=16)
        j += 1
    for jj, n in enumerate(boundaries(tier, 1, 65534)):
        if tier == "quick" and jj % 2 and n > 4200:
            continue
        g.add(19, 29, "CHACHA20_POLY1305/boundary", dir=1, key=g.rnd(32), iv=g.rnd(12), aad=g.rnd(jj % 40), msg=g.rnd(n), clen=n,
              hlen=n, tag=16)


def gen_snowv_aead(g, tier):
    j = 0
    for n in aead_lengths(tier, 16, 1057):
        aadl = [0, 12, 16, 1, 15, 17, 32, 100][j % 8]
        coff = [0, 0, 1, 16][j % 4]
        g.add(22, 32, "SNOW_V_AEAD/text", dir=1, key=special_key(g, 32, g.n), iv=g.rnd(16), aad=g.rnd(aadl), msg=g.rnd(coff + n + j % 3),
              coff=coff, clen=n, hoff=coff, hlen=n, tag=16)
        j += 1
    for aadl in list(range(0, 49)) + [255, 256, 1024]:
        n = [0, 1, 16, 33][j % 4]
        g.add(22, 32, "SNOW_V_AEAD/aad", dir=1, key=g.rnd(32), iv=g.rnd(16), aad=g.rnd(aadl), msg=g.rnd(n), clen=n, hlen=n, tag=16)
        j += 1
    for jj, n in enumerate(boundaries(tier, 1, 16385 if tier == "quick" else 65534)):
        if tier == "quick" and jj % 3:
            continue
        g.add(22, 32, "SNOW_V_AEAD/boundary", dir=1, key=g.rnd(32), iv=g.rnd(16), aad=g.rnd(jj % 40), msg=g.rnd(n), clen=n, hlen=n, tag=16)


def gen_docsis_crc(g, tier):
    """DOCSIS BPI + CRC32 frames, in place.  Standard geometry: the CRC covers [hoff, hoff+hlen), is stored in the 4 bytes
    behind it, and the ciphered range starts >= 12 bytes into the hashed range and ends with the CRC."""
    j = 0
    for kl in (16, 32):
        # all (hash_off, cipher_off, len) with a short frame + block-residue sweep
        for hoff in (0, 1, 2, 6):
            for hlen in list(range(14, 80)) + [16 * k + 14 + (k % 16) for k in range(5, 40)] + [1500, 1518, 2000, 4096]:
                if tier == "quick" and (j % 4) and hlen > 40:
                    j += 1
                    continue
                for cstart in sorted({12, 13, 14, 16 + j % 5, hlen - 1, hlen + 4}):
                    if cstart < 12 or cstart > hlen + 4:
                        continue
                    coff = hoff + cstart
                    clen = hoff + hlen + 4 - coff
                    if clen != 0 and clen + 8 > hlen:
                        continue            # is_job_invalid: cipher length + 8 <= hash length
                    msg = g.rnd(hoff + hlen + 4 + j % 3)
                    # a ciphered range that lies inside the 4 CRC bytes is accepted but makes no sense for DOCSIS
                    st = "DOCSIS+CRC32/std" if (clen == 0 or clen > 4) else "DOCSIS+CRC32/cipher-within-crc"
                    g.add(4, 21, st, dir=1, order=2, key=special_key(g, kl, g.n), iv=g.rnd(16), msg=msg, coff=coff,
                          clen=clen, hoff=hoff, hlen=hlen, tag=4, inplace=1)
                    j += 1
                j += 1
        # CRC only (nothing ciphered)
        for hlen in (14, 15, 16, 31, 60, 64, 65, 127, 128, 129, 1500):
            g.add(4, 21, "DOCSIS+CRC32/crc-only", dir=1, order=2, key=g.rnd(kl), iv=g.rnd(16), msg=g.rnd(hlen + 4), coff=12, clen=0,
                  hoff=0, hlen=hlen, tag=4, inplace=1)
        # hash length below 14: no CRC is inserted, the frame is still ciphered, the tag bytes are unspecified
        for hlen in (0, 1, 13):
            g.add(4, 21, "DOCSIS+CRC32/short-hash", dir=1, order=2, key=g.rnd(kl), iv=g.rnd(16), msg=g.rnd(40), coff=12, clen=0,
                  hoff=0, hlen=hlen, tag=4, inplace=1)
        # accepted geometry outside the standard one (cipher range does not end with the CRC)
        for hlen in (40, 64, 100, 256):
            for (cs, cl) in ((12, hlen - 12 - 8), (16, 16), (20, 32), (12, 33)):
                if cl + 8 > hlen or cl <= 0:
                    continue
                g.add(4, 21, "DOCSIS+CRC32/nonstd-geometry", dir=1, order=2, key=g.rnd(kl), iv=g.rnd(16), msg=g.rnd(max(hlen + 8, cs + cl + 4)), coff=cs,
                      clen=cl, hoff=0, hlen=hlen, tag=4, inplace=1)


def pon_frame(g, pli, payload_len, extra=0):
    """8-byte XGEM header (PLI in the top 14 bits, the rest random incl. a wrong HEC) + payload"""
    hdr = ((pli & 0x3fff) << 50) | (g.rng.next() & ((1 << 50) - 1))
    return hdr.to_bytes(8, "big") + g.rnd(payload_len + extra)


def gen_pon(g, tier):
    plis = list(range(0, 70)) + [100, 127, 128, 129, 255, 256, 257, 1000, 1023, 1024, 1500, 2047, 2048, 4095, 4096, 4097, 8191,
                                8192, 16380, 16383]
    if tier == "quick":
        plis = [p for i, p in enumerate(plis) if p < 40 or i % 2 == 0]
    j = 0
    for pli in plis:
        pl = (pli + 3) // 4 * 4
        for cipher_on in (1, 0):
            for extra_pad in ((0, 4) if pli < 64 else (0,)):
                plen = pl + extra_pad
                if pli <= 4 and plen < 4 and cipher_on:
                    plen = 4
                if cipher_on and plen == 0:
                    continue
                frame = pon_frame(g, pli, plen)
                hoff = [0, 0, 4, 1][j % 4]
                msg = g.rnd(hoff) + frame + g.rnd(j % 3)
                iv = g.rnd(16) if j % 6 else g.rnd(8) + b"\xff" * 8 if j % 12 else b"\xff" * 16
                g.add(11, 19, "PON/%s" % ("ctr" if cipher_on else "no-cipher"), dir=1, order=2, key=g.rnd(16) if cipher_on else b"",
                      iv=iv if cipher_on else b"", msg=msg, coff=hoff + 8, clen=plen if cipher_on else 0, hoff=hoff, hlen=8 + plen, tag=8,
                      inplace=1, ivcls="rnd" if j % 6 else "ff")
                j += 1


def gen_pon_carry(g, tier):
    """PON uses the whole 128-bit IV as a counter: the carry out of the low 64 bits is taken when the low half wraps
    inside the frame.  The wrap is placed at every block position 1..66 of frames long enough for the by-16 loop."""
    for w in range(1, 67):
        if tier == "quick" and w > 34 and w % 2:
            continue
        pli = [1040, 1100, 528, 2052][w % 4] if w <= 32 else 1100
        plen = (pli + 3) // 4 * 4
        if w * 16 >= plen:
            continue
        frame = pon_frame(g, pli, plen)
        iv = g.rnd(8) + ((1 << 64) - w).to_bytes(8, "big")
        g.add(11, 19, "PON/ctr64-carry", dir=1, order=2, key=g.rnd(16), iv=iv, msg=frame + g.rnd(w % 3), coff=8, clen=plen, hoff=0,
              hlen=8 + plen, tag=8, inplace=1, ivcls="lo64-wrap-%d" % w)


def gen_c03(g, tier):
    gen_pon_carry(g, tier)
    gen_gcm(g, tier, 5, 9)
    gen_gcm(g, tier, 28, 49)
    gen_ccm(g, tier)
    gen_chachapoly(g, tier)
    gen_snowv_aead(g, tier)
    gen_docsis_crc(g, tier)
    gen_pon(g, tier)


def derive_decrypt(g, items, model):
    """second phase of C03: for every encrypt item the decrypt job over the MODEL ciphertext"""
    for e in list(items):
        m = model.get(e["id"])
        if m is None or e["dir"] != 1:
            continue
        c = e["cipher"]
        area = bytes.fromhex(m["dst"])
        if e["inplace"]:
            msg = area
        else:
            d0 = e["doff"] if e.get("doff") is not None else e["coff"]
            msg = bytearray(e["msg"])
            msg[e["coff"]:e["coff"] + e["clen"]] = area[d0:d0 + e["clen"]]
            msg = bytes(msg)
        order = e["order"]
        if c in (9, 4, 11):
            order = 1
        elif c in (5, 28, 19, 22):
            order = 3 - e["order"]
        new = {k: v for k, v in e.items() if not k.startswith("_") and k != "id"}
        new.update(dir=2, order=order, msg=msg)
        it = g.add(new.pop("cipher"), new.pop("hash"), e["_stream"] + "/dec", ivcls=e["_iv"], **new)
        it["_enc_of"] = e["id"]
        if c in (5, 28, 9, 19, 22):
            it["_roundtrip"] = (e["coff"], e["coff"] + e["clen"])


TESTS_C01 = ["Spec/AES_Tests.v", "Spec/AESModes_Tests.v", "Spec/DES_Tests.v", "Spec/SM4_Tests.v", "Spec/ChaCha20_Tests.v",
             "Spec/ZUC_Tests.v", "Spec/SNOW3G_Tests.v", "Spec/KASUMI_Tests.v", "Spec/SNOWV_Tests.v"]
TESTS_C02 = ["Spec/SHA_Tests.v", "Spec/MD5_Tests.v", "Spec/SM3_Tests.v", "Spec/HMAC_Tests.v", "Spec/CMAC_Tests.v", "Spec/GF128_Tests.v",
             "Spec/GCM_Tests.v", "Spec/Poly1305_Tests.v", "Spec/CRC_Tests.v", "Spec/ZUC_Tests.v", "Spec/SNOW3G_Tests.v",
             "Spec/KASUMI_Tests.v"]
TESTS_C03 = ["Spec/GCM_Tests.v", "Spec/CCM_Tests.v", "Spec/ChaChaPoly_Tests.v", "Spec/SNOWV_Tests.v", "Spec/SM4_Tests.v",
             "Spec/CRC_Tests.v", "Spec/PON_Tests.v", "Spec/AESModes_Tests.v"]
