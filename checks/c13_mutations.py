"""Mutation trials for C13 (NOT a registered command; results are in coq/Mgr/C13_NOTES.md).

Usage:
    mkdir -p /var/tmp/agent-c13/repo && (cd /repo && tar --exclude=./_build --exclude=./.git -cf - .) | tar -C /var/tmp/agent-c13/repo -xf -
    cd /verif && python3 checks/c13_mutations.py base M1_drop_clear_xmms_cbc_dec_sse ...
    rm -rf /var/tmp/agent-c13            # afterwards, then rerun ./check C13 on the real tree
Each trial patches the scratch copy, runs `./check C13 --tier quick` with IMB_REPO / IMB_VERIF_BUILD
pointing at the copy, reverts the patch and prints the violation signatures that the unchanged copy
("base") does not have.
"""
import os, sys, subprocess, json, re, time, shutil

SCR = "/var/tmp/agent-c13/repo"
OUT = "/var/tmp/agent-c13"
ENV = dict(os.environ, IMB_REPO=SCR, IMB_VERIF_BUILD="/var/tmp/agent-c13/build", VERIF_SEED="1")


def run_check(tag):
    t0 = time.time()
    p = subprocess.run(["./check", "C13", "--tier", "quick"], cwd="/verif", env=ENV, capture_output=True, text=True, timeout=3000)
    sigs = {}
    for line in p.stdout.splitlines():
        m = re.match(r"VIOLATION property=C13 replay=(\S+) (.*)", line)
        if m:
            try:
                sig = json.load(open(m.group(1))).get("signature", os.path.basename(m.group(1)))
            except Exception:
                sig = os.path.basename(m.group(1))
            sigs[sig] = m.group(2)[:220]
    open(os.path.join(OUT, "mut_%s.out" % tag), "w").write(p.stdout + "\n---\n" + p.stderr[-3000:])
    return p.returncode, sigs, time.time() - t0


def patch(path, old, new, count=1):
    f = os.path.join(SCR, path)
    s = open(f).read()
    assert s.count(old) >= 1, (path, old[:60])
    open(f + ".orig", "w").write(s)
    s = s.replace(old, new, count) if count else s.replace(old, new)
    open(f, "w").write(s)
    return f


def restore(f):
    shutil.move(f + ".orig", f)
    os.utime(f, None)


DISABLE = ("%ifdef SAFE_DATA\n\tclear_all_zmms_asm\n%else", "%ifdef SAFE_DATA_DISABLED_BY_MUTATION\n\tclear_all_zmms_asm\n%else")

MUTS = {
    "M1_drop_clear_xmms_cbc_dec_sse": [
        ("lib/include/aes_cbc_dec_by8_sse.inc",
         "        clear_xmms_sse xdata0, xdata1, xdata2, xdata3, xdata4, xdata5, xdata6, xdata7, xkeytmp\n", "", 1)],
    "M2_flush_clears_only_returned_iv_avx2": [
        ("lib/avx2_t1/mb_mgr_aes128_cbc_enc_flush_avx.asm",
         """%assign I 0
%rep 8
	cmp	qword [state + _aes_job_in_lane + I*8], 0
	jne	APPEND(skip_clear_,I)
	vmovdqa	[state + _aes_args_IV + I*16], xmm0
APPEND(skip_clear_,I):
%assign I (I+1)
%endrep
%endif""", """        shl     idx, 4
        vmovdqa [state + _aes_args_IV + idx], xmm0
%endif""", 1)],
    "M3_extra_block_128_cleared_for_64": [
        ("lib/avx512_t1/mb_mgr_hmac_sha512_flush_avx512.asm", "        vmovdqu64 [lane_data + _extra_block + 64], zmm0\n", "", 1),
        ("lib/avx512_t1/mb_mgr_hmac_sha512_submit_avx512.asm", "        vmovdqu64 [lane_data + _extra_block + 64], zmm0\n", "", 1)],
    "M4_poly_key_not_cleared": [
        ("lib/x86_64/chacha20_poly1305.c", "        clear_mem(ctx->poly_key, sizeof(ctx->poly_key));\n", "", 0)],
    "M4b_poly_key_not_cleared_anywhere": [
        ("lib/x86_64/chacha20_poly1305.c", "        clear_mem(ctx->poly_key, sizeof(ctx->poly_key));\n", "", 0),
        ("lib/x86_64/poly1305.asm", """        xor     rax, rax
        mov     [arg2], rax
        mov     [arg2 + 8], rax
        mov     [arg2 + 16], rax
        mov     [arg2 + 24], rax
""", "", 1)],
    "M4c_last_ks_not_cleared": [
        ("lib/x86_64/chacha20_poly1305.c", "        clear_mem(ctx->last_ks, sizeof(ctx->last_ks));\n", "", 0)],
    "M5_drop_clear_all_zmms_cbc_submit_vaes": [
        ("lib/avx512_t2/mb_mgr_aes128_cbc_enc_submit_avx512.asm", DISABLE[0], DISABLE[1], 1)],
    "M5b_drop_clear_all_zmms_cbc_flush_vaes": [
        ("lib/avx512_t2/mb_mgr_aes128_cbc_enc_flush_avx512.asm", DISABLE[0], DISABLE[1], 1)],
    "M6_hmac_sha1_flush_clears_only_returned_lane_avx2": [
        ("lib/avx2_t1/mb_mgr_hmac_sha1_flush_avx2.asm",
         "	cmp	qword [state + _ldata + (I*_HMAC_SHA1_LANE_DATA_size) + _job_in_lane], 0\n	jne	APPEND(skip_clear_,I)\n",
         "	cmp	idx, I\n	jne	APPEND(skip_clear_,I)\n", 1)],
}

if __name__ == "__main__":
    which = sys.argv[1:] or ["base"] + sorted(MUTS)
    base = None
    bp = os.path.join(OUT, "mut_base.json")
    if os.path.exists(bp):
        base = json.load(open(bp))
    for name in which:
        if name == "base":
            rc, sigs, secs = run_check("base")
            base = sigs
            json.dump(sigs, open(bp, "w"), indent=1)
            print("BASE rc=%d violations=%d %.0fs" % (rc, len(sigs), secs), flush=True)
            continue
        files = [patch(*m) for m in MUTS[name]]
        try:
            rc, sigs, secs = run_check(name)
        finally:
            for f in files:
                restore(f)
        new = {k: v for k, v in sigs.items() if k not in base}
        gone = [k for k in base if k not in sigs]
        print("MUT %s rc=%d violations=%d new=%d gone=%d %.0fs" % (name, rc, len(sigs), len(new), len(gone), secs), flush=True)
        for k, v in sorted(new.items()):
            print("   NEW %s :: %s" % (k, v[:170]), flush=True)
        for k in gone:
            print("   GONE", k)
