/*
 * k3_quic: QUIC header protection (imb_quic_hp_aes_ecb / imb_quic_hp_chacha20) against inaccessible memory
 * (property C07: exactly the 16-byte samples are read, exactly the 5-byte masks are written).
 *
 *   k3_quic <sse|avx2|avx512> <flags>
 *
 * For every packet count 1..40 every sample ends flush against a PROT_NONE page (second pass: starts right
 * behind one) and every 5-byte mask buffer likewise; the masks are compared with those of one-packet calls on
 * roomy buffers.  Output: one line `Q var= alg= np= place= res=<ok|fault:<read|write>@sample|mask|other|diff>`.
 */
#define _GNU_SOURCE
#include <stdio.h>
#include <stdlib.h>
#include <string.h>
#include <stdint.h>
#include <signal.h>
#include <setjmp.h>
#include <unistd.h>
#include <sys/mman.h>
#include <intel-ipsec-mb.h>

#define MAXP 40
static sigjmp_buf jb;
static volatile uintptr_t fault_addr;

static void
on_segv(int sig, siginfo_t *si, void *uc)
{
        (void) sig;
        (void) uc;
        fault_addr = (uintptr_t) si->si_addr;
        siglongjmp(jb, 1);
}

static long pg;
/* len bytes ending at a page end followed by an inaccessible page (end = 1), or starting right after one */
static uint8_t *
guarded(const size_t len, const int end, uint8_t **guard)
{
        uint8_t *m = mmap(NULL, (size_t) pg * 3, PROT_READ | PROT_WRITE, MAP_PRIVATE | MAP_ANONYMOUS, -1, 0);

        if (m == MAP_FAILED)
                exit(2);
        if (end) {
                mprotect(m + 2 * pg, (size_t) pg, PROT_NONE);
                *guard = m + 2 * pg;
                return m + 2 * pg - len;
        }
        mprotect(m, (size_t) pg, PROT_NONE);
        *guard = m;
        return m + pg;
}

int
main(int argc, char **argv)
{
        if (argc != 3)
                return 2;
        pg = sysconf(_SC_PAGESIZE);
        const uint64_t flags = strtoull(argv[2], NULL, 0);
        IMB_MGR *mgr = alloc_mb_mgr(flags);
        char var[32];

        if (mgr == NULL)
                return 2;
        if (!strcmp(argv[1], "sse"))
                init_mb_mgr_sse(mgr);
        else if (!strcmp(argv[1], "avx2"))
                init_mb_mgr_avx2(mgr);
        else
                init_mb_mgr_avx512(mgr);
        if (imb_get_errno(mgr) != 0) {
                printf("SKIP errno=%d\n", imb_get_errno(mgr));
                return 0;
        }
        snprintf(var, sizeof(var), "%s:f%llu", argv[1], (unsigned long long) flags);
        struct sigaction sa;

        memset(&sa, 0, sizeof(sa));
        sa.sa_sigaction = on_segv;
        sa.sa_flags = SA_SIGINFO | SA_NODEFER;
        sigaction(SIGSEGV, &sa, NULL);
        sigaction(SIGBUS, &sa, NULL);

        static uint8_t key[32];
        static DECLARE_ALIGNED(uint32_t ek[60], 16);
        static DECLARE_ALIGNED(uint32_t dk[60], 16);

        for (int i = 0; i < 32; i++)
                key[i] = (uint8_t) (i * 11 + 3);
        for (int alg = 0; alg < 3; alg++) {       /* 0 AES-128, 1 AES-256, 2 ChaCha20 */
                if (alg == 0)
                        IMB_AES_KEYEXP_128(mgr, key, ek, dk);
                else if (alg == 1)
                        IMB_AES_KEYEXP_256(mgr, key, ek, dk);
                for (int place = 0; place < 2; place++)
                        for (int np = 1; np <= MAXP; np++) {
                                const void *src[MAXP];
                                void *dst[MAXP];
                                uint8_t *sg[MAXP], *dg[MAXP], ref[MAXP][5];
                                uint8_t *maps[2 * MAXP];
                                const char *res = "ok";
                                char buf[64];

                                for (int p = 0; p < np; p++) {
                                        uint8_t roomy_s[64], roomy_d[64];
                                        const void *s1[1] = { roomy_s };
                                        void *d1[1] = { roomy_d };
                                        uint8_t *s = guarded(16, place == 0, &sg[p]);
                                        uint8_t *d = guarded(5, place == 0, &dg[p]);

                                        maps[2 * p] = (uint8_t *) ((uintptr_t) s & ~(uintptr_t) (pg - 1)) - (place == 0 ? pg : pg);
                                        maps[2 * p + 1] = (uint8_t *) ((uintptr_t) d & ~(uintptr_t) (pg - 1)) - (place == 0 ? pg : pg);
                                        for (int j = 0; j < 16; j++)
                                                s[j] = (uint8_t) (np * 31 + p * 7 + j * 13 + alg);
                                        memset(d, 0xEE, 5);
                                        memset(roomy_s, 0, sizeof(roomy_s));
                                        memcpy(roomy_s, s, 16);
                                        if (alg == 2)
                                                imb_quic_hp_chacha20(mgr, key, d1, s1, 1);
                                        else
                                                imb_quic_hp_aes_ecb(mgr, ek, d1, s1, 1, alg == 0 ? IMB_KEY_128_BYTES : IMB_KEY_256_BYTES);
                                        memcpy(ref[p], roomy_d, 5);
                                        src[p] = s;
                                        dst[p] = d;
                                }
                                if (sigsetjmp(jb, 1) == 0) {
                                        if (alg == 2)
                                                imb_quic_hp_chacha20(mgr, key, dst, src, (uint64_t) np);
                                        else
                                                imb_quic_hp_aes_ecb(mgr, ek, dst, src, (uint64_t) np,
                                                                    alg == 0 ? IMB_KEY_128_BYTES : IMB_KEY_256_BYTES);
                                        for (int p = 0; p < np; p++)
                                                if (memcmp(dst[p], ref[p], 5) != 0)
                                                        res = "diff";
                                } else {
                                        const char *what = "other";

                                        for (int p = 0; p < np; p++) {
                                                if (fault_addr >= (uintptr_t) sg[p] && fault_addr < (uintptr_t) sg[p] + (uintptr_t) pg)
                                                        what = "sample";
                                                if (fault_addr >= (uintptr_t) dg[p] && fault_addr < (uintptr_t) dg[p] + (uintptr_t) pg)
                                                        what = "mask";
                                        }
                                        snprintf(buf, sizeof(buf), "fault@%s", what);
                                        res = buf;
                                }
                                printf("Q var=%s alg=%s np=%d place=%s res=%s\n", var, alg == 0 ? "aes128" : alg == 1 ? "aes256" : "chacha20", np,
                                       place == 0 ? "end" : "start", res);
                                for (int p = 0; p < 2 * np; p++)
                                        munmap(maps[p], (size_t) pg * 3);
                        }
        }
        /* ---- QUIC AEAD: imb_quic_aes_gcm / imb_quic_chacha20_poly1305, every buffer of every packet against a guard ---- */
        static struct gcm_key_data gk;

        for (int alg = 0; alg < 3; alg++) {       /* 0 AES-128-GCM, 1 AES-256-GCM, 2 ChaCha20-Poly1305 */
                if (alg == 0)
                        IMB_AES128_GCM_PRE(mgr, key, &gk);
                else if (alg == 1)
                        IMB_AES256_GCM_PRE(mgr, key, &gk);
                for (int place = 0; place < 2; place++)
                        for (int np = 1; np <= 18; np++) {
                                const void *src[18], *iv[18], *aad[18];
                                void *dst[18], *tag[18];
                                uint64_t len[18];
                                uint8_t *g[18][5], *base[18][5], refct[18][80], reftag[18][16];
                                const uint64_t aad_len = 13, tag_len = 16;
                                const char *res = "ok";
                                char buf[64];

                                for (int p = 0; p < np; p++) {
                                        static const unsigned lens[] = { 0, 1, 15, 16, 17, 31, 32, 33, 47, 48, 49, 63, 64, 65, 70, 5, 20, 40 };
                                        uint8_t rs[80], rd[80], riv[16], raad[16], rtag[16];
                                        const void *s1[1] = { rs }, *i1[1] = { riv }, *a1[1] = { raad };
                                        void *d1[1] = { rd }, *t1[1] = { rtag };
                                        uint64_t l1[1];

                                        len[p] = lens[(p + np) % 18];
                                        l1[0] = len[p];
                                        const size_t sz[5] = { len[p] ? len[p] : 1, len[p] ? len[p] : 1, 12, aad_len, tag_len };
                                        uint8_t *b[5];

                                        for (int q = 0; q < 5; q++) {
                                                b[q] = guarded(sz[q], place == 0, &g[p][q]);
                                                base[p][q] = (uint8_t *) ((uintptr_t) b[q] & ~(uintptr_t) (pg - 1)) - pg;
                                                if (place == 0 && q < 2 && len[p] == 0)
                                                        b[q] += 1;      /* empty packet: pointer at the very end */
                                        }
                                        for (unsigned j = 0; j < len[p]; j++)
                                                b[0][j] = rs[j] = (uint8_t) (np * 17 + p * 5 + j * 3 + alg);
                                        for (int j = 0; j < 12; j++)
                                                b[2][j] = riv[j] = (uint8_t) (p * 9 + j + np);
                                        for (unsigned j = 0; j < aad_len; j++)
                                                b[3][j] = raad[j] = (uint8_t) (p + j * 7 + 1);
                                        src[p] = b[0]; dst[p] = b[1]; iv[p] = b[2]; aad[p] = b[3]; tag[p] = b[4];
                                        if (alg == 2)
                                                imb_quic_chacha20_poly1305(mgr, key, IMB_DIR_ENCRYPT, d1, s1, l1, i1, a1, aad_len, t1, 1);
                                        else
                                                imb_quic_aes_gcm(mgr, &gk, alg == 0 ? IMB_KEY_128_BYTES : IMB_KEY_256_BYTES, IMB_DIR_ENCRYPT, d1,
                                                                 s1, l1, i1, a1, aad_len, t1, tag_len, 1);
                                        memcpy(refct[p], rd, len[p]);
                                        memcpy(reftag[p], rtag, 16);
                                }
                                if (sigsetjmp(jb, 1) == 0) {
                                        if (alg == 2)
                                                imb_quic_chacha20_poly1305(mgr, key, IMB_DIR_ENCRYPT, dst, src, len, iv, aad, aad_len, tag,
                                                                           (uint64_t) np);
                                        else
                                                imb_quic_aes_gcm(mgr, &gk, alg == 0 ? IMB_KEY_128_BYTES : IMB_KEY_256_BYTES, IMB_DIR_ENCRYPT,
                                                                 dst, src, len, iv, aad, aad_len, tag, tag_len, (uint64_t) np);
                                        for (int p = 0; p < np; p++)
                                                if (memcmp(dst[p], refct[p], len[p]) != 0 || memcmp(tag[p], reftag[p], 16) != 0)
                                                        res = "diff";
                                } else {
                                        static const char *const nm[5] = { "src", "dst", "iv", "aad", "tag" };
                                        const char *what = "other";

                                        for (int p = 0; p < np; p++)
                                                for (int q = 0; q < 5; q++)
                                                        if (fault_addr >= (uintptr_t) g[p][q] && fault_addr < (uintptr_t) g[p][q] + (uintptr_t) pg)
                                                                what = nm[q];
                                        snprintf(buf, sizeof(buf), "fault@%s", what);
                                        res = buf;
                                }
                                printf("Q var=%s alg=%s np=%d place=%s res=%s\n", var,
                                       alg == 0 ? "quic-gcm128" : alg == 1 ? "quic-gcm256" : "quic-chachapoly", np, place == 0 ? "end" : "start", res);
                                for (int p = 0; p < np; p++)
                                        for (int q = 0; q < 5; q++)
                                                munmap(base[p][q], (size_t) pg * 3);
                        }
        }
        return 0;
}
