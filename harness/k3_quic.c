/*
 * k3_quic: QUIC header protection (imb_quic_hp_aes_ecb / imb_quic_hp_chacha20) against inaccessible memory
 * (property C07: exactly the 16-byte samples are read, exactly the 5-byte masks are written).
 *
 *   k3_quic <sse|avx2|avx512> <flags>
 *
 * For every packet count 1..40 every sample ends flush against a PROT_NONE page (second pass: starts right
 * behind one) and every 5-byte mask buffer likewise; the masks are compared with those of one-packet calls on
 * roomy buffers.  Output: one line `Q var= alg= np= place= res=<ok|fault:<read|write>@sample|mask|other|diff>`.
 */
#define _GNU_SOURCE
#include <stdio.h>
#include <stdlib.h>
#include <string.h>
#include <stdint.h>
#include <signal.h>
#include <setjmp.h>
#include <unistd.h>
#include <sys/mman.h>
#include <intel-ipsec-mb.h>

#define MAXP 40
static sigjmp_buf jb;
static volatile uintptr_t fault_addr;

static void
on_segv(int sig, siginfo_t *si, void *uc)
{
        (void) sig;
        (void) uc;
        fault_addr = (uintptr_t) si->si_addr;
        siglongjmp(jb, 1);
}

static long pg;
/* len bytes ending at a page end followed by an inaccessible page (end = 1), or starting right after one */
static uint8_t *
guarded(const size_t len, const int end, uint8_t **guard)
{
        uint8_t *m = mmap(NULL, (size_t) pg * 3, PROT_READ | PROT_WRITE, MAP_PRIVATE | MAP_ANONYMOUS, -1, 0);

        if (m == MAP_FAILED)
                exit(2);
        if (end) {
                mprotect(m + 2 * pg, (size_t) pg, PROT_NONE);
                *guard = m + 2 * pg;
                return m + 2 * pg - len;
        }
        mprotect(m, (size_t) pg, PROT_NONE);
        *guard = m;
        return m + pg;
}

int
main(int argc, char **argv)
{
        if (argc != 3)
                return 2;
        pg = sysconf(_SC_PAGESIZE);
        const uint64_t flags = strtoull(argv[2], NULL, 0);
        IMB_MGR *mgr = alloc_mb_mgr(flags);
        char var[32];

        if (mgr == NULL)
                return 2;
        if (!strcmp(argv[1], "sse"))
                init_mb_mgr_sse(mgr);
        else if (!strcmp(argv[1], "avx2"))
                init_mb_mgr_avx2(mgr);
        else
                init_mb_mgr_avx512(mgr);
        if (imb_get_errno(mgr) != 0) {
                printf("SKIP errno=%d\n", imb_get_errno(mgr));
                return 0;
        }
        snprintf(var, sizeof(var), "%s:f%llu", argv[1], (unsigned long long) flags);
        struct sigaction sa;

        memset(&sa, 0, sizeof(sa));
        sa.sa_sigaction = on_segv;
        sa.sa_flags = SA_SIGINFO | SA_NODEFER;
        sigaction(SIGSEGV, &sa, NULL);
        sigaction(SIGBUS, &sa, NULL);

        static uint8_t key[32];
        static DECLARE_ALIGNED(uint32_t ek[60], 16);
        static DECLARE_ALIGNED(uint32_t dk[60], 16);

        for (int i = 0; i < 32; i++)
                key[i] = (uint8_t) (i * 11 + 3);
        for (int alg = 0; alg < 3; alg++) {       /* 0 AES-128, 1 AES-256, 2 ChaCha20 */
                if (alg == 0)
                        IMB_AES_KEYEXP_128(mgr, key, ek, dk);
                else if (alg == 1)
                        IMB_AES_KEYEXP_256(mgr, key, ek, dk);
                for (int place = 0; place < 2; place++)
                        for (int np = 1; np <= MAXP; np++) {
                                const void *src[MAXP];
                                void *dst[MAXP];
                                uint8_t *sg[MAXP], *dg[MAXP], ref[MAXP][5];
                                uint8_t *maps[2 * MAXP];
                                const char *res = "ok";
                                char buf[64];

                                for (int p = 0; p < np; p++) {
                                        uint8_t roomy_s[64], roomy_d[64];
                                        const void *s1[1] = { roomy_s };
                                        void *d1[1] = { roomy_d };
                                        uint8_t *s = guarded(16, place == 0, &sg[p]);
                                        uint8_t *d = guarded(5, place == 0, &dg[p]);

                                        maps[2 * p] = (uint8_t *) ((uintptr_t) s & ~(uintptr_t) (pg - 1)) - (place == 0 ? pg : pg);
                                        maps[2 * p + 1] = (uint8_t *) ((uintptr_t) d & ~(uintptr_t) (pg - 1)) - (place == 0 ? pg : pg);
                                        for (int j = 0; j < 16; j++)
                                                s[j] = (uint8_t) (np * 31 + p * 7 + j * 13 + alg);
                                        memset(d, 0xEE, 5);
                                        memset(roomy_s, 0, sizeof(roomy_s));
                                        memcpy(roomy_s, s, 16);
                                        if (alg == 2)
                                                imb_quic_hp_chacha20(mgr, key, d1, s1, 1);
                                        else
                                                imb_quic_hp_aes_ecb(mgr, ek, d1, s1, 1, alg == 0 ? IMB_KEY_128_BYTES : IMB_KEY_256_BYTES);
                                        memcpy(ref[p], roomy_d, 5);
                                        src[p] = s;
                                        dst[p] = d;
                                }
                                if (sigsetjmp(jb, 1) == 0) {
                                        if (alg == 2)
                                                imb_quic_hp_chacha20(mgr, key, dst, src, (uint64_t) np);
                                        else
                                                imb_quic_hp_aes_ecb(mgr, ek, dst, src, (uint64_t) np,
                                                                    alg == 0 ? IMB_KEY_128_BYTES : IMB_KEY_256_BYTES);
                                        for (int p = 0; p < np; p++)
                                                if (memcmp(dst[p], ref[p], 5) != 0)
                                                        res = "diff";
                                } else {
                                        const char *what = "other";

                                        for (int p = 0; p < np; p++) {
                                                if (fault_addr >= (uintptr_t) sg[p] && fault_addr < (uintptr_t) sg[p] + (uintptr_t) pg)
                                                        what = "sample";
                                                if (fault_addr >= (uintptr_t) dg[p] && fault_addr < (uintptr_t) dg[p] + (uintptr_t) pg)
                                                        what = "mask";
                                        }
                                        snprintf(buf, sizeof(buf), "fault@%s", what);
                                        res = buf;
                                }
                                printf("Q var=%s alg=%s np=%d place=%s res=%s\n", var, alg == 0 ? "aes128" : alg == 1 ? "aes256" : "chacha20", np,
                                       place == 0 ? "end" : "start", res);
                                for (int p = 0; p < 2 * np; p++)
                                        munmap(maps[p], (size_t) pg * 3);
                        }
        }
        return 0;
}
